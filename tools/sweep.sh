#!/bin/bash
# tools/sweep.sh <tier> <seed>... : run every registered check, print one line each
cd "$(dirname "$0")/.."
tier=${1:-quick}; shift
seeds=${@:-1}
ids=$(python3 -c "import json;print(' '.join(c['property_id'] for c in json.load(open('MANIFEST.json'))['checks']))")
for s in $seeds; do
  for id in $ids; do
    out=$(VERIF_SEED=$s ./run $id $tier 2>&1); code=$?
    echo "seed=$s $id exit=$code $(echo "$out" | grep -c '^VIOLATION') viol, $(echo "$out" | grep -c '^KNOWN-FINDING') known, $(echo "$out" | grep -c '^INCONCLUSIVE') inconcl | $(echo "$out" | grep '^SUMMARY' | sed 's/SUMMARY property=[A-Z0-9]* //')"
    echo "$out" | grep '^VIOLATION\|^ERROR' | cut -c1-300 | head -3
  done
done
