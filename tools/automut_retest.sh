#!/bin/bash
# tools/automut_retest.sh <mutant id> <check ids...> : re-run further checks against one automatic mutant
# (id as recorded in seeded/automut/results.*.jsonl, e.g. lib/journal/process.go:189:eq)
id=$1; shift
export GOFLAGS=-mod=mod GOPROXY=off GOSUMDB=off GOTOOLCHAIN=local
wt=/tmp/mut/amr
git -C /repo worktree remove --force $wt 2>/dev/null; rm -rf $wt
git -C /repo worktree add -q --detach $wt HEAD || exit 2
python3 - "$id" "$wt" <<'PY' || { git -C /repo worktree remove --force $wt; exit 2; }
import json,glob,sys
mid,wt=sys.argv[1:3]
for f in glob.glob('/verif/seeded/automut/results.*.jsonl'):
    for l in open(f):
        r=json.loads(l)
        if r['id']==mid:
            p=f"{wt}/{r['file']}"; lines=open(p).read().split('\n')
            assert lines[r['line']-1].strip()==r['before'], 'stale'
            ind=lines[r['line']-1][:len(lines[r['line']-1])-len(lines[r['line']-1].lstrip())]
            lines[r['line']-1]=ind+r['after']; open(p,'w').write('\n'.join(lines)); sys.exit(0)
sys.exit(1)
PY
# runs against another tree must not leave their evidence behind
rm -rf /tmp/kv-evidence-bak; cp -r /verif/evidence /tmp/kv-evidence-bak
cd /verif
for c in "$@"; do
  res=$(KV_REPO=$wt ./run $c ${AM_TIER:-quick} 2>&1)
  echo "retest $id $c: exit=$? $(echo "$res" | grep -c '^VIOLATION') violations; keys: $(echo "$res" | grep -o 'key=[^ ]*' | sort | uniq -c | tr '\n' ' ' | cut -c1-200)"
done
git -C /repo worktree remove --force $wt; rm -rf /verif/replays/*; ./run setup >/dev/null 2>&1
rm -rf /verif/evidence; mv /tmp/kv-evidence-bak /verif/evidence
