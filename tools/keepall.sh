#!/bin/bash
# tools/keepall.sh <suffix> : evaluate and keep every finished seeded change of a batch (ids C??<suffix>)
sfx=$1
for d in /tmp/mut-out/C??$sfx*; do
  id=$(basename $d)
  [ -f $d/NOTES.md ] && [ -f $d/patch.diff ] || continue
  [ -f /verif/seeded/$id/meta.json ] && continue
  /verif/tools/keepmut.sh $id 2>&1 | grep -v "^VIOLATION" | grep "check \|kept\|demo:\|suite\|applies" | cut -c1-260
done
