#!/usr/bin/env python3
"""tools/automut_summary.py : write seeded/automut/SUMMARY.md from results.*.jsonl and triage.json"""
import json, glob, collections
rows = []
for f in sorted(glob.glob('/verif/seeded/automut/results.*.jsonl')):
    rows += [json.loads(l) for l in open(f)]
tri = json.load(open('/verif/seeded/automut/triage.json'))
c = collections.Counter(r['status'] for r in rows)
surv = [r for r in rows if r['status'] == 'survived']
cat = collections.Counter(tri.get(r['id'], ['untriaged'])[0] for r in surv)
by = collections.Counter(r.get('caught_by') for r in rows if r['status'] == 'caught')
out = []
out.append('# Automatic first-order mutants (tools/automut.py, seed 1, 8 per file)\n')
out.append(f'{len(rows)} mutants over {len(set(r["file"] for r in rows))} files: {c["nocompile"]} did not compile, {c["killed-by-tests"]} failed knut\'s own test suite, '
           f'{c["caught"]+c["survived"]} compiled and passed it. Of those, the quick tier of the checks mapped to the mutated file caught {c["caught"]} at once '
           f'({", ".join(f"{k}: {v}" for k, v in sorted(by.items()))}); {c["survived"]} survived and were triaged by hand:\n')
for k, v in sorted(cat.items()):
    out.append(f'* {k}: {v}')
out.append('\nequivalent = same behaviour for every input; outside = behaviour differs but no property statement covers it; '
           'caught-by-other = caught by a check that was not in the file\'s mapping (retested with tools/automut_retest.sh); '
           'gap-closed = a real gap of a generator or oracle, closed, now caught.\n')
out.append('| mutant | change | triage |\n|---|---|---|')
for r in sorted(surv, key=lambda r: r['id']):
    t = tri.get(r['id'], ['untriaged', ''])
    out.append(f"| {r['id']} | `{r['before'][:70]}` => `{r['after'][:70]}` | **{t[0]}**: {t[1]} |".replace('|| ', '\\|\\| ').replace(' || ', ' \\|\\| '))
open('/verif/seeded/automut/SUMMARY.md', 'w').write('\n'.join(out) + '\n')
print(dict(c), dict(cat))
