#!/usr/bin/env python3
"""Regenerates /verif/MANIFEST.json from the table below and validates it."""
import json, os, subprocess, sys
ROOT = os.path.dirname(os.path.dirname(os.path.abspath(__file__)))

def repo_commits():
    out = subprocess.run(["git", "-C", "/repo", "log", "--format=%H %s"], capture_output=True, text=True).stdout
    return [l.split()[0] for l in out.splitlines() if " verif hook:" in " " + l]

# id -> (level category, technique, level text, level note, design ref)
CHECKS = {}
def chk(id, cat, technique, text, note, ref):
    CHECKS[id] = (cat, technique, text, note, ref)

exec(open(os.path.join(ROOT, "tools", "checks_table.py")).read())

props = [json.loads(l)["id"] for l in open(os.path.join(ROOT, "properties.jsonl")) if l.strip()]
checks = []
na = []
for pid in props:
    if pid in CHECKS:
        cat, technique, text, note, ref = CHECKS[pid]
        checks.append({
            "property_id": pid,
            "quick_cmd": f"./run {pid} quick",
            "thorough_cmd": f"./run {pid} thorough",
            "evidence_file": f"/verif/evidence/{pid}.json",
            "replay_cmd_template": f"./run {pid} --replay {{path}}",
            "engine": "kv",
            "level_claimed": {"category": cat, "text": text, "design_ref": ref},
            "level_note": note,
            "technique": technique,
        })
    else:
        na.append({"property_id": pid, "reason": NOT_APPLICABLE.get(pid, "no check registered yet in this revision of /verif; nothing is claimed for this property")})

m = {
    "version": 1,
    "setup_cmd": "./run setup",
    "hooks": {
        "guard": "verif",
        "enable": "go build -tags verif (./run builds /repo's working tree with -tags verif into /verif/.build/knut and knut-race; the harness links /repo's packages through a replace directive, also with -tags verif)",
        "baseline_off_cmd": "cd /repo && GOFLAGS=-mod=mod GOPROXY=off GOSUMDB=off GOTOOLCHAIN=local go test -vet=off -count=1 -timeout 25m ./...",
        "source_commits": repo_commits(),
        "add_only": True,
    },
    "engines": [{
        "name": "kv",
        "path": "/verif/harness",
        "serves_properties": sorted(CHECKS),
        "kind_free_text": "Go runtime-monitoring harness: drives the real knut binary (built from /repo with -tags verif, plain and -race) and the real packages in-process with generated, hostile and fault-injected workloads; oracles are independent reference models (big.Rat ledger, own calendar, own table/beancount/journal readers), trace-specification checkers over hook event logs, the Go race detector, strace/rlimit fault injection and porcupine.",
    }],
    "checks": checks,
    "notes": NOTES,
    "not_applicable": na,
}
json.dump(m, open(os.path.join(ROOT, "MANIFEST.json"), "w"), indent=1)
open(os.path.join(ROOT, "MANIFEST.json"), "a").write("\n")
try:
    import jsonschema
    jsonschema.validate(m, json.load(open("/root/.vp/MANIFEST.schema.json")))
    print("MANIFEST.json valid;", len(checks), "checks,", len(na), "not_applicable")
except ImportError:
    print("jsonschema not available; wrote MANIFEST.json without validation")
