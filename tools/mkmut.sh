#!/bin/bash
# tools/mkmut.sh <id> : create a scratch worktree of /repo for a mutation agent and print its prompt
id=$1; style=${2:-}
prop=${id:0:3}
wt=/tmp/mut/$id
git -C /repo worktree remove --force $wt 2>/dev/null
rm -rf $wt /tmp/mut-out/$id
git -C /repo worktree add -q --detach $wt HEAD
mkdir -p /tmp/mut-out/$id
python3 - "$prop" "$wt" "$id" "$style" <<'PY'
import json,sys
prop,wt,mid,style=sys.argv[1:5]
for l in open('/verif/properties.jsonl'):
    p=json.loads(l)
    if p['id']==prop: break
print(f"""You are working on the open-source Go project sboehler/knut (a plain-text double-entry accounting CLI). You have your own scratch git worktree of it at {wt} — work only there (never touch /repo or /verif, never commit). Every shell call needs: export GOFLAGS=-mod=mod GOPROXY=off GOSUMDB=off GOTOOLCHAIN=local (there is no network). Build with `go build -o /tmp/mut-out/{mid}/knut .` from the worktree root; the existing test suite is `go test -vet=off -count=1 ./...`.

Here is a semantic property that knut is supposed to satisfy:

TITLE: {p['title']}
STATEMENT: {p['statement']}
QUANTIFIED OVER: {p['quantifier']['text']}
(The code most relevant to it: {', '.join(p['anchors']['files'])}.)

Your task: make ONE realistic source change (a plausible bug a developer could introduce: a refactoring slip, a wrong boundary, a dropped case, a missing copy/lock/sort, a misplaced statement, two cooperating sites that each look fine alone) to knut's non-test source that BREAKS this property, while the project still compiles and the existing test suite still passes completely. Do not edit tests, golden files, or the files named verif_on.go / verif_off.go. The change must need something specific to manifest — a particular input shape, flag combination, multi-step sequence, interleaving, or fault at a particular point — not something that any ordinary use would expose at once. {style}

Then write a demonstration that FAILS with your change and PASSES on the unmodified code (check both. Do NOT use `git stash` — the stash is shared between worktrees and other agents work next to you; instead save `git diff > /tmp/mut-out/<id>/patch.diff`, revert with `git apply -R`, and re-apply with `git apply`): a shell script `run.sh <path-to-knut-binary>` (plus any input files) or a Go test, that exits non-zero exactly when the property is violated.

Deliver into /tmp/mut-out/{mid}/ : `patch.diff` (output of `git diff` in the worktree — leave the change uncommitted), `demo/` (run.sh or the Go test + inputs), and `NOTES.md` (5-10 lines: what you changed, which clause of the property it breaks, what is needed for it to manifest, exactly what you ran and observed with and without the change, confirmation that `go test ./...` passes with the change). Keep your final answer to a 5-line summary.""")
PY
