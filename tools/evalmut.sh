#!/bin/bash
# tools/evalmut.sh <mutid> [check ids...] : confirm a seeded change and run checks against it
# (uses the agent's worktree /tmp/mut/<mutid> through KV_REPO; /repo itself is not touched)
id=$1; shift
prop=${id:0:3}
checks=${@:-$prop}
wt=/tmp/mut/$id; out=/tmp/mut-out/$id
export GOFLAGS=-mod=mod GOPROXY=off GOSUMDB=off GOTOOLCHAIN=local
if [ ! -d $wt ]; then
  # recreate the scratch worktree from the kept patch
  git -C /repo worktree prune
  git -C /repo worktree add -q --detach $wt HEAD || exit 2
  src=$out/patch.diff; [ -f $src ] || src=/verif/seeded/$id/patch.diff
  git -C $wt apply $src || { echo "PATCH DOES NOT APPLY"; exit 2; }
  mkdir -p $out; [ -d $out/demo ] || cp -r /verif/seeded/$id/demo $out/demo 2>/dev/null; [ -f $out/patch.diff ] || cp $src $out/patch.diff; [ -f $out/NOTES.md ] || cp /verif/seeded/$id/NOTES.md $out/ 2>/dev/null
fi
cd $wt || exit 2
echo "== $id: files changed: $(git diff --stat | tail -1)"
git diff > $out/patch.check.diff
git -C /repo apply --check $out/patch.diff && echo "patch applies to /repo HEAD: yes" || echo "patch applies to /repo HEAD: NO"
go build -o $out/knut-mut . || { echo "BUILD FAILS"; exit 1; }
fails=$(go test -vet=off -count=1 ./... 2>&1 | grep -v "no test files" | grep -vc "^ok")
echo "suite with change: $fails failing packages"
( cd /repo && go build -o $out/knut-orig . )
if [ -f $out/demo/run.sh ]; then
  ( cd $out/demo && bash run.sh $out/knut-mut >/dev/null 2>&1 ); m=$?
  ( cd $out/demo && bash run.sh $out/knut-orig >/dev/null 2>&1 ); o=$?
  echo "demo: exit with change=$m, without=$o"
else
  echo "demo: no run.sh (check manually: $(ls $out/demo))"
fi
# runs against another tree must not leave their evidence behind
rm -rf /tmp/kv-evidence-bak; cp -r /verif/evidence /tmp/kv-evidence-bak
cd /verif
for c in $checks; do
  res=$(KV_REPO=$wt ./run $c quick 2>&1)
  echo "check $c: exit=$? $(echo "$res" | grep -c '^VIOLATION') violations; keys: $(echo "$res" | grep -o 'key=[^ ]*' | sort | uniq -c | tr '\n' ' ' | cut -c1-300)"
  echo "$res" | grep '^VIOLATION' | head -1 | cut -c1-400
done
rm -rf /verif/evidence; mv /tmp/kv-evidence-bak /verif/evidence
