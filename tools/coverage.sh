#!/bin/bash
# tools/coverage.sh [ids...] : run the quick tier of the given checks (default: all that drive
# the CLI) against a coverage-instrumented knut and report which code the workloads reached.
# Evidence of reach only - never an oracle. Writes evidence/coverage.txt.
cd "$(dirname "$0")/.."; V=$PWD
ids=${@:-C01 C02 C03 C04 C05 C06 C09 C13 C14 C15 C16 C17 C18 C20}
export KV_COVER=1 GOCOVERDIR=$PWD/.build/cover
rm -rf $GOCOVERDIR; mkdir -p $GOCOVERDIR
for id in $ids; do ./run $id quick | tail -1; done
export GOFLAGS=-mod=mod GOPROXY=off GOSUMDB=off GOTOOLCHAIN=local
( cd /repo && go tool covdata percent -i $GOCOVERDIR ) | sed 's/^\s*//' | tee evidence/coverage.txt
( cd /repo && go tool covdata textfmt -i $GOCOVERDIR -o $V/.build/cover.txt && go tool cover -func=$V/.build/cover.txt ) > .build/cover-func.txt
unset KV_COVER GOCOVERDIR
./run setup >/dev/null   # rebuild the plain binary
rm -rf .build/cover
