#!/usr/bin/env python3
"""tools/automut.py <worker> <nworkers> <seed> <per_file> <out.jsonl>

Automatic first-order mutants of knut (operator / constant / dropped-statement
changes on the files the properties are anchored in), as a complement to the
hand-made seeded changes under /verif/seeded: for every mutant that still
compiles AND still passes knut's own test suite, the quick tier of the checks
mapped to the mutated file is run against it (KV_REPO) and the outcome is
recorded.  Works in a scratch worktree /tmp/am/wt<worker> and a scratch copy of
/verif at /tmp/am/verif<worker>; /repo and /verif are not touched.  Survivors
are triaged by hand (equivalent mutant or gap) - see DESIGN.md section 10.
"""
import json, os, random, re, shutil, subprocess, sys, time

worker, nworkers, seed, per_file, out = int(sys.argv[1]), int(sys.argv[2]), int(sys.argv[3]), int(sys.argv[4]), sys.argv[5]
only = sys.argv[6:]  # optional file filter

ENV = dict(os.environ, GOFLAGS="-mod=mod", GOPROXY="off", GOSUMDB="off", GOTOOLCHAIN="local")

MAP = {
    "lib/journal/process.go": ["C01", "C02", "C03", "C16", "C20"],
    "lib/journal/journal.go": ["C04", "C05", "C09", "C02"],
    "lib/journal/check/check.go": ["C04"],
    "lib/model/transaction/transaction.go": ["C10", "C09", "C05"],
    "lib/model/price/prices.go": ["C12", "C03"],
    "lib/model/price/price.go": ["C12", "C03", "C09"],
    "lib/model/account/account.go": ["C02", "C16", "C03"],
    "lib/model/account/registry.go": ["C02", "C16", "C03", "C04"],
    "lib/model/commodity/registry.go": ["C09", "C05", "C07"],
    "lib/model/assertion/assertion.go": ["C04", "C09"],
    "lib/model/posting/posting.go": ["C01", "C09", "C10"],
    "lib/model/model.go": ["C04", "C09", "C10", "C14"],
    "lib/common/date/date.go": ["C11", "C10", "C02"],
    "lib/reports/balance/report.go": ["C01", "C02", "C17"],
    "lib/reports/balance/renderer.go": ["C01", "C02", "C17"],
    "lib/common/table/table.go": ["C17"],
    "lib/common/table/renderer.go": ["C17", "C02"],
    "lib/common/table/csv.go": ["C17", "C02"],
    "lib/amounts/amounts.go": ["C01", "C02"],
    "lib/syntax/parser/parser.go": ["C07", "C08"],
    "lib/syntax/scanner/scanner.go": ["C07", "C08"],
    "lib/syntax/directives/directives.go": ["C07", "C08"],
    "lib/syntax/printer/printer.go": ["C08", "C15"],
    "lib/syntax/syntax.go": ["C05", "C14", "C07", "C08"],
    "lib/syntax/bayes/bayes.go": ["C15", "C06"],
    "lib/journal/printer/printer.go": ["C09", "C13"],
    "lib/journal/beancount/beancount.go": ["C16"],
    "lib/journal/performance/performance.go": ["C20"],
    "lib/journal/performance/universe.go": ["C20"],
    "lib/reports/weights/weights.go": ["C20", "C06"],
    "lib/common/cpr/cpr.go": ["C19", "C14"],
    "lib/common/multimap/multimap.go": ["C01", "C02", "C06"],
    "lib/common/compare/compare.go": ["C02", "C06"],
    "cmd/flags/flags.go": ["C11", "C02", "C14"],
    "cmd/flags/templates.go": ["C11", "C02"],
    "cmd/commands/balance.go": ["C02", "C17", "C14"],
    "cmd/commands/check.go": ["C04", "C14"],
    "cmd/commands/format.go": ["C08", "C18"],
    "cmd/commands/infer.go": ["C15", "C18"],
    "cmd/commands/print.go": ["C09", "C14"],
    "cmd/commands/transcode.go": ["C16", "C14"],
    "cmd/commands/portfolio/returns.go": ["C20", "C14"],
    "cmd/commands/portfolio/weights.go": ["C20", "C14"],
    "cmd/importer/cumulus/cumulus.go": ["C13"],
    "cmd/importer/postfinance/postfinance.go": ["C13"],
    "cmd/importer/supercard/supercard.go": ["C13"],
    "cmd/importer/swisscard/swisscard.go": ["C13"],
    "cmd/importer/swisscard2/swisscard2.go": ["C13"],
    "cmd/importer/revolut/revolut.go": ["C13"],
    "cmd/importer/revolut2/revolut2.go": ["C13"],
    "cmd/importer/wise/wise.go": ["C13"],
    "cmd/importer/viac/viac.go": ["C13"],
    "cmd/importer/swissquote/swissquote.go": ["C13"],
    "cmd/importer/interactivebrokers/interactivebrokers.go": ["C13"],
}

OPS = [
    ("rel", r"<=", "<"), ("rel", r"(?<![<\-])<(?![=\-<])", "<="), ("rel", r">=", ">"), ("rel", r"(?<![>\-=])>(?![=>])", ">="),
    ("eq", r"==", "!="), ("eq", r"!=", "=="),
    ("logic", r"&&", "||"), ("logic", r"\|\|", "&&"),
    ("arith", r" \+ ", " - "), ("arith", r" - ", " + "), ("arith", r"\+=", "-="), ("arith", r"-=", "+="), ("arith", r"\+= ", "= "),
    ("neg", r"if !", "if "), ("neg", r"return !", "return "),
    ("const", r"\[0\]", "[1]"), ("const", r"\+ 1\b", "+ 0"), ("const", r"- 1\b", "- 0"), ("const", r"\b0\b", "1"), ("const", r"\b1\b", "2"),
    ("bool", r"\btrue\b", "false"), ("bool", r"\bfalse\b", "true"),
    ("dec", r"\.Add\(", ".Sub("), ("dec", r"\.Sub\(", ".Add("), ("dec", r"\.Neg\(\)", ""), ("dec", r"\.LessThan\(", ".LessThanOrEqual("),
    ("dec", r"\.GreaterThan\(", ".GreaterThanOrEqual("), ("dec", r"\.IsZero\(\)", ".IsNegative()"), ("dec", r"\.Before\(", ".After("), ("dec", r"\.After\(", ".Before("),
    ("dec", r"\.Mul\(", ".Div("), ("dec", r"\.AddDate\(0, 0, 1\)", ".AddDate(0, 0, 0)"), ("dec", r"\.AddDate\(0, 0, -1\)", ".AddDate(0, 0, 0)"),
]
DROP = re.compile(r"^\s*(continue|break|[A-Za-z_][\w\.\[\]\*]*(\([^=]*\))?\.?[\w\.]*\(.*\)|sort\.\w+\(.*|slices\.\w+\(.*|[\w\.\[\]]+ (=|\+=|-=) .*)$")


def outside_string(line, idx):
    q = 0
    esc = False
    for ch in line[:idx]:
        if esc:
            esc = False
            continue
        if ch == "\\":
            esc = True
        elif ch in "\"`":
            q += 1
    return q % 2 == 0


def candidates(path, text):
    res = []
    lines = text.split("\n")
    in_import = False
    depth = 0
    for n, line in enumerate(lines):
        s = line.strip()
        if s.startswith("import ("):
            in_import = True
        if in_import:
            if s == ")":
                in_import = False
            continue
        code = line.split("//")[0] if outside_string(line, line.find("//")) else line
        if not s or s.startswith("//") or s.startswith("package ") or s.startswith("import ") or "verifYield" in s or "verifWrap" in s or "verifArrival" in s:
            continue
        if not line.startswith("\t"):
            continue  # top-level declarations only carry signatures
        if "Errorf(" in s or "errors.New(" in s or s.startswith("c.Flags()") or s.startswith("cmd.Flags()") or "Usage" in s or "Short:" in s or "Long:" in s:
            continue
        for kind, pat, rep in OPS:
            for m in re.finditer(pat, code):
                if not outside_string(code, m.start()):
                    continue
                new = code[:m.start()] + rep + code[m.end():] + line[len(code):]
                if new != line:
                    res.append((n, kind, line, new))
        if DROP.match(code) and not s.startswith(("defer", "return", "go ", "if ", "for ", "switch", "case", "var ", "}")) and ":=" not in s:
            res.append((n, "drop", line, "\t" * (len(line) - len(line.lstrip("\t"))) + "_ = 0 // dropped"))
    return res


def sh(cmd, cwd, timeout=1800, env=ENV):
    try:
        p = subprocess.run(cmd, cwd=cwd, env=env, stdout=subprocess.PIPE, stderr=subprocess.STDOUT, timeout=timeout, shell=isinstance(cmd, str))
        return p.returncode, p.stdout.decode("utf-8", "replace")
    except subprocess.TimeoutExpired as e:
        return 124, (e.stdout or b"").decode("utf-8", "replace")


def main():
    rng = random.Random(seed)
    muts = []
    for path in sorted(MAP):
        if only and not any(o in path for o in only):
            continue
        text = open("/repo/" + path).read()
        cands = candidates(path, text)
        rng2 = random.Random(f"{seed}|{path}")
        rng2.shuffle(cands)
        # at most one mutant per source line, spread over operator kinds
        seen_lines, picked = set(), []
        for c in cands:
            if c[0] in seen_lines:
                continue
            seen_lines.add(c[0])
            picked.append(c)
            if len(picked) >= per_file:
                break
        for c in picked:
            muts.append((path,) + c)
    mine = [m for i, m in enumerate(muts) if i % nworkers == worker]
    wt, vf = f"/tmp/am/wt{worker}", f"/tmp/am/verif{worker}"
    os.makedirs("/tmp/am", exist_ok=True)
    sh(["git", "-C", "/repo", "worktree", "remove", "--force", wt], "/")
    shutil.rmtree(wt, ignore_errors=True)
    shutil.rmtree(vf, ignore_errors=True)
    rc, o = sh(["git", "-C", "/repo", "worktree", "add", "-q", "--detach", wt, "HEAD"], "/")
    if rc != 0:
        print(o)
        sys.exit(2)
    sh(["rsync", "-a", "--exclude", ".build", "--exclude", "replays", "--exclude", "seeded", "--exclude", ".git", "/verif/", vf + "/"], "/")
    done = set()
    if os.path.exists(out):
        for l in open(out):
            try:
                done.add(json.loads(l)["id"])
            except Exception:
                pass
    for path, n, kind, before, after in mine:
        mid = f"{path}:{n+1}:{kind}"
        if mid in done:
            continue
        rec = {"id": mid, "file": path, "line": n + 1, "op": kind, "before": before.strip(), "after": after.strip(), "checks": {}}
        t0 = time.time()
        sh(["git", "checkout", "--", "."], wt)
        lines = open(f"{wt}/{path}").read().split("\n")
        if lines[n] != before:
            rec["status"] = "stale"
        else:
            lines[n] = after
            open(f"{wt}/{path}", "w").write("\n".join(lines))
            rc, o = sh("go build ./...", wt, 600)
            if rc != 0:
                rec["status"] = "nocompile"
            else:
                rc, o = sh("go test -vet=off -count=1 ./... 2>&1 | grep -v 'no test files' | grep -v '^ok' | head -5", wt, 1500)
                if o.strip():
                    rec["status"] = "killed-by-tests"
                    rec["tests"] = o.strip()[:300]
                else:
                    rec["status"] = "survived"
                    for chk in MAP[path]:
                        rc, o = sh(["./run", chk, "quick"], vf, 1500, dict(ENV, KV_REPO=wt))
                        keys = sorted(set(re.findall(r"key=(\S+)", o)))
                        viol = len(re.findall(r"^VIOLATION", o, re.M))
                        rec["checks"][chk] = {"exit": rc, "violations": viol, "keys": keys[:6]}
                        if rc == 1 and viol > 0:
                            rec["status"] = "caught"
                            rec["caught_by"] = chk
                            break
                        if rc not in (0, 1):
                            rec.setdefault("errors", []).append(f"{chk}: exit {rc}: " + o[-300:])
                    shutil.rmtree(vf + "/replays", ignore_errors=True)
        rec["wall_s"] = round(time.time() - t0, 1)
        with open(out, "a") as f:
            f.write(json.dumps(rec) + "\n")
        print(rec["status"], mid, rec.get("caught_by", ""), flush=True)
    sh(["git", "-C", "/repo", "worktree", "remove", "--force", wt], "/")
    shutil.rmtree(vf, ignore_errors=True)


main()
