#!/usr/bin/env python3
"""Rewrites the seeded-changes table in DESIGN.md (§10) from /verif/seeded/*/meta.json."""
import json, os, re, glob
ROOT = os.path.dirname(os.path.dirname(os.path.abspath(__file__)))
EXTRA = {}
ex = os.path.join(ROOT, "seeded", "HISTORY.json")
if os.path.exists(ex):
    EXTRA = json.load(open(ex))
rows = []
for d in sorted(glob.glob(os.path.join(ROOT, "seeded", "*", "meta.json"))):
    m = json.load(open(d))
    notes = m.get("breaks", "")
    # first substantive line of the sub-agent's notes
    line = ""
    for l in notes.splitlines():
        l = l.strip().lstrip("-*# ").strip()
        if len(l) > 40 and not l.lower().startswith("notes"):
            line = l
            break
    line = re.sub(r"\s+", " ", line)[:260].replace("|", "/")
    caught = ", ".join(f"{c} ({m['checks'][c]['keys'].split()[1].replace('key=','') if len(m['checks'][c]['keys'].split())>1 else ''})" for c in m["caught_by"]) or "**none**"
    conf = m["confirmed"]
    ok = "yes" if (conf["compiles"] and conf["suite_failing_packages_with_change"] == 0 and conf["demo_exit_with_change"] not in (0, None) and conf["demo_exit_without_change"] == 0) else "see meta.json"
    hist = EXTRA.get(m["id"], "")
    rows.append(f"| {m['id']} | {line} | {ok} | {caught} | {hist} |")
table = "| id | change (from the sub-agent's notes) | compiles, suite passes, demo fails with / passes without | caught by (first key) | history |\n|---|---|---|---|---|\n" + "\n".join(rows)
p = os.path.join(ROOT, "DESIGN.md")
s = open(p).read()
begin, end = "<!-- SEEDED-TABLE-BEGIN -->", "<!-- SEEDED-TABLE-END -->"
if "SEEDED_TABLE_PLACEHOLDER" in s:
    s = s.replace("SEEDED_TABLE_PLACEHOLDER", begin + "\n" + table + "\n" + end)
else:
    i, j = s.index(begin), s.index(end)
    s = s[:i] + begin + "\n" + table + "\n" + s[j:]
open(p, "w").write(s)
print(len(rows), "seeded changes in the table")
