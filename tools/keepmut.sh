#!/bin/bash
# tools/keepmut.sh <mutid> [check ids...] : evaluate a seeded change and keep it under /verif/seeded/<mutid>/
id=$1; shift
out=/tmp/mut-out/$id; dst=/verif/seeded/$id
ev=$(/verif/tools/evalmut.sh $id "$@" 2>&1)
echo "$ev"
mkdir -p $dst
rm -rf $dst/demo; cp -r $out/patch.diff $dst/; cp -r $out/demo $dst/demo 2>/dev/null; cp $out/NOTES.md $dst/NOTES.md 2>/dev/null
rm -f $dst/demo/knut $dst/demo/knut-* 2>/dev/null
echo "$ev" > $dst/eval.txt
python3 - "$id" "$dst" <<'PY'
import json,sys,re
mid,dst=sys.argv[1:3]
ev=open(dst+'/eval.txt').read()
notes=open(dst+'/NOTES.md').read() if __import__('os').path.exists(dst+'/NOTES.md') else ''
checks={}
for m in re.finditer(r'check (C\d+): exit=(\d+) (\d+) violations; keys:[ \t]*(.*)',ev):
    checks[m.group(1)]={"exit":int(m.group(2)),"violation_lines":int(m.group(3)),"keys":m.group(4).strip()}
demo=re.search(r'demo: exit with change=(\d+), without=(\d+)',ev)
meta={
 "id":mid,"property":mid[:3],
 "breaks":notes.strip()[:3000],
 "needs_to_manifest":"see NOTES.md (written by the sub-agent that produced the change, which saw only the property text and its own worktree)",
 "confirmed":{
   "patch_applies_to_repo_head":"patch applies to /repo HEAD: yes" in ev,
   "compiles":"BUILD FAILS" not in ev,
   "suite_failing_packages_with_change":int(re.search(r'suite with change: (\d+)',ev).group(1)) if re.search(r'suite with change: (\d+)',ev) else None,
   "demo_exit_with_change":int(demo.group(1)) if demo else None,
   "demo_exit_without_change":int(demo.group(2)) if demo else None,
 },
 "what_was_run":"tools/evalmut.sh: go build + go test ./... in the agent's worktree; demo/run.sh against the mutated and the original binary; then `KV_REPO=<worktree> ./run <check> quick` for the listed checks (KV_REPO points binary and in-process harness at the changed tree; equivalent to git -C /repo apply, without disturbing concurrently running sweeps)",
 "checks":checks,
 "caught_by":[c for c,v in checks.items() if v["exit"]==1 and v["violation_lines"]>0],
}
json.dump(meta,open(dst+'/meta.json','w'),indent=1)
print("kept",dst,"caught_by",meta["caught_by"])
PY
