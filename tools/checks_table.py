NOTES = "All checks are runtime monitors over real executions of sboehler/knut built from /repo's working tree; see DESIGN.md. Verdicts are three-valued (VIOLATION / held / INCONCLUSIVE); known-findings.txt lists genuine defects that are recorded rather than repaired."
NOT_APPLICABLE = {}

chk("C01", "exploration", "runtime monitoring: oracle over CSV balance reports + tail-monitor hook trace",
    "Every Delta cell of `knut balance --csv` of generated accepted journals is checked to be exactly zero over a drawn matrix of window/interval/last/diff/close/valuation/sort/mapping/remap flags, and every transaction seen by the tail monitor hook nets to zero; held on the executions listed in the evidence, nothing more.",
    "Trusts the journal generator to emit accepted journals (rejected runs are counted as not_judged), encoding/csv, and that the verif-tag hooks do not alter behaviour.",
    "DESIGN.md §4 C01")

chk("C02", "exploration", "runtime monitoring: cell-by-cell comparison of real balance reports with an independent big.Rat reference ledger",
    "Each unvalued report of a generated accepted journal under drawn window/interval/last/diff/close/filter/mapping/remap flags is parsed (tree from the text table, exact numbers from CSV) and every cell, the row set, the totals and Delta are compared with an independently written rational-arithmetic ledger; held on the (journal, flag) pairs listed in the evidence.",
    "Trusts the reference ledger's reading of the README for --close/-m/--remap, the table readers, and math/big. Journals with accruals are not used here (C09/C10 cover them).",
    "DESIGN.md §4 C02")

chk("C04", "exploration", "runtime monitoring: exit status and diagnostics of the real binary against an independent lifecycle automaton (random + bounded-exhaustive multisets)",
    "The verdict of `knut check` (and of print/balance) on generated valid journals, single-fault mutants and an enumerated family of small journals is compared with an independently written account-lifecycle automaton; for single planted faults the diagnostic must name date and account of the first offending directive. The thorough tier enumerates all 118755 multisets of <=5 directives over a 24-symbol alphabet.",
    "Trusts the automaton's reading of the statement (evaluation order prices, opens, transactions, assertions, closes; closing forgets positions). No accruals; assertions only on A/L accounts.",
    "DESIGN.md §4 C04")

chk("C03", "exploration", "runtime monitoring: valued reports of the real binary against an exact-rational mark-to-market reference with an explicit truncation budget; planted missing prices",
    "Valued reports (-v V) of generated journals with tree-shaped price histories are compared cell by cell with quantity x latest price computed in exact rationals; the allowed deviation is an explicit bound derived from the number of 8-decimal truncation steps. Journals with a planted missing price must fail with a diagnostic and empty stdout.",
    "Trusts the reference price walk (forest-shaped graphs only, so chains are unique), the derived window corollary (value shown = mark at column minus mark before the window) and the budget formula; --close=false reports only.",
    "DESIGN.md §4 C03")

chk("C06", "exploration", "runtime monitoring: repeated executions of the real binary under varied GOMAXPROCS / schedule-perturbation hook / map randomisation, byte comparison of stdout and exit status",
    "Each command of a tie-rich command set is run N times on identical inputs while only GOMAXPROCS, the schedule-perturbation seed (verif hook in cpr.Push/Pop) and Go's native map randomisation vary; any second distinct (stdout, exit) is a violation. Evidence reports how many distinct batch-arrival orders the perturbation actually produced.",
    "Detection is probabilistic (a k-way map-order tie escapes N runs with probability ~k(1/k)^N); silence is sound. stderr is not compared.",
    "DESIGN.md §4 C06")

chk("C05", "exploration", "runtime monitoring: metamorphic comparison of real runs on permuted / include-tree-split variants under perturbed schedules",
    "For each base journal, variants that only permute the directives and/or distribute them over an include tree are run under drawn GOMAXPROCS and schedule-perturbation seeds; the check verdict, every balance report byte for byte, and the printed journal modulo order inside (date, kind) groups must equal the base's.",
    "Samples permutations, tree shapes and schedules; diagnostics of rejected journals are not compared. Same-day double price declarations for one pair are excluded as in the statement.",
    "DESIGN.md §4 C05")

chk("C09", "exploration", "runtime monitoring: round-trip of the real print command (print, check, print again, balance) plus an independent reader's directive census",
    "print(J) of generated accepted journals must be accepted by check, be a fixpoint of print, yield byte-identical balance reports under several flag sets, and contain exactly the model's non-accrued directives as read by the harness's own journal reader.",
    "The per-period split of accrued legs is C10's; balance comparisons use -a. Trusts the harness's journal reader (jr).",
    "DESIGN.md §4 C09")
