NOTES = "All checks are runtime monitors over real executions of sboehler/knut built from /repo's working tree; see DESIGN.md. Verdicts are three-valued (VIOLATION / held / INCONCLUSIVE); known-findings.txt lists genuine defects that are recorded rather than repaired."
NOT_APPLICABLE = {}

chk("C01", "exploration", "runtime monitoring: oracle over CSV balance reports + tail-monitor hook trace",
    "Every Delta cell of `knut balance --csv` of generated accepted journals is checked to be exactly zero over a drawn matrix of window/interval/last/diff/close/valuation/sort/mapping/remap flags, and every transaction seen by the tail monitor hook nets to zero; held on the executions listed in the evidence, nothing more.",
    "Trusts the journal generator to emit accepted journals (rejected runs are counted as not_judged), encoding/csv, and that the verif-tag hooks do not alter behaviour.",
    "DESIGN.md §4 C01")

chk("C02", "exploration", "runtime monitoring: cell-by-cell comparison of real balance reports with an independent big.Rat reference ledger",
    "Each unvalued report of a generated accepted journal under drawn window/interval/last/diff/close/filter/mapping/remap flags is parsed (tree from the text table, exact numbers from CSV) and every cell, the row set, the totals and Delta are compared with an independently written rational-arithmetic ledger; held on the (journal, flag) pairs listed in the evidence.",
    "Trusts the reference ledger's reading of the README for --close/-m/--remap, the table readers, and math/big. Journals with accruals are not used here (C09/C10 cover them).",
    "DESIGN.md §4 C02")

chk("C04", "exploration", "runtime monitoring: exit status and diagnostics of the real binary against an independent lifecycle automaton (random + bounded-exhaustive multisets)",
    "The verdict of `knut check` (and of print/balance) on generated valid journals, single-fault mutants and an enumerated family of small journals is compared with an independently written account-lifecycle automaton; for single planted faults the diagnostic must name date and account of the first offending directive. The thorough tier enumerates all 118755 multisets of <=5 directives over a 24-symbol alphabet.",
    "Trusts the automaton's reading of the statement (evaluation order prices, opens, transactions, assertions, closes; closing forgets positions). No accruals; assertions only on A/L accounts.",
    "DESIGN.md §4 C04")

chk("C03", "exploration", "runtime monitoring: valued reports of the real binary against an exact-rational mark-to-market reference with an explicit truncation budget; planted missing prices",
    "Valued reports (-v V) of generated journals with tree-shaped price histories are compared cell by cell (asset / liability rows = quantity x latest price, mirror income rows = accumulated revaluation gain, other rows = bookings at their booking day's price, all computed in exact rationals; with and without period closing); the allowed deviation is an explicit bound derived from the number of 8-decimal truncation steps. Journals with a planted missing price must fail with a diagnostic and empty stdout.",
    "Trusts the reference price walk (forest-shaped graphs only, so chains are unique), the derived window corollary (value shown = mark at column minus mark before the window) and the budget formula; with --close (half of the reports) the reference models closing in valued reports (income / expense / mirror rows restart at every shown period start, Equity:Equity receives what was closed).",
    "DESIGN.md §4 C03")

chk("C06", "exploration", "runtime monitoring: repeated executions of the real binary under varied GOMAXPROCS / schedule-perturbation hook / map randomisation, byte comparison of stdout and exit status",
    "Each command of a tie-rich command set is run N times on identical inputs while only GOMAXPROCS, the schedule-perturbation seed (verif hook in cpr.Push/Pop) and Go's native map randomisation vary; any second distinct (stdout, exit) is a violation. Evidence reports how many distinct batch-arrival orders the perturbation actually produced.",
    "Detection is probabilistic (a k-way map-order tie escapes N runs with probability ~k(1/k)^N); silence is sound. stderr is not compared.",
    "DESIGN.md §4 C06")

chk("C05", "exploration", "runtime monitoring: metamorphic comparison of real runs on permuted / include-tree-split variants under perturbed schedules",
    "For each base journal, variants that only permute the directives and/or distribute them over an include tree are run under drawn GOMAXPROCS and schedule-perturbation seeds; the check verdict, every balance report byte for byte, and the printed journal modulo order inside (date, kind) groups must equal the base's.",
    "Samples permutations, tree shapes and schedules; diagnostics of rejected journals are not compared. Same-day double price declarations for one pair are excluded as in the statement.",
    "DESIGN.md §4 C05")

chk("C09", "exploration", "runtime monitoring: round-trip of the real print command (print, check, print again, balance) plus an independent reader's directive census",
    "print(J) of generated accepted journals must be accepted by check, be a fixpoint of print, yield byte-identical balance reports under several flag sets, and contain exactly the model's non-accrued directives as read by the harness's own journal reader.",
    "The per-period split of accrued legs is C10's; balance comparisons use -a. Trusts the harness's journal reader (jr).",
    "DESIGN.md §4 C09")

chk("C14", "exploration", "runtime monitoring: process-outcome monitor (exit status, panic/fatal traces, signals, watchdog, RSS, stdout/stderr discipline) over hostile inputs, include graphs and flags",
    "Every journal-processing command is run as a subprocess on hostile scenarios (random and mutated bytes, semantic hostiles, include cycles / missing / unreadable files, hostile flag values) under an address-space limit and a watchdog; the monitor classifies each outcome and flags panics, runtime fatals, signals, hangs (reproduced 3x), memory blow-ups, silent failures, output on failing report commands, and success despite a planted bad file.",
    "Samples an infinite input space; RLIMIT_AS (4 GB) stands in for memory exhaustion; a watchdog firing fewer than 3 times in a row is inconclusive.",
    "DESIGN.md §4 C14")

chk("C07", "exploration", "runtime monitoring: in-process structural monitor over every tree / error the real parser returns for mutational, grammar-based and random inputs (plus native fuzzing and a -race/checkptr re-run in the thorough tier)",
    "The real parser is driven in-process (parser.New/Advance/ParseFile under recover and a watchdog) with deterministic mutational and random inputs; a reflective monitor checks every range, nesting, ordering, lexical class, gap content and re-concatenation of every returned tree, and position/renderability of every returned error.",
    "Samples an infinite input space (evidence lists mutator kinds, error classes, directive kinds reached). A watchdog firing fewer than 3 times is inconclusive.",
    "DESIGN.md §4 C07")
chk("C08", "exploration", "runtime monitoring: format round-trip oracle (parse(format(T)) vs parse(T) vs the generator's abstract model, gap preservation, idempotence) in-process and through the CLI",
    "Texts rendered from abstract journals in random layouts (and parseable mutants of them) are formatted by the real formatter; the result must parse to the same semantic tuples as the source and as the abstract model, keep all inter-directive text byte for byte, and be a fixpoint; the CLI path must leave unparseable files untouched and write exactly the library result otherwise.",
    "Trusts the layout generator's abstract model and the tuple extraction; annotations on non-transactions are outside the judged zone.",
    "DESIGN.md §4 C08")
chk("C10", "exploration", "runtime monitoring: conservation / dating oracle over the real accrual expansion (library path and knut print)",
    "Accrued transactions over a grid of amounts, intervals, window sizes and account-type pairs are expanded by the real code (model.ParseDirective / transaction.Create, and knut print); each generated transaction must balance, every non-accrual account must receive exactly what the original booked, the accrual account must net to zero, income/expense legs must land one per reference-calendar period end.",
    "Own calendar (harness/cal) is the reference for periods; the size of the individual parts is not judged; windows with end < start are C14's.",
    "DESIGN.md §4 C10")
chk("C11", "exploration", "runtime monitoring: exhaustive enumeration of a bounded date square against an independent calendar, plus CLI column headers",
    "date.NewPartition / StartDates / EndDates / Align / Contains are called for every ordered pair of dates in 2019-12-01..2021-03-31 x 6 intervals x 6 --last values (thorough: complete, 8.5M partitions; quick: boundary band + sub-sample) and compared with the harness's own calendar; balance column headers are compared for sampled windows.",
    "Exhaustive only inside the stated square; `once` with start > end is judged only through Contains/Align-late.",
    "DESIGN.md §4 C11")
chk("C12", "exploration", "runtime monitoring: price histories driven through the real price graph code and the CLI, compared with an all-simple-paths big-integer reference",
    "Declaration histories (trees, chains, cycles, direct+indirect pairs, redeclarations, two components) are inserted and normalised by the real code after each day, 16 times per day, and through `balance -v` 8 times; each price must be 1 for V, the latest direct declaration (or its reciprocal within 1e-8), or the per-step-truncated product along some simple path; unreachable commodities and zero prices must fail.",
    "For derived prices every fold direction / reciprocal-truncation reading is accepted (the statement does not fix it).",
    "DESIGN.md §4 C12")
chk("C13", "exploration", "runtime monitoring: generated bank statements through the real importers, output judged by knut's own parser/check/print and by an independent reader against the statement's row model",
    "For each of the 11 importers, well-formed statements with hostile free text are generated together with their row model; the importer's stdout must parse, be accepted once accounts are opened, re-print unchanged, and correspond row by row (date, currency, signed effect on the import account) to the statement, with no other directives than the assertions and prices the statement carries.",
    "Statement generators follow the shape of the repository's golden inputs; descriptions and @performance targets are not judged.",
    "DESIGN.md §4 C13 and Appendix A")
chk("C15", "exploration", "runtime monitoring: token-level comparison of real `knut infer` output with `knut format` output, candidate-set oracle from the training model, repeated runs",
    "For generated (training, target) pairs the infer output (stdout and --inplace) is compared line by line with the formatted target: only placeholder accounts may differ, each replacement must be a training account different from the booking's other account, no candidate means unchanged, the output must parse and be a format fixpoint, and 9 runs must be byte-identical.",
    "Which candidate is chosen is not judged; descriptions with newlines are not generated.",
    "DESIGN.md §4 C15")
chk("C17", "exploration", "runtime monitoring: geometry and cell-by-cell comparison of the real text rendering with the CSV rendering through an independent big.Rat formatter",
    "Text and CSV renderings of the same report (boundary-rich balances, multi-byte names, --digits -2..10, -k) are compared: equal line widths, aligned separators, 1:1 rows and cells, each numeric text cell equal to round-half-away-from-zero of the CSV amount (divided by 1000 with -k), zero blank, sign and thousands grouping; CSV cells are cross-checked against the reference ledger.",
    "Spelling of a non-zero amount that rounds to zero is not judged; row order is fixed with -a.",
    "DESIGN.md §4 C17")

chk("C19", "exploration", "runtime monitoring: Go race detector on the race-instrumented binary and harness, schedule-perturbation hook, stage/day event-log trace specification, planted stage failures, porcupine linearizability check of registry histories",
    "Four monitors: the -race build of knut over multi-file journals and every processor combination under perturbed schedules (any DATA RACE block is a violation); planted stage failures must produce a non-zero exit naming a planted fault, never a hang or success; the stage/day event log of the pipeline must satisfy the ownership hand-over specification and the printed census must equal the union of the files; in-process cpr.Seq runs and concurrent registry histories run under -race, the latter checked with porcupine against the sequential interning model.",
    "The race detector only sees overlapping accesses in the schedules produced; perturbation widens, it does not enumerate. Porcupine timeouts are inconclusive.",
    "DESIGN.md §4 C19")

chk("C16", "exploration", "runtime monitoring: real transcode output read by an independent line-based beancount reader; balance, ordering, account state machine and transaction multiset against the abstract model and the exact-rational valuation reference",
    "The beancount text of generated priced journals (every commodity tried as V) is read by the harness's own reader: every transaction must sum to exactly zero in the declared operating currency, entries must be chronological, every account used must be open (by date) and not used after its close (by output order), and the multiset of transactions must equal the model's user bookings plus the expected daily value adjustments, amounts within an explicit truncation budget.",
    "Tree-shaped price graphs only; adjustments whose expected amount is within budget of zero may be present or absent; accrued journals take user transactions from knut print.",
    "DESIGN.md §4 C16")

chk("C20", "exploration", "runtime monitoring: real portfolio weights / returns output against the real valued balance report and an exact-rational value reference",
    "For generated portfolio journals, `portfolio weights` is compared per date and commodity with the share of the A/L totals that `balance -v V --csv -s .` reports, group rows with the sum of their members, the top level with 1, the row tree with the universe file and -m mapping; `portfolio returns` must print one line per reference-calendar period, 0.0% for constant-price periods with external flows only and V_end/V_start-1 (to 0.1%) for periods without flows.",
    "Returns are judged only in the two families the statement pins down; bookings annotated @performance(targets) - also when @accrue spreads them, by an expansion of the harness's own - count as performance, not as external flows (the unchanged tree satisfies this on every judged period); periods holding an annotation with an empty target list are not judged; dates with a zero portfolio total are skipped for weights; float tolerance 2e-6 on weights.",
    "DESIGN.md §4 C20")

chk("C18", "fault_enumeration", "runtime monitoring under fault injection: RLIMIT_FSIZE at every byte offset, read-only directory / unreadable file under a dropped uid, SIGKILL injected by strace at each syscall of the rewrite, plus a syscall-trace conformance monitor",
    "For journals whose formatted (or inferred) form differs from the file, `knut format` and `knut infer --inplace` are run with the output write cut after every k bytes (thorough: every k for 25 texts, boundaries and samples for larger ones), in unwritable directories, and killed on entry to the i-th call of each syscall of the rewrite; afterwards every target must hold exactly its old or its complete new contents, rejected inputs must be bit- and mode-identical, and other files of the same invocation must be unaffected.",
    "A file-size limit stands in for a full disk and SIGKILL for a crash (no block-device fault injection, no power loss). Leftover temp files and the mode/inode of a rewritten file are recorded, not judged.",
    "DESIGN.md §4 C18")
