NOTES = "All checks are runtime monitors over real executions of sboehler/knut built from /repo's working tree; see DESIGN.md. Verdicts are three-valued (VIOLATION / held / INCONCLUSIVE); known-findings.txt lists genuine defects that are recorded rather than repaired."
NOT_APPLICABLE = {}

chk("C01", "exploration", "runtime monitoring: oracle over CSV balance reports + tail-monitor hook trace",
    "Every Delta cell of `knut balance --csv` of generated accepted journals is checked to be exactly zero over a drawn matrix of window/interval/last/diff/close/valuation/sort/mapping/remap flags, and every transaction seen by the tail monitor hook nets to zero; held on the executions listed in the evidence, nothing more.",
    "Trusts the journal generator to emit accepted journals (rejected runs are counted as not_judged), encoding/csv, and that the verif-tag hooks do not alter behaviour.",
    "DESIGN.md §4 C01")
