// Package core holds what every check shares: the run context, the case pool,
// per-case PRNGs, verdict bookkeeping (violated / held / inconclusive),
// known-findings matching, replay directories and the evidence file.
package core

import (
	"crypto/sha256"
	"encoding/binary"
	"encoding/hex"
	"encoding/json"
	"fmt"
	"math/rand"
	"os"
	"path/filepath"
	"regexp"
	"runtime"
	"sort"
	"strings"
	"sync"
	"sync/atomic"
	"time"
)

// VerifRoot is where evidence/, replays/ and known-findings.txt live
// (overridable with KV_ROOT so that a scratch copy of the harness is
// self-contained).
var VerifRoot = func() string {
	if r := os.Getenv("KV_ROOT"); r != "" {
		return r
	}
	return "/verif"
}()

// Check is one property's machinery. Cases are a pure function of
// (seed, tier, index); RunCase must be safe to call concurrently.
type Check interface {
	// Level is the evidence level ("exploration", "fault_enumeration").
	Level() string
	// Rule describes generation and the non-triviality rule.
	Rule() string
	// Setup runs once before the cases; it returns the number of cases.
	Setup(c *Ctx) (int, error)
	// RunCase runs case i.
	RunCase(c *Ctx, i int)
	// Finish runs once after all cases (extra evidence, cross-case oracles).
	Finish(c *Ctx)
}

type Ctx struct {
	ID       string
	Tier     string // quick | thorough
	Seed     int64
	Knut     string // plain binary built from /repo with -tags verif
	KnutRace string // race binary (may be empty)
	Work     string // scratch directory for this run
	Replay   bool   // replaying a single case
	Workers  int

	start time.Time

	mu             sync.Mutex
	evals          int64
	nontrivial     map[string]struct{}
	samples        []any
	violations     int
	known          map[string]int
	knownPrinted   map[string]bool
	inconclusive   int
	inconclReasons map[string]int
	notJudged      int64
	counters       map[string]int64
	sets           map[string]map[string]struct{}
	extra          map[string]any
	assumptions    []string
	kf             []kfEntry
	maxSamples     int
	violKeys       map[string]int
}

func NewCtx(id, tier string, seed int64) *Ctx {
	c := &Ctx{
		ID: id, Tier: tier, Seed: seed,
		Workers:      16,
		start:        time.Now(),
		nontrivial:   map[string]struct{}{},
		known:        map[string]int{},
		knownPrinted: map[string]bool{},
		counters:     map[string]int64{},
		sets:         map[string]map[string]struct{}{},
		extra:        map[string]any{},
		maxSamples:   3,
		violKeys:     map[string]int{},
	}
	c.kf = loadKnownFindings(filepath.Join(VerifRoot, "known-findings.txt"))
	return c
}

func (c *Ctx) Quick() bool { return c.Tier != "thorough" }

// N picks a case count by tier.
func (c *Ctx) N(quick, thorough int) int {
	if c.Quick() {
		return quick
	}
	return thorough
}

// Rng returns the deterministic PRNG of case i (stream distinguishes several
// independent generators inside one case).
func (c *Ctx) Rng(i int, stream string) *rand.Rand {
	h := sha256.New()
	fmt.Fprintf(h, "%s|%d|%d|%s", c.ID, c.Seed, i, stream)
	s := h.Sum(nil)
	return rand.New(rand.NewSource(int64(binary.LittleEndian.Uint64(s[:8]))))
}

// CaseDir returns a fresh scratch directory for case i.
func (c *Ctx) CaseDir(i int) string {
	d := filepath.Join(c.Work, fmt.Sprintf("case%07d", i))
	os.RemoveAll(d)
	if err := os.MkdirAll(d, 0o755); err != nil {
		panic(err)
	}
	return d
}

func (c *Ctx) Eval(n int) { atomic.AddInt64(&c.evals, int64(n)) }

func (c *Ctx) NotJudged(n int) { atomic.AddInt64(&c.notJudged, int64(n)) }

// Nontrivial records a distinct non-trivial case by signature.
func (c *Ctx) Nontrivial(sig string) {
	h := sha256.Sum256([]byte(sig))
	k := hex.EncodeToString(h[:10])
	c.mu.Lock()
	c.nontrivial[k] = struct{}{}
	c.mu.Unlock()
}

// WatchdogBudget is the number of watchdog firings after which a run stops
// starting new cases and long inner loops give up: a tree on which everything
// hangs must cost minutes, not hours. The cases that are skipped are counted as
// not judged; the verdict comes from what was observed before.
const WatchdogBudget = 12

// Timeout records one watchdog firing.
func (c *Ctx) Timeout() { c.Count("watchdog_timeouts", 1) }

// OverBudget reports whether the watchdog budget is used up.
func (c *Ctx) OverBudget() bool { return c.Counter("watchdog_timeouts") >= WatchdogBudget }

// Counter reads a counter.
func (c *Ctx) Counter(name string) int64 {
	c.mu.Lock()
	defer c.mu.Unlock()
	return c.counters[name]
}

func (c *Ctx) Count(name string, n int) {
	c.mu.Lock()
	c.counters[name] += int64(n)
	c.mu.Unlock()
}

// Observe adds a value to a named set; the evidence reports the set's size.
func (c *Ctx) Observe(set, val string) {
	c.mu.Lock()
	m := c.sets[set]
	if m == nil {
		m = map[string]struct{}{}
		c.sets[set] = m
	}
	if len(m) < 100000 {
		m[val] = struct{}{}
	}
	c.mu.Unlock()
}

func (c *Ctx) SetSize(set string) int {
	c.mu.Lock()
	defer c.mu.Unlock()
	return len(c.sets[set])
}

func (c *Ctx) SetValues(set string) []string {
	c.mu.Lock()
	defer c.mu.Unlock()
	var res []string
	for k := range c.sets[set] {
		res = append(res, k)
	}
	sort.Strings(res)
	return res
}

func (c *Ctx) Extra(k string, v any) {
	c.mu.Lock()
	c.extra[k] = v
	c.mu.Unlock()
}

func (c *Ctx) Assume(s string) {
	c.mu.Lock()
	for _, a := range c.assumptions {
		if a == s {
			c.mu.Unlock()
			return
		}
	}
	c.assumptions = append(c.assumptions, s)
	c.mu.Unlock()
}

// Sample keeps a few complete cases for the evidence file.
func (c *Ctx) Sample(s any) {
	c.mu.Lock()
	if len(c.samples) < c.maxSamples {
		c.samples = append(c.samples, s)
	}
	c.mu.Unlock()
}

func (c *Ctx) WantSample() bool {
	c.mu.Lock()
	defer c.mu.Unlock()
	return len(c.samples) < c.maxSamples
}

// Inconclusive records a case that could not be decided (watchdog, checker
// timeout). It is neither a violation nor an evaluation that held.
func (c *Ctx) Inconclusive(i int, why string) {
	c.mu.Lock()
	c.inconclusive++
	n := c.inconclusive
	if c.inconclReasons == nil {
		c.inconclReasons = map[string]int{}
	}
	c.inconclReasons[reasonBucket(why)]++
	c.mu.Unlock()
	if n <= 20 {
		fmt.Printf("INCONCLUSIVE property=%s case=%d %s\n", c.ID, i, oneLine(why))
	}
}

var digitsRe = regexp.MustCompile(`[0-9]+`)

// reasonBucket normalises an inconclusive reason for counting.
func reasonBucket(why string) string {
	s := digitsRe.ReplaceAllString(oneLine(why), "#")
	if len(s) > 100 {
		s = s[:100]
	}
	return s
}

func oneLine(s string) string {
	s = strings.ReplaceAll(s, "\n", " / ")
	if len(s) > 300 {
		s = s[:300] + "..."
	}
	return s
}

// Witness is what a violation leaves behind.
type Witness struct {
	Case  int
	Key   string            // classifier key computed from the witness itself
	Why   string            // the oracle's sentence
	Files map[string][]byte // input files, byte-exact
	Cmd   string            // runnable command line(s)
	Extra map[string]string // expected / observed blobs
}

// Violation reports a violation unless its key is a listed known finding.
func (c *Ctx) Violation(w Witness) {
	c.mu.Lock()
	for _, e := range c.kf {
		if e.kind == "known" && e.prop == c.ID && e.key == w.Key && w.Key != "" {
			c.known[w.Key]++
			first := !c.knownPrinted[w.Key]
			c.knownPrinted[w.Key] = true
			c.mu.Unlock()
			if first {
				fmt.Printf("KNOWN-FINDING: property=%s key=%s %s\n", c.ID, w.Key, e.desc)
			}
			return
		}
	}
	c.violations++
	c.violKeys[w.Key]++
	nth := c.violKeys[w.Key]
	total := c.violations
	c.mu.Unlock()
	if nth > 3 || total > 40 {
		return // enough witnesses of this kind; still counted
	}
	dir := filepath.Join(VerifRoot, "replays", c.ID, fmt.Sprintf("seed%d-%s-case%07d-%s", c.Seed, c.Tier, w.Case, sanitize(w.Key)))
	os.RemoveAll(dir)
	os.MkdirAll(filepath.Join(dir, "files"), 0o755)
	for name, data := range w.Files {
		p := filepath.Join(dir, "files", name)
		os.MkdirAll(filepath.Dir(p), 0o755)
		os.WriteFile(p, data, 0o644)
	}
	for name, data := range w.Extra {
		os.WriteFile(filepath.Join(dir, sanitize(name)), []byte(data), 0o644)
	}
	cj, _ := json.MarshalIndent(map[string]any{
		"property": c.ID, "seed": c.Seed, "tier": c.Tier, "case": w.Case, "key": w.Key,
	}, "", " ")
	os.WriteFile(filepath.Join(dir, "case.json"), cj, 0o644)
	os.WriteFile(filepath.Join(dir, "why.txt"), []byte(w.Why+"\n"), 0o644)
	if w.Cmd != "" {
		os.WriteFile(filepath.Join(dir, "cmd.sh"), []byte("#!/bin/sh\n# run inside files/\n"+w.Cmd+"\n"), 0o755)
	}
	fmt.Printf("VIOLATION property=%s replay=%s key=%s %s\n", c.ID, dir, w.Key, oneLine(w.Why))
}

func sanitize(s string) string {
	var b strings.Builder
	for _, r := range s {
		switch {
		case r >= 'a' && r <= 'z', r >= 'A' && r <= 'Z', r >= '0' && r <= '9', r == '-', r == '_', r == '.':
			b.WriteRune(r)
		default:
			b.WriteRune('_')
		}
	}
	if b.Len() > 60 {
		return b.String()[:60]
	}
	return b.String()
}

func (c *Ctx) Violations() int {
	c.mu.Lock()
	defer c.mu.Unlock()
	return c.violations
}

// ---------------------------------------------------------------- known findings

type kfEntry struct {
	kind, prop, key, desc string
}

func loadKnownFindings(path string) []kfEntry {
	b, err := os.ReadFile(path)
	if err != nil {
		return nil
	}
	var res []kfEntry
	for _, line := range strings.Split(string(b), "\n") {
		line = strings.TrimSpace(line)
		if line == "" || strings.HasPrefix(line, "#") {
			continue
		}
		var e kfEntry
		switch {
		case strings.HasPrefix(line, "known:"):
			e.kind = "known"
			line = strings.TrimSpace(strings.TrimPrefix(line, "known:"))
		case strings.HasPrefix(line, "fixed:"):
			e.kind = "fixed"
			line = strings.TrimSpace(strings.TrimPrefix(line, "fixed:"))
		default:
			continue
		}
		fields := strings.Fields(line)
		var rest []string
		for _, f := range fields {
			switch {
			case strings.HasPrefix(f, "property=") && e.prop == "":
				e.prop = strings.TrimPrefix(f, "property=")
			case strings.HasPrefix(f, "key=") && e.key == "":
				e.key = strings.TrimPrefix(f, "key=")
			default:
				rest = append(rest, f)
			}
		}
		e.desc = strings.Join(rest, " ")
		res = append(res, e)
	}
	return res
}

// ---------------------------------------------------------------- pool

// Run executes the check and writes the evidence file. It returns the process
// exit code: 0 held, 1 violation, 2 the run itself is broken / observed nothing.
func Run(c *Ctx, chk Check, only int) int {
	n, err := chk.Setup(c)
	if err != nil {
		fmt.Printf("ERROR property=%s setup: %v\n", c.ID, err)
		return 2
	}
	if only >= 0 {
		c.Replay = true
		chk.RunCase(c, only)
	} else {
		var next int64 = -1
		var wg sync.WaitGroup
		// checks that call the real packages in-process cannot interrupt a call that allocates
		// without end: a watchdog turns a heap beyond 10 GB into a violation that names the cases
		// in flight, instead of leaving the verdict to the kernel's OOM killer
		var inFlight sync.Map
		stopWatch := make(chan struct{})
		defer close(stopWatch)
		go func() {
			var ms runtime.MemStats
			for {
				select {
				case <-stopWatch:
					return
				case <-time.After(250 * time.Millisecond):
				}
				runtime.ReadMemStats(&ms)
				if ms.HeapAlloc < 10<<30 {
					continue
				}
				var cases []string
				inFlight.Range(func(k, _ any) bool { cases = append(cases, fmt.Sprint(k)); return true })
				sort.Strings(cases)
				dir := filepath.Join(VerifRoot, "replays", c.ID, fmt.Sprintf("seed%d-%s-memory-exhaustion", c.Seed, c.Tier))
				os.MkdirAll(dir, 0o755)
				os.WriteFile(filepath.Join(dir, "why.txt"), []byte(fmt.Sprintf("the harness process grew beyond 10 GB of heap (%d MB) while the cases %s were calling the code under test in-process; the same tier and seed reproduce it (./run %s %s with VERIF_SEED=%d)\n", ms.HeapAlloc>>20, strings.Join(cases, ", "), c.ID, c.Tier, c.Seed)), 0o644)
				fmt.Printf("VIOLATION property=%s replay=%s key=in-process-memory-exhaustion heap of %d MB while cases %s were in flight\n", c.ID, dir, ms.HeapAlloc>>20, strings.Join(cases, ", "))
				os.Exit(1)
			}
		}()
		workers := c.Workers
		if workers > n {
			workers = n
		}
		for w := 0; w < workers; w++ {
			wg.Add(1)
			go func() {
				defer wg.Done()
				for {
					i := int(atomic.AddInt64(&next, 1))
					if i >= n {
						return
					}
					if c.OverBudget() {
						c.NotJudged(1)
						c.Count("cases_skipped_watchdog_budget_used_up", 1)
						continue
					}
					func() {
						defer func() {
							if r := recover(); r != nil {
								// a panic of the harness itself is a broken run, not a verdict
								c.Inconclusive(i, fmt.Sprintf("harness panic: %v", r))
								c.Count("harness_panics", 1)
							}
						}()
						inFlight.Store(i, true)
						defer inFlight.Delete(i)
						chk.RunCase(c, i)
					}()
				}
			}()
		}
		wg.Wait()
	}
	chk.Finish(c)
	wall := time.Since(c.start).Seconds()
	known := 0
	for _, v := range c.known {
		known += v
	}
	fmt.Printf("SUMMARY property=%s tier=%s seed=%d cases=%d evaluations=%d nontrivial=%d violations=%d known=%d inconclusive=%d not_judged=%d wall=%.1fs\n",
		c.ID, c.Tier, c.Seed, n, c.evals, len(c.nontrivial), c.violations, known, c.inconclusive, c.notJudged, wall)
	if c.Replay {
		if c.violations > 0 {
			return 1
		}
		return 0
	}
	if err := c.writeEvidence(chk, n, wall); err != nil {
		fmt.Printf("ERROR property=%s evidence: %v\n", c.ID, err)
		return 2
	}
	if c.violations > 0 {
		return 1
	}
	if c.counters["harness_panics"] > 0 {
		fmt.Printf("ERROR property=%s the harness panicked in %d cases\n", c.ID, c.counters["harness_panics"])
		return 2
	}
	if c.evals == 0 || len(c.nontrivial) < 2 {
		fmt.Printf("ERROR property=%s observed nothing (evaluations=%d nontrivial=%d): not a verdict\n", c.ID, c.evals, len(c.nontrivial))
		return 2
	}
	return 0
}

func (c *Ctx) writeEvidence(chk Check, cases int, wall float64) error {
	cov := map[string]any{}
	for k, v := range c.extra {
		cov[k] = v
	}
	for k, v := range c.counters {
		cov[k] = v
	}
	for k, v := range c.sets {
		cov["distinct_"+k] = len(v)
		if len(v) <= 24 {
			var vals []string
			for x := range v {
				vals = append(vals, x)
			}
			sort.Strings(vals)
			cov["values_"+k] = vals
		}
	}
	cov["cases"] = cases
	cov["evaluations"] = c.evals
	cov["distinct_nontrivial"] = len(c.nontrivial)
	cov["rule"] = chk.Rule()
	samples := c.samples
	if samples == nil {
		samples = []any{}
	}
	cov["samples"] = samples
	cov["inconclusive"] = c.inconclusive
	if len(c.inconclReasons) > 0 {
		cov["inconclusive_reasons"] = c.inconclReasons
	}
	cov["not_judged"] = c.notJudged
	kn := map[string]int{}
	for k, v := range c.known {
		kn[k] = v
	}
	cov["known_findings"] = kn
	ev := map[string]any{
		"property_id": c.ID,
		"tier":        c.Tier,
		"seed":        c.Seed,
		"level":       chk.Level(),
		"coverage":    cov,
		"assumptions": append([]string{}, c.assumptions...),
		"wall_s":      wall,
		"violations":  c.violations,
	}
	b, err := json.MarshalIndent(ev, "", " ")
	if err != nil {
		return err
	}
	dir := filepath.Join(VerifRoot, "evidence")
	os.MkdirAll(dir, 0o755)
	tmp := filepath.Join(dir, "."+c.ID+".json.tmp")
	if err := os.WriteFile(tmp, append(b, '\n'), 0o644); err != nil {
		return err
	}
	return os.Rename(tmp, filepath.Join(dir, c.ID+".json"))
}

// Trunc shortens a blob for samples.
func Trunc(s string, n int) string {
	if len(s) <= n {
		return s
	}
	return s[:n] + fmt.Sprintf("...[%d more bytes]", len(s)-n)
}
