package core

import (
	"bytes"
	"fmt"
	"os"
	"os/exec"
	"regexp"
	"strings"
	"syscall"
	"time"
)

// Cmd describes one subprocess execution of the real binary.
type Cmd struct {
	Argv    []string // argv[0] is the binary
	Env     []string // extra KEY=VALUE entries (on top of a minimal fixed environment)
	Dir     string
	Stdin   []byte
	Timeout time.Duration // watchdog; 0 = 60s
	ASLimit int64         // RLIMIT_AS in bytes (0 = none)
	Fsize   int64         // RLIMIT_FSIZE in bytes (<0 = none)
	UID     int           // drop to this uid/gid (0 = stay)
	Wrap    []string      // wrapper argv prefix (e.g. strace ...)
}

type Result struct {
	Stdout, Stderr []byte
	Exit           int // -1 when signalled
	Signal         syscall.Signal
	TimedOut       bool
	MaxRSSKB       int64
	Wall           time.Duration
	Class          string // ok | error | usage | panic | signal | timeout
	Err            error  // failure to start
}

var panicRe = regexp.MustCompile(`(?m)^(panic:|fatal error:|goroutine \d+ \[|runtime: |SIGSEGV|unexpected signal)`)

// BaseEnv is the fixed environment given to every run.
func BaseEnv() []string {
	env := baseEnv()
	// coverage runs (tools/coverage.sh) build knut with -cover; pass the output directory on
	if d := os.Getenv("GOCOVERDIR"); d != "" {
		env = append(env, "GOCOVERDIR="+d)
	}
	return env
}

func baseEnv() []string {
	return []string{
		"PATH=/usr/local/sbin:/usr/local/bin:/usr/sbin:/usr/bin:/sbin:/bin",
		"HOME=/nonexistent",
		"LANG=C.UTF-8",
		"TZ=UTC",
		"NO_COLOR=1",
	}
}

func Exec(c Cmd) Result {
	argv := c.Argv
	if c.ASLimit > 0 || c.Fsize >= 0 {
		pre := []string{"prlimit"}
		if c.ASLimit > 0 {
			pre = append(pre, fmt.Sprintf("--as=%d", c.ASLimit))
		}
		if c.Fsize >= 0 {
			pre = append(pre, fmt.Sprintf("--fsize=%d", c.Fsize))
		}
		pre = append(pre, "--")
		argv = append(pre, argv...)
	}
	if len(c.Wrap) > 0 {
		argv = append(append([]string{}, c.Wrap...), argv...)
	}
	cmd := exec.Command(argv[0], argv[1:]...)
	cmd.Dir = c.Dir
	cmd.Env = append(BaseEnv(), c.Env...)
	var so, se bytes.Buffer
	cmd.Stdout = &so
	cmd.Stderr = &se
	if c.Stdin != nil {
		cmd.Stdin = bytes.NewReader(c.Stdin)
	}
	cmd.SysProcAttr = &syscall.SysProcAttr{Setpgid: true}
	if c.UID != 0 {
		cmd.SysProcAttr.Credential = &syscall.Credential{Uid: uint32(c.UID), Gid: uint32(c.UID), NoSetGroups: false}
	}
	timeout := c.Timeout
	if timeout == 0 {
		timeout = 60 * time.Second
	}
	start := time.Now()
	var res Result
	if err := cmd.Start(); err != nil {
		res.Err = err
		res.Class = "starterror"
		res.Exit = -2
		return res
	}
	done := make(chan error, 1)
	go func() { done <- cmd.Wait() }()
	var err error
	select {
	case err = <-done:
	case <-time.After(timeout):
		res.TimedOut = true
		// SIGQUIT first so that a hang leaves a goroutine dump on stderr
		syscall.Kill(-cmd.Process.Pid, syscall.SIGQUIT)
		select {
		case err = <-done:
		case <-time.After(3 * time.Second):
			syscall.Kill(-cmd.Process.Pid, syscall.SIGKILL)
			err = <-done
		}
	}
	res.Wall = time.Since(start)
	res.Stdout = so.Bytes()
	res.Stderr = se.Bytes()
	if cmd.ProcessState != nil {
		if ru, ok := cmd.ProcessState.SysUsage().(*syscall.Rusage); ok {
			res.MaxRSSKB = ru.Maxrss
		}
		if ws, ok := cmd.ProcessState.Sys().(syscall.WaitStatus); ok {
			if ws.Signaled() {
				res.Exit = -1
				res.Signal = ws.Signal()
			} else {
				res.Exit = ws.ExitStatus()
			}
		}
	} else if err != nil {
		res.Err = err
		res.Exit = -2
	}
	res.Class = classify(&res)
	return res
}

func classify(r *Result) string {
	switch {
	case r.TimedOut:
		return "timeout"
	case r.Exit == -1:
		return "signal"
	case r.Exit == 2 && panicRe.Match(r.Stderr):
		return "panic"
	case panicRe.Match(r.Stderr) && bytes.Contains(r.Stderr, []byte("goroutine ")):
		return "panic"
	case r.Exit == 0:
		return "ok"
	case r.Exit == 1:
		return "error"
	default:
		return fmt.Sprintf("exit%d", r.Exit)
	}
}

// Shell renders a command for cmd.sh files.
func (c Cmd) Shell() string {
	var b strings.Builder
	for _, e := range c.Env {
		b.WriteString(shq(e) + " ")
	}
	for i, a := range c.Argv {
		if i > 0 {
			b.WriteByte(' ')
		}
		b.WriteString(shq(a))
	}
	return b.String()
}

func shq(s string) string {
	if s != "" && !strings.ContainsAny(s, " \t\n'\"\\$`*?[]{}()<>|&;#~!") {
		return s
	}
	return "'" + strings.ReplaceAll(s, "'", `'\''`) + "'"
}

// WriteFiles writes a file map below dir.
func WriteFiles(dir string, files map[string][]byte) error {
	for name, data := range files {
		p := dir + "/" + name
		if i := strings.LastIndex(p, "/"); i >= 0 {
			if err := os.MkdirAll(p[:i], 0o755); err != nil {
				return err
			}
		}
		if err := os.WriteFile(p, data, 0o644); err != nil {
			return err
		}
	}
	return nil
}
