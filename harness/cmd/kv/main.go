// kv is the dispatcher of the verification harness:
//
//	kv <ID> <quick|thorough>
//	kv <ID> --replay <dir>
package main

import (
	"encoding/json"
	"fmt"
	"os"
	"path/filepath"
	"strconv"

	"kverif/checks"
	"kverif/core"
)

func main() {
	if len(os.Args) < 3 {
		fmt.Fprintln(os.Stderr, "usage: kv <ID> <quick|thorough> | kv <ID> --replay <dir>")
		os.Exit(2)
	}
	id := os.Args[1]
	mk, ok := checks.Registry[id]
	if !ok {
		fmt.Fprintf(os.Stderr, "unknown property %s\n", id)
		os.Exit(2)
	}
	tier := os.Args[2]
	seed := int64(1)
	if s := os.Getenv("VERIF_SEED"); s != "" {
		if v, err := strconv.ParseInt(s, 10, 64); err == nil {
			seed = v
		}
	}
	only := -1
	if tier == "--replay" {
		if len(os.Args) < 4 {
			fmt.Fprintln(os.Stderr, "--replay needs a directory")
			os.Exit(2)
		}
		b, err := os.ReadFile(filepath.Join(os.Args[3], "case.json"))
		if err != nil {
			fmt.Fprintln(os.Stderr, err)
			os.Exit(2)
		}
		var cj struct {
			Seed int64  `json:"seed"`
			Tier string `json:"tier"`
			Case int    `json:"case"`
		}
		if err := json.Unmarshal(b, &cj); err != nil {
			fmt.Fprintln(os.Stderr, err)
			os.Exit(2)
		}
		seed, tier, only = cj.Seed, cj.Tier, cj.Case
	} else if t := os.Getenv("VERIF_TIER"); t == "quick" || t == "thorough" {
		// the command line wins; VERIF_TIER only applies when the argument is neither
		if tier != "quick" && tier != "thorough" {
			tier = t
		}
	}
	if tier != "quick" && tier != "thorough" {
		fmt.Fprintf(os.Stderr, "unknown tier %q\n", tier)
		os.Exit(2)
	}
	c := core.NewCtx(id, tier, seed)
	build := os.Getenv("KV_BUILD")
	if build == "" {
		build = filepath.Join(core.VerifRoot, ".build")
	}
	c.Knut = filepath.Join(build, "knut")
	c.KnutRace = filepath.Join(build, "knut-race")
	c.Work = filepath.Join(build, "work", fmt.Sprintf("%s-%d", id, os.Getpid()))
	os.RemoveAll(c.Work)
	if err := os.MkdirAll(c.Work, 0o755); err != nil {
		fmt.Fprintln(os.Stderr, err)
		os.Exit(2)
	}
	code := core.Run(c, mk(), only)
	os.RemoveAll(c.Work)
	os.Exit(code)
}
