package checks

import (
	"fmt"
	"math/big"
	"math/rand"
	"os"
	"sort"
	"strings"

	"kverif/core"
	"kverif/gen"
	"kverif/ref"
	"kverif/tab"
)

// C02 — balance report equals an independent ledger computation.
type c02 struct{ combos int }

func init() { register("C02", func() core.Check { return &c02{} }) }

func (*c02) Level() string { return "exploration" }
func (*c02) Rule() string {
	return "case = generated accepted journal (no accruals) x flag combinations over --from/--to/--last/interval, --diff, --close, --account/--commodity, -m level[:suffix],regex (several rules, level 0, suffix 1-3), --remap; oracle = every (row path, commodity, column) cell of the unvalued report (tree from the text rendering, exact numbers from --csv) equals the big.Rat reference ledger, the row set equals the reference row set, and Delta equals minus the hidden amounts; non-trivial = report with >=1 collapsed/remapped/hidden row or closing over >=2 periods or a filter that removes something, and >=3 numeric rows; distinct = hash of journal text + flags"
}

func (k *c02) Setup(c *core.Ctx) (int, error) {
	k.combos = c.N(12, 40)
	return c.N(600, 5000), nil
}

func (*c02) Finish(c *core.Ctx) {
	c.Assume("reference semantics of --close, -m and --remap are taken from the README and the property statement; under --close, equity accounts other than Equity:Equity are compared as a section total only (the statement names only 'the equity account')")
}

func randC02Flags(r *rand.Rand, info *gen.Info) ref.BalFlags {
	f := randPeriodFlags(r, info.Dates)
	segRx := func() string {
		acc := info.Accounts[r.Intn(len(info.Accounts))]
		segs := strings.Split(acc, ":")
		switch r.Intn(5) {
		case 0:
			return segs[0]
		case 1:
			if len(segs) < 2 {
				return "^" + segs[0] + "$"
			}
			return "^" + segs[0] + ":" + segs[1]
		case 2:
			return segs[len(segs)-1] + "$"
		case 3:
			return segs[r.Intn(len(segs))]
		default:
			return acc
		}
	}
	if r.Intn(3) == 0 {
		for n := 0; n < 1+r.Intn(2); n++ {
			f.Accounts = append(f.Accounts, segRx())
		}
	}
	if r.Intn(4) == 0 {
		f.Commodities = append(f.Commodities, info.Commodities[r.Intn(len(info.Commodities))])
	}
	if r.Intn(2) == 0 {
		for n := 0; n < 1+r.Intn(3); n++ {
			m := ref.MapRule{Level: r.Intn(4)}
			if r.Intn(5) == 0 {
				m.Level = 0
			}
			if r.Intn(2) == 0 {
				m.Suffix = 1 + r.Intn(3)
			}
			if r.Intn(4) != 0 {
				m.Regex = segRx()
			}
			f.Maps = append(f.Maps, m)
		}
	}
	if r.Intn(4) == 0 {
		f.Remap = append(f.Remap, segRx())
	}
	return f
}

func (k *c02) RunCase(c *core.Ctx, i int) {
	r := c.Rng(i, "journal")
	o := gen.DefaultOpts(r)
	o.Lifecycle = r.Intn(2) == 0
	o.Assertions = r.Intn(3) == 0
	o.SelfBook = r.Intn(5) == 0
	o.EquityEquity = r.Intn(2) == 0
	o.Depth1 = r.Intn(4) == 0
	o.MaxDepth = 5
	o.Prices = r.Intn(3) == 0
	j, info := gen.Accepted(r, o)
	if r.Intn(2) == 0 {
		j.Shuffle(r)
	}
	text := j.Text()
	dir := c.CaseDir(i)
	defer os.RemoveAll(dir)
	writeFile(dir, "j.knut", text)
	fr := c.Rng(i, "flags")
	for n := 0; n < k.combos; n++ {
		f := randC02Flags(fr, info)
		base := append([]string{"balance", "--color=false"}, f.Argv()...)
		// Row order among equal weights is not part of this property (C06): with
		// -a the text and CSV renderings of two runs can be zipped row by row,
		// otherwise one text run at --digits 8 gives tree and exact numbers.
		alpha := fr.Intn(2) == 0
		if alpha {
			base = append(base, "-a")
		}
		argsT := append(append([]string{}, base...), "--digits", "8", "j.knut")
		argsC := append(append([]string{}, base...), "--csv", "j.knut")
		exp, err := ref.Report(j, f)
		c.Eval(1)
		if err != nil {
			c.NotJudged(1)
			c.Observe("not_judged_reason", err.Error())
			continue
		}
		rt := knut(c, dir, nil, argsT...)
		rc := rt
		if alpha {
			rc = knut(c, dir, nil, argsC...)
		}
		if rt.Class != "ok" || rc.Class != "ok" {
			c.Violation(core.Witness{Case: i, Key: "report-failed",
				Why:   "balance failed on an accepted journal: " + fmtErr(rt) + " / " + fmtErr(rc),
				Files: map[string][]byte{"j.knut": []byte(text)}, Cmd: knutCmd(c, nil, argsC...)})
			return
		}
		csvOut := ""
		if alpha {
			csvOut = string(rc.Stdout)
		}
		why, key, nontrivial := c02Compare(j, f, exp, string(rt.Stdout), csvOut)
		if why != "" {
			c.Violation(core.Witness{Case: i, Key: key, Why: why,
				Files: map[string][]byte{"j.knut": []byte(text)},
				Cmd:   knutCmd(c, nil, argsT...) + "\n" + knutCmd(c, nil, argsC...),
				Extra: map[string]string{"observed.txt": string(rt.Stdout), "observed.csv": string(rc.Stdout)}})
			return
		}
		if nontrivial {
			c.Nontrivial(text + "|" + flagsSig(f))
			if c.WantSample() {
				c.Sample(map[string]any{"journal": sampleJournal(text), "argv": strings.Join(argsT, " "), "stdout": core.Trunc(string(rt.Stdout), 1500)})
			}
		}
	}
}

func c02Compare(j *gen.Journal, f ref.BalFlags, exp *ref.Expected, text, csvOut string) (why, key string, nontrivial bool) {
	var b *tab.Balance
	var err error
	if csvOut == "" {
		b, err = tab.ParseBalanceText(text)
	} else {
		b, err = tab.ParseBalance(text, csvOut)
	}
	if err != nil {
		return "unreadable report: " + err.Error(), "unreadable", false
	}
	if !b.HasComm {
		return "unvalued report without commodity column", "shape", false
	}
	if len(b.Dates) != len(exp.Periods) {
		return fmt.Sprintf("report has %d date columns %v, reference has %d periods", len(b.Dates), b.Dates, len(exp.Periods)), "columns", false
	}
	for i, p := range exp.Periods {
		if b.Dates[i] != p.End.String() {
			return fmt.Sprintf("column %d is %s, reference period ends %s", i, b.Dates[i], p.End), "columns", false
		}
	}
	// equity aggregation under --close when other equity accounts exist
	aggEquity := false
	if f.Close {
		for a := range exp.Accounts {
			if strings.HasPrefix(a, "Equity") && a != "Equity:Equity" {
				aggEquity = true
			}
		}
		for _, d := range j.Dirs {
			if d.Kind == gen.KTxn {
				for _, bk := range d.Bookings {
					for _, a := range []string{bk.Credit, bk.Debit} {
						if strings.HasPrefix(a, "Equity") && a != "Equity:Equity" {
							aggEquity = true
						}
					}
				}
			}
		}
	}
	// observed
	type cell struct{ acc, com string }
	obs := map[cell][]*big.Rat{}
	obsAccounts := map[string]bool{}
	var delta = map[string][]*big.Rat{}
	totals := map[string]map[string][]*big.Rat{"TotalAL": {}, "TotalEIE": {}}
	numeric := 0
	for _, row := range b.Rows {
		vals := make([]*big.Rat, len(row.Cells))
		for ci, cs := range row.Cells {
			v, ok := ratOrZero(cs)
			if !ok {
				return fmt.Sprintf("cell %q is not a number", cs), "cell-format", false
			}
			vals[ci] = v
		}
		switch row.Section {
		case "AL", "EIE":
			acc := row.Account()
			obsAccounts[acc] = true
			isAL := ref.IsAL(acc)
			if (row.Section == "AL") != isAL {
				return fmt.Sprintf("account %s is shown in section %s", acc, row.Section), "section", false
			}
			if row.Comm != "" {
				if _, dup := obs[cell{acc, row.Comm}]; dup {
					return fmt.Sprintf("account %s commodity %s has two rows", acc, row.Comm), "duplicate-row", false
				}
				obs[cell{acc, row.Comm}] = vals
				numeric++
			} else if !ref.AllZero(vals) {
				return fmt.Sprintf("row %s has numbers but no commodity", acc), "shape", false
			}
		case "Delta":
			delta[row.Comm] = vals
		default:
			totals[row.Section][row.Comm] = vals
		}
	}
	// expected account rows (+ ancestors)
	expAccounts := map[string]bool{}
	for a := range exp.Accounts {
		segs := strings.Split(a, ":")
		for n := 1; n <= len(segs); n++ {
			expAccounts[strings.Join(segs[:n], ":")] = true
		}
	}
	for a := range expAccounts {
		if !obsAccounts[a] {
			return fmt.Sprintf("account %s has bookings in the window (or is a parent of one that has) but no row", a), "missing-row", false
		}
	}
	for a := range obsAccounts {
		if !expAccounts[a] {
			return fmt.Sprintf("row %s is shown but no booking passing the filters maps to it", a), "extra-row", false
		}
	}
	// cells
	eqAggExp := map[string][]*big.Rat{}
	eqAggObs := map[string][]*big.Rat{}
	addTo := func(m map[string][]*big.Rat, com string, v []*big.Rat) {
		if m[com] == nil {
			m[com] = make([]*big.Rat, len(v))
			for i := range v {
				m[com][i] = new(big.Rat)
			}
		}
		for i := range v {
			m[com][i].Add(m[com][i], v[i])
		}
	}
	var keys []ref.CellKey
	for kx := range exp.Buckets {
		keys = append(keys, kx)
	}
	sort.Slice(keys, func(a, b int) bool {
		if keys[a].Account != keys[b].Account {
			return keys[a].Account < keys[b].Account
		}
		return keys[a].Com < keys[b].Com
	})
	sumAL, sumEIE := map[string][]*big.Rat{}, map[string][]*big.Rat{}
	for _, kx := range keys {
		buckets := exp.Buckets[kx]
		isAL := ref.IsAL(kx.Account)
		want := ref.Cells(buckets, f.Diff, !isAL)
		if isAL {
			addTo(sumAL, kx.Com, want)
		} else {
			addTo(sumEIE, kx.Com, want)
		}
		if aggEquity && strings.HasPrefix(kx.Account, "Equity") {
			addTo(eqAggExp, kx.Com, want)
			continue
		}
		got, ok := obs[cell{kx.Account, kx.Com}]
		if ref.AllZero(buckets) {
			if ok && !ref.AllZero(got) {
				return fmt.Sprintf("account %s %s: all period sums are zero but the report shows %s", kx.Account, kx.Com, fmtRats(got)), "cell", false
			}
			continue
		}
		if !ok {
			return fmt.Sprintf("account %s has no %s row; reference cells %s", kx.Account, kx.Com, fmtRats(want)), "missing-commodity-row", false
		}
		for ci := range want {
			if want[ci].Cmp(got[ci]) != 0 {
				return fmt.Sprintf("account %s %s column %s: report shows %s, reference ledger gives %s (row %s vs %s)",
					kx.Account, kx.Com, b.Dates[ci], gen.DecString(got[ci]), gen.DecString(want[ci]), fmtRats(got), fmtRats(want)), "cell", false
			}
		}
	}
	for cl, got := range obs {
		if aggEquity && strings.HasPrefix(cl.acc, "Equity") {
			addTo(eqAggObs, cl.com, got)
			continue
		}
		if _, ok := exp.Buckets[ref.CellKey{Account: cl.acc, Com: cl.com}]; !ok {
			return fmt.Sprintf("account %s shows commodity %s %s, the reference ledger has no such booking", cl.acc, cl.com, fmtRats(got)), "extra-commodity-row", false
		}
	}
	if aggEquity {
		for com, want := range eqAggExp {
			got := eqAggObs[com]
			for ci := range want {
				g := new(big.Rat)
				if got != nil {
					g = got[ci]
				}
				if want[ci].Cmp(g) != 0 {
					return fmt.Sprintf("equity section total %s column %s: report %s, reference %s", com, b.Dates[ci], gen.DecString(g), gen.DecString(want[ci])), "equity-total", false
				}
			}
		}
		for com, got := range eqAggObs {
			if eqAggExp[com] == nil && !ref.AllZero(got) {
				return fmt.Sprintf("equity section shows %s %s, reference has none", com, fmtRats(got)), "equity-total", false
			}
		}
	}
	// totals and delta
	cmpTotals := func(name string, want, got map[string][]*big.Rat) string {
		for com, w := range want {
			g := got[com]
			for ci := range w {
				gv := new(big.Rat)
				if g != nil {
					gv = g[ci]
				}
				if w[ci].Cmp(gv) != 0 {
					return fmt.Sprintf("%s %s column %s: report %s, reference %s", name, com, b.Dates[ci], gen.DecString(gv), gen.DecString(w[ci]))
				}
			}
		}
		for com, g := range got {
			if want[com] == nil && !ref.AllZero(g) {
				return fmt.Sprintf("%s shows %s %s, reference has none", name, com, fmtRats(g))
			}
		}
		return ""
	}
	if w := cmpTotals("Total (A+L)", sumAL, totals["TotalAL"]); w != "" {
		return w, "total", false
	}
	if w := cmpTotals("Total (E+I+E)", sumEIE, totals["TotalEIE"]); w != "" {
		return w, "total", false
	}
	// Delta = shown A/L minus shown E/I/E (as displayed); with neither filter nor
	// hidden account that is zero, with -m0 it is minus the hidden amounts.
	wantDelta := map[string][]*big.Rat{}
	for com, v := range sumAL {
		addTo(wantDelta, com, v)
	}
	for com, v := range sumEIE {
		neg := make([]*big.Rat, len(v))
		for i := range v {
			neg[i] = new(big.Rat).Neg(v[i])
		}
		addTo(wantDelta, com, neg)
	}
	if len(f.Accounts) == 0 && len(f.Commodities) == 0 {
		for com, hb := range exp.Hidden {
			h := ref.Cells(hb, f.Diff, true)
			w := wantDelta[com]
			for ci := range h {
				wv := new(big.Rat)
				if w != nil {
					wv = w[ci]
				}
				if wv.Cmp(h[ci]) != 0 {
					return "reference ledger inconsistent: delta != -hidden", "harness-bug", false
				}
			}
		}
	}
	if w := cmpTotals("Delta", wantDelta, delta); w != "" {
		return w + " (Delta must equal what is hidden or filtered out, with opposite sign)", "delta", false
	}
	// non-triviality
	changed := len(exp.Hidden) > 0 || len(f.Accounts) > 0 || len(f.Commodities) > 0
	for a := range exp.Accounts {
		found := false
		for _, n := range allAccounts(j) {
			if n == a {
				found = true
			}
		}
		if !found {
			changed = true // collapsed or remapped row
		}
	}
	if f.Close && len(exp.Periods) >= 2 {
		changed = true
	}
	return "", "", changed && numeric >= 3
}

func allAccounts(j *gen.Journal) []string {
	seen := map[string]bool{}
	var res []string
	for _, d := range j.Dirs {
		if d.Kind == gen.KTxn {
			for _, b := range d.Bookings {
				for _, a := range []string{b.Credit, b.Debit} {
					if !seen[a] {
						seen[a] = true
						res = append(res, a)
					}
				}
			}
		}
	}
	return res
}
