package checks

import (
	"fmt"
	"os"
	"strings"
	"time"

	"kverif/cal"
	"kverif/core"
	"kverif/tab"
)

// C11 — reporting periods partition the requested window.
//
// LIB boundary: date.NewPartition / StartDates / EndDates / Size / Contains /
// Align, enumerated over a square of (start, end) pairs x six intervals x six
// `last` values; CLI boundary: the date columns of `knut balance --csv`.
// Reference: the harness calendar (kverif/cal), whose partition is first
// re-checked clause by clause against the statement (c11SelfCheck).
type c11 struct {
	lo, hi   cal.Day   // the square
	days     []cal.Day // all days of the square
	starts   [][]cal.Day
	ends     [][]cal.Day // ends[i] = the end dates paired with every start of case i (nil = all days)
	libCases int
	cliCases int
	cliPer   int
	tbase    cal.Day
	ttab     []time.Time // day -> time.Time for [tbase, tbase+len)
}

func init() { register("C11", func() core.Check { return &c11{} }) }

var c11Lasts = []int{0, 1, 2, 3, 7, -1}

// fixed journal of the CLI part: first transaction 2020-01-15, last
// transaction 2020-06-30, last price 2020-11-20 (the window is clipped to
// [first transaction date, last transaction-or-price date]).
const c11Journal = `2019-12-01 open Assets:Bank
2019-12-01 open Expenses:Food
2019-12-01 open Equity:Equity

2020-01-15 "a"
Assets:Bank Expenses:Food 10 CHF

2020-06-30 "b"
Assets:Bank Expenses:Food 5 CHF

2020-11-20 price USD 0.9 CHF
`

var c11First, c11Last = cal.FromYMD(2020, 1, 15), cal.FromYMD(2020, 11, 20)

func (*c11) Level() string { return "exploration" }
func (*c11) Rule() string {
	return "LIB: (start, end) pairs of the square [2019-12-01, 2021-03-31]^2 incl. start > end (thorough: all pairs = exhaustive; quick: every pair with both dates within +-3 days of a month boundary plus a 1:40 sub-sample of the rest) x 6 intervals x last in {0,1,2,3,7,-1}; every partition is compared period by period with the reference calendar and every date in [min-40, max+40] is pushed through Align and Contains; CLI: sampled (--from, --to, interval, --last) on a fixed journal, date columns of `balance --csv` against the same reference after clipping to [first transaction, last transaction/price]; non-trivial = partition with >= 2 periods, or cut by last, or start > end; distinct = (start, end, interval, last) (stored aggregated per (start, interval, last) signature; the exact count is nontrivial_partitions)"
}

func (k *c11) tm(d cal.Day) time.Time { return k.ttab[int(d-k.tbase)] }

func c11Time(d cal.Day) time.Time {
	y, m, dd := d.YMD()
	return time.Date(y, time.Month(m), dd, 0, 0, 0, 0, time.UTC)
}

// c11Day converts an observed time back to a day number (boundary conversion).
func c11Day(t time.Time) cal.Day { return cal.FromYMD(t.Year(), int(t.Month()), t.Day()) }

func (k *c11) Setup(c *core.Ctx) (int, error) {
	k.lo, k.hi = cal.FromYMD(2019, 12, 1), cal.FromYMD(2021, 3, 31)
	for d := k.lo; d <= k.hi; d++ {
		k.days = append(k.days, d)
	}
	k.tbase = k.lo - 60
	for d := k.tbase; d <= k.hi+60; d++ {
		k.ttab = append(k.ttab, c11Time(d))
	}
	if err := c11SelfCheck(k.lo, k.hi); err != nil {
		return 0, fmt.Errorf("reference calendar fails the statement's clauses: %v", err)
	}
	// boundary days: within +-3 days of a month boundary (that includes every
	// quarter and year boundary; the 7-day band covers every weekday, so week
	// boundaries are hit at every offset as well)
	var boundary []cal.Day
	isB := map[cal.Day]bool{}
	for _, d := range k.days {
		_, _, dd := d.YMD()
		y, m, _ := d.YMD()
		if dd <= 4 || dd >= cal.DaysInMonth(y, m)-3 {
			boundary = append(boundary, d)
			isB[d] = true
		}
	}
	if c.Quick() {
		// one case per boundary start (all boundary ends), plus sub-sampled pairs
		for _, s := range boundary {
			k.starts = append(k.starts, []cal.Day{s})
			k.ends = append(k.ends, boundary)
		}
		r := c.Rng(-1, "subsample")
		var ss, es []cal.Day
		n := len(k.days) * len(k.days) / 40
		for i := 0; i < n; i++ {
			ss = append(ss, k.days[r.Intn(len(k.days))])
			es = append(es, k.days[r.Intn(len(k.days))])
		}
		// sub-sampled pairs are carried as single-pair cases grouped by 200
		for i := 0; i < n; i += 200 {
			j := i + 200
			if j > n {
				j = n
			}
			k.starts = append(k.starts, append([]cal.Day{-1 << 30}, ss[i:j]...)) // marker: paired mode
			k.ends = append(k.ends, es[i:j])
		}
	} else {
		for _, s := range k.days {
			k.starts = append(k.starts, []cal.Day{s})
			k.ends = append(k.ends, nil)
		}
		c.Extra("exhaustive", true)
	}
	c.Extra("square", fmt.Sprintf("%s..%s (%d days, %d ordered pairs)", k.lo, k.hi, len(k.days), len(k.days)*len(k.days)))
	k.libCases = len(k.starts)
	k.cliPer = 50
	k.cliCases = c.N(16, 400)
	return k.libCases + k.cliCases, nil
}

func (k *c11) Finish(c *core.Ctx) {
	c.Assume("interval `once` with start > end: the implementation returns one degenerate period [start, end]; the statement only implies that no day is covered, so Size/StartDates/EndDates and Align(d <= end) are not judged there (Contains(d) = false for every d and Align(d > end) = no column are judged); on the CLI that combination is not judged at all")
	c.Assume("last <= 0 is read as 'no cut' (the natural reading of --last; the implementation agrees)")
	c.Assume("Contains(d) is judged as membership in the requested window [start, end] also when --last cuts (dates before the first shown period belong to the first period by the statement)")
}

// c11SelfCheck re-derives the statement's clauses on the reference partition
// (uncut) for every window of the square, so that "equal to cal.Partition" is
// the same as "satisfies the statement".
func c11SelfCheck(lo, hi cal.Day) error {
	for iv := cal.Once; iv <= cal.Yearly; iv++ {
		for s := lo; s <= hi; s += 1 {
			for e := s; e <= hi; e += 7 - cal.Day(int(s)%3) {
				ps := cal.Partition(s, e, iv, 0)
				if len(ps) == 0 || ps[0].Start != s || ps[len(ps)-1].End != e {
					return fmt.Errorf("%s..%s %s: does not cover the window", s, e, cal.IntervalNames[iv])
				}
				for i, p := range ps {
					if p.Start > p.End {
						return fmt.Errorf("%s..%s %s: empty period", s, e, cal.IntervalNames[iv])
					}
					if i > 0 && p.Start != ps[i-1].End+1 {
						return fmt.Errorf("%s..%s %s: not consecutive", s, e, cal.IntervalNames[iv])
					}
					if iv == cal.Once {
						continue
					}
					if c11Unit(p.Start, iv) != c11Unit(p.End, iv) {
						return fmt.Errorf("%s..%s %s: period %s..%s straddles a boundary", s, e, cal.IntervalNames[iv], p.Start, p.End)
					}
					// maximal within window ∩ unit
					if p.Start > s && c11Unit(p.Start-1, iv) == c11Unit(p.Start, iv) {
						return fmt.Errorf("%s..%s %s: period not maximal at its start", s, e, cal.IntervalNames[iv])
					}
					if p.End < e && c11Unit(p.End+1, iv) == c11Unit(p.End, iv) {
						return fmt.Errorf("%s..%s %s: period not maximal at its end", s, e, cal.IntervalNames[iv])
					}
				}
			}
		}
	}
	return nil
}

// c11Unit names the calendar unit of a day directly from its civil date
// (independent of cal.UnitStart/UnitEnd, which cal.Partition uses).
func c11Unit(d cal.Day, iv cal.Interval) int {
	y, m, _ := d.YMD()
	switch iv {
	case cal.Daily:
		return int(d)
	case cal.Weekly:
		// Monday-based week number since a fixed Monday (1969-12-29 = day -3)
		n := int(d) + 3
		if n < 0 {
			n -= 6
		}
		return n / 7
	case cal.Monthly:
		return y*12 + m
	case cal.Quarterly:
		return y*4 + (m-1)/3
	case cal.Yearly:
		return y
	}
	return 0
}

func (k *c11) RunCase(c *core.Ctx, i int) {
	if i >= k.libCases {
		k.runCLI(c, i)
		return
	}
	k.runLib(c, i)
}

func c11Fmt(ps []cal.Period) string {
	var b strings.Builder
	for _, p := range ps {
		fmt.Fprintf(&b, "%s..%s\n", p.Start, p.End)
	}
	return b.String()
}

func c11Repro(s, e cal.Day, iv cal.Interval, last int) string {
	sy, sm, sd := s.YMD()
	ey, em, ed := e.YMD()
	return fmt.Sprintf(`package main

import (
	"fmt"
	"github.com/sboehler/knut/lib/common/date"
)

func main() {
	p := date.NewPartition(date.Period{Start: date.Date(%d, %d, %d), End: date.Date(%d, %d, %d)}, date.Interval(%d) /* %s */, %d)
	fmt.Println(p.Size(), p.StartDates(), p.EndDates())
}
`, sy, sm, sd, ey, em, ed, int(iv), cal.IntervalNames[iv], last)
}

// ---------------------------------------------------------------- CLI

func (k *c11) runCLI(c *core.Ctx, i int) {
	r := c.Rng(i, "cli")
	dir := c.CaseDir(i)
	defer os.RemoveAll(dir)
	// the same journal with its blocks (opens, two transactions, the late price) in a random
	// order of appearance: the window is a matter of dates, not of where a directive stands
	blocks := strings.Split(strings.TrimSuffix(c11Journal, "\n"), "\n\n")
	c11Last := c11Last
	if r.Intn(2) == 0 {
		// a transaction after the late price: the window then ends with a transaction
		blocks = append(blocks, "2020-12-05 \"c\"\nAssets:Bank Expenses:Food 1 CHF")
		c11Last = cal.FromYMD(2020, 12, 5)
	}
	switch r.Intn(4) {
	case 0: // as written: chronological
	case 1: // newest first
		for a, b := 0, len(blocks)-1; a < b; a, b = a+1, b-1 {
			blocks[a], blocks[b] = blocks[b], blocks[a]
		}
	case 2: // prices first, then the transactions newest first, the opens last
		var prices, rest []string
		for _, b := range blocks {
			if strings.Contains(b, " price ") {
				prices = append(prices, b)
			} else {
				rest = append(rest, b)
			}
		}
		for a, b := 0, len(rest)-1; a < b; a, b = a+1, b-1 {
			rest[a], rest[b] = rest[b], rest[a]
		}
		blocks = append(prices, rest...)
	default:
		r.Shuffle(len(blocks), func(a, b int) { blocks[a], blocks[b] = blocks[b], blocks[a] })
	}
	c11Journal := strings.Join(blocks, "\n\n") + "\n"
	writeFile(dir, "j.knut", c11Journal)
	for n := 0; n < k.cliPer; n++ {
		var f, t cal.Day
		pick := func() cal.Day {
			switch r.Intn(4) {
			case 0: // near the journal's first / last date
				return []cal.Day{c11First, c11Last}[r.Intn(2)] + cal.Day(r.Intn(9)-4)
			case 1: // near a month boundary
				m := 1 + r.Intn(12)
				return cal.FromYMD(2020, m, 1) + cal.Day(r.Intn(7)-3)
			}
			return k.days[r.Intn(len(k.days))]
		}
		f, t = pick(), pick()
		if r.Intn(8) != 0 && f > t {
			f, t = t, f
		}
		iv := cal.Interval(r.Intn(6))
		last := c11Lasts[r.Intn(len(c11Lasts))]
		args := []string{"balance", "--csv", "--from", f.String(), "--to", t.String()}
		switch {
		case iv == cal.Once && r.Intn(2) == 0:
			args = append(args, "--once")
		case iv != cal.Once:
			args = append(args, cal.IntervalFlags[iv])
		}
		if last != 0 || r.Intn(2) == 0 {
			args = append(args, fmt.Sprintf("--last=%d", last))
		}
		args = append(args, "j.knut")
		// clip
		s, e := f, t
		if c11First > s {
			s = c11First
		}
		if c11Last < e {
			e = c11Last
		}
		c.Eval(1)
		if s > e && iv == cal.Once {
			c.NotJudged(1)
			continue
		}
		exp := cal.Partition(s, e, iv, 0)
		cut := false
		if last > 0 && len(exp) > last && iv != cal.Once {
			exp = exp[len(exp)-last:]
			cut = true
		}
		res := knut(c, dir, nil, args...)
		if res.Class == "timeout" {
			c.Inconclusive(i, "balance timed out")
			continue
		}
		w := core.Witness{Case: i, Files: map[string][]byte{"j.knut": []byte(c11Journal)}, Cmd: knutCmd(c, nil, args...),
			Extra: map[string]string{"observed.csv": string(res.Stdout), "expected.txt": c11Fmt(exp)}}
		if res.Class != "ok" {
			w.Key, w.Why = "cli-failed", "balance failed: "+fmtErr(res)
			c.Violation(w)
			return
		}
		recs, err := tab.ParseCSV(string(res.Stdout))
		if err != nil || len(recs) == 0 || len(recs[0]) < 1 || recs[0][0] != "Account" {
			w.Key, w.Why = "cli-unreadable", fmt.Sprintf("unreadable csv header (%v)", err)
			c.Violation(w)
			return
		}
		hdr := recs[0][1:]
		if len(hdr) > 0 && hdr[0] == "Comm" {
			hdr = hdr[1:]
		}
		var want []string
		for _, p := range exp {
			want = append(want, p.End.String())
		}
		if strings.Join(hdr, ",") != strings.Join(want, ",") {
			w.Key = "cli-columns"
			w.Why = fmt.Sprintf("window %s..%s clipped to %s..%s, %s, last=%d: date columns are [%s], the calendar gives [%s]",
				f, t, s, e, cal.IntervalNames[iv], last, strings.Join(hdr, " "), strings.Join(want, " "))
			c.Violation(w)
			return
		}
		c.Count("cli_runs_judged", 1)
		if len(exp) >= 2 || cut || s > e {
			c.Nontrivial("cli|" + strings.Join(args, " "))
		}
		if c.WantSample() && len(exp) >= 2 {
			c.Sample(map[string]any{"argv": strings.Join(args, " "), "header": strings.Join(recs[0], ","), "expected_period_ends": want})
		}
	}
}
