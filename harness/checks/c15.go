package checks

import (
	"fmt"
	"math/rand"
	"os"
	"path/filepath"
	"regexp"
	"sort"
	"strings"

	"kverif/core"
)

// C15 — infer edits only the placeholder account.
//
// Observed: stdout of `knut infer -t TRAIN [-a ACC] TARGET` (K = 8 runs), the
// file after `knut infer --inplace ...`, and `knut format` of a copy of TARGET.
// The oracle reads the formatted target and the infer output with its own
// line reader for knut's journal syntax (no knut package on the oracle side)
// and knows the training accounts from the abstract training model the
// generator rendered the training files from.
type c15 struct{ runs int }

func init() { register("C15", func() core.Check { return &c15{} }) }

func (*c15) Level() string { return "exploration" }
func (*c15) Rule() string {
	return "case = (training file set, target file, placeholder) drawn from training kinds {empty, comments only, no transactions, one account, only bookings with the placeholder, symmetric data with exact score ties, two candidates whose per-word counts are permutations of one another, rich, rich with placeholder and macros, training = target, include tree} x target bookings with the placeholder on credit / debit / both sides / absent, several bookings per transaction, macro accounts, addons, other directives, layout noise (tabs, CRLF, comments, missing final newline) x placeholder names (default, -a with ASCII / non-ASCII / one-segment / macro name); 8 stdout runs + 1 --inplace run per case; oracle = output equals `knut format` of the target line by line except booking accounts whose original text is the placeholder (booking lines compared as whitespace-separated tokens), each replacement is an account of a training booking, != placeholder, != the other account of the booking as it stands in the output, the placeholder stays when the training bookings offer no candidate, the output is accepted by `knut format` and is its fixpoint, all 9 outputs byte-identical; non-trivial = target with >=1 booking side equal to the placeholder whose 9 runs all succeeded; distinct = hash of all input files + argv"
}

func (k *c15) Setup(c *core.Ctx) (int, error) {
	k.runs = 8
	return c.N(1200, 15000), nil
}

func (*c15) Finish(c *core.Ctx) {
	c.Assume("candidate accounts: a replacement must be a non-macro account occurring in some booking of the training files (include closure); the obligation to replace is only judged against accounts that occur in a training booking without the placeholder and without a macro (accounts seen only next to the placeholder may or may not count as learned)")
	c.Assume("occurrences of the placeholder outside bookings (open, @accrue, balance) must stay as they are: the statement speaks of 'the other account of the same booking'")
	c.Assume("transaction descriptions in generated files contain no newline (the oracle's reader is line based)")
}

// ---------------------------------------------------------------- abstract model

type c15B struct{ cr, dr, qty, com string }

type c15Item struct {
	// exactly one of:
	txn    *c15T
	single string   // one-line directive (open, close, price, balance, include)
	multi  []string // multi-line balance assertion
}

type c15T struct {
	date, desc string
	addons     []string
	bks        []c15B
}

var c15Accounts = []string{
	"Expenses:Food", "Expenses:Rent", "Expenses:Groceries", "Expenses:Ärzte", "Expenses:現金", "Income:Salary",
	"Assets:Bank", "Assets:Cash", "Liabilities:Card", "Equity:Opening", "Expenses:Food:Restaurant", "Aufwand:Essen",
	"Expenses:Travel:SBB", "Income:Dividends", "Assets:Broker:Depot1", "Expenses:Z9",
}

var c15Words = []string{
	"Migros", "Coop", "rent", "salary", "coffee", "SBB", "insurance", "Zürich", "transfer", "fees", "dividend",
	"ATM", "refund", "tax", "日本", "été", "#hash", "a;b", "x,y", "it's", "100%", "Lunch", "LUNCH", "lunch",
}

var c15Coms = []string{"CHF", "USD", "EUR", "AAPL", "Ünit"}

func c15Qty(r *rand.Rand) string {
	switch r.Intn(6) {
	case 0:
		return fmt.Sprint(1 + r.Intn(100))
	case 1:
		return fmt.Sprintf("%d.%02d", r.Intn(1000), r.Intn(100))
	case 2:
		return "10"
	case 3:
		return fmt.Sprintf("-%d.5", r.Intn(50))
	case 4:
		return "1234567.12345678"
	default:
		return "10.00"
	}
}

func c15Date(r *rand.Rand) string {
	return fmt.Sprintf("20%02d-%02d-%02d", 18+r.Intn(5), 1+r.Intn(12), 1+r.Intn(28))
}

func c15Desc(r *rand.Rand) string {
	n := r.Intn(4)
	var ws []string
	for i := 0; i < n; i++ {
		ws = append(ws, c15Words[r.Intn(len(c15Words))])
	}
	return strings.Join(ws, " ")
}

// ---------------------------------------------------------------- rendering

type c15Layout struct {
	noisy bool
	crlf  bool
	noEOL bool
}

func (l c15Layout) sep(r *rand.Rand) string {
	if !l.noisy {
		return " "
	}
	return []string{" ", "  ", "\t", "   ", " \t ", "      "}[r.Intn(6)]
}

func (l c15Layout) trail(r *rand.Rand) string {
	if !l.noisy || r.Intn(3) != 0 {
		return ""
	}
	return []string{" ", "\t", "   "}[r.Intn(3)]
}

func c15Render(r *rand.Rand, items []c15Item, l c15Layout) string {
	var b strings.Builder
	gap := func(afterBlock bool) {
		// afterBlock: the previous directive needs a blank (or whitespace-led) line
		if afterBlock {
			b.WriteString("\n")
		}
		if !l.noisy {
			if !afterBlock {
				b.WriteString("\n")
			}
			return
		}
		for n := r.Intn(4); n > 0; n-- {
			switch r.Intn(6) {
			case 0:
				b.WriteString("# " + c15Desc(r) + " Expenses:TBD\n")
			case 1:
				b.WriteString("* heading\n")
			case 2:
				b.WriteString("// 2020-01-01 \"not a transaction\"\n")
			case 3:
				b.WriteString("  \t\n")
			default:
				b.WriteString("\n")
			}
		}
	}
	if l.noisy && r.Intn(3) == 0 {
		gap(false)
	}
	for _, it := range items {
		switch {
		case it.txn != nil:
			t := it.txn
			for _, a := range t.addons {
				b.WriteString(a + l.trail(r) + "\n")
			}
			b.WriteString(t.date + l.sep(r) + `"` + t.desc + `"` + l.trail(r) + "\n")
			for _, bk := range t.bks {
				b.WriteString(bk.cr + l.sep(r) + bk.dr + l.sep(r) + bk.qty + l.sep(r) + bk.com + l.trail(r) + "\n")
			}
			gap(true)
		case it.multi != nil:
			for _, ln := range it.multi {
				b.WriteString(ln + l.trail(r) + "\n")
			}
			gap(true)
		default:
			b.WriteString(it.single + l.trail(r) + "\n")
			gap(false)
		}
	}
	s := b.String()
	if l.noEOL {
		s = strings.TrimRight(s, "\n \t")
	}
	if l.crlf {
		s = strings.ReplaceAll(s, "\n", "\r\n")
	}
	return s
}

// ---------------------------------------------------------------- generators

type c15Case struct {
	kind      string
	files     map[string][]byte // training files (unless sameFile) + target.knut
	trainPath string
	sameFile  bool
	ph        string
	flagA     bool   // pass -a explicitly
	train     []c15B // all bookings of the training set (include closure)
	target    []c15Item
	fixed     []c15Item // target prescribed by the training kind
	phSides   int       // booking sides equal to the placeholder in the target
}

func c15Placeholder(r *rand.Rand) (string, bool) {
	switch r.Intn(13) {
	case 12:
		return "Expenses:ToBeDetermined:Later:VeryLongPlaceholderName99", true // longer than every other account: drives the column padding
	case 0, 1, 2, 3:
		return "Expenses:TBD", false
	case 4:
		return "Expenses:TBD", true
	case 5:
		return "Expenses:Unknown", true
	case 6:
		return "TBD", true
	case 7:
		return "Ausgaben:Ünklar", true
	case 8:
		return "A:B:C:D9", true
	case 9:
		return "$tbd", true
	case 10:
		return "Assets:Bank", true // a placeholder that looks like an ordinary account
	default:
		return "Expenses:未定", true
	}
}

// accounts for the training side: pool plus look-alikes of the placeholder.
func c15TrainAccounts(r *rand.Rand, ph string, n int) []string {
	pool := append([]string{}, c15Accounts...)
	if !strings.HasPrefix(ph, "$") {
		pool = append(pool, ph+":Sub", ph+"X", "Sub:"+ph)
	}
	r.Shuffle(len(pool), func(a, b int) { pool[a], pool[b] = pool[b], pool[a] })
	var res []string
	for _, a := range pool {
		if a != ph && len(res) < n {
			res = append(res, a)
		}
	}
	return res
}

// c15RichTrain draws transactions whose descriptions correlate with accounts.
func c15RichTrain(r *rand.Rand, accs []string, ph string, n int, withPh, withMacro bool) []*c15T {
	sig := map[string][]string{}
	for _, a := range accs {
		sig[a] = []string{c15Words[r.Intn(len(c15Words))], c15Words[r.Intn(len(c15Words))]}
	}
	var res []*c15T
	for i := 0; i < n; i++ {
		t := &c15T{date: c15Date(r)}
		nb := 1 + r.Intn(3)
		var words []string
		for b := 0; b < nb; b++ {
			cr := accs[r.Intn(len(accs))]
			dr := accs[r.Intn(len(accs))]
			if r.Intn(10) != 0 {
				for tries := 0; dr == cr && len(accs) > 1 && tries < 10; tries++ {
					dr = accs[r.Intn(len(accs))]
				}
			}
			words = append(words, sig[dr][r.Intn(2)])
			if withPh && r.Intn(5) == 0 {
				if r.Intn(2) == 0 {
					cr = ph
				} else {
					dr = ph
				}
			}
			if withMacro && r.Intn(6) == 0 {
				if r.Intn(2) == 0 {
					cr = "$m"
				} else {
					dr = "$abc"
				}
			}
			t.bks = append(t.bks, c15B{cr, dr, c15Qty(r), c15Coms[r.Intn(len(c15Coms))]})
		}
		if r.Intn(4) != 0 {
			words = append(words, c15Desc(r))
		}
		t.desc = strings.TrimSpace(strings.Join(words, " "))
		if r.Intn(8) == 0 {
			t.addons = append(t.addons, "@performance(USD)")
		}
		res = append(res, t)
	}
	return res
}

func c15TxnItems(ts []*c15T) []c15Item {
	var res []c15Item
	for _, t := range ts {
		res = append(res, c15Item{txn: t})
	}
	return res
}

// c15Target draws the target: transactions with the placeholder in all
// positions, plus other directives.
func c15Target(r *rand.Rand, ph string, others []string, templates []*c15T) ([]c15Item, int) {
	var items []c15Item
	sides := 0
	style := r.Intn(8) // 0: no placeholder at all
	ntx := 1 + r.Intn(6)
	other := func() string {
		switch r.Intn(10) {
		case 0:
			return "$m"
		case 1:
			return "Assets:Fresh" + fmt.Sprint(r.Intn(3))
		case 2:
			if !strings.HasPrefix(ph, "$") {
				return ph + ":Sub"
			}
		case 3:
			if !strings.HasPrefix(ph, "$") {
				return ph + "X"
			}
		}
		if len(others) == 0 {
			return "Assets:Bank"
		}
		return others[r.Intn(len(others))]
	}
	if r.Intn(5) == 0 && !strings.HasPrefix(ph, "$") {
		items = append(items, c15Item{single: c15Date(r) + " open " + ph})
	}
	for i := 0; i < ntx; i++ {
		var t *c15T
		if len(templates) > 0 && r.Intn(2) == 0 {
			// re-use description / quantity / commodity of a training transaction
			src := templates[r.Intn(len(templates))]
			t = &c15T{date: c15Date(r), desc: src.desc}
			for _, b := range src.bks {
				t.bks = append(t.bks, b)
			}
			if len(t.bks) > 1 && r.Intn(2) == 0 {
				t.bks = t.bks[:1]
			}
		} else {
			t = &c15T{date: c15Date(r), desc: c15Desc(r)}
			for n := 1 + r.Intn(4); n > 0; n-- {
				t.bks = append(t.bks, c15B{other(), other(), c15Qty(r), c15Coms[r.Intn(len(c15Coms))]})
			}
		}
		for bi := range t.bks {
			b := &t.bks[bi]
			if style == 0 {
				// keep the placeholder out entirely
				if b.cr == ph {
					b.cr = "Assets:NoPh"
				}
				if b.dr == ph {
					b.dr = "Assets:NoPh"
				}
				continue
			}
			switch r.Intn(8) {
			case 0, 1, 2:
				b.dr = ph
			case 3, 4:
				b.cr = ph
			case 5:
				b.cr, b.dr = ph, ph
			case 6:
				// placeholder next to a fresh / macro / look-alike account
				b.dr = ph
				b.cr = other()
			}
		}
		switch r.Intn(10) {
		case 0:
			t.addons = append(t.addons, "@performance(USD, CHF)")
		case 1:
			acc := "Assets:Accrual"
			if r.Intn(3) == 0 && !strings.HasPrefix(ph, "$") {
				acc = ph
			}
			t.addons = append(t.addons, "@accrue monthly 2020-01-01 2020-12-01 "+acc)
		case 2:
			t.addons = append(t.addons, "@performance()", "@accrue daily 2020-01-01 2020-01-05 Assets:Accrual")
		}
		for _, b := range t.bks {
			if b.cr == ph {
				sides++
			}
			if b.dr == ph {
				sides++
			}
		}
		items = append(items, c15Item{txn: t})
		switch r.Intn(12) {
		case 0:
			items = append(items, c15Item{single: c15Date(r) + " price AAPL 123.45 USD"})
		case 1:
			items = append(items, c15Item{single: c15Date(r) + " balance Assets:Bank 100.5 CHF"})
		case 2:
			acc := "Assets:Cash"
			if r.Intn(2) == 0 && !strings.HasPrefix(ph, "$") {
				acc = ph
			}
			items = append(items, c15Item{multi: []string{c15Date(r) + " balance", "Assets:Bank 1 CHF", acc + " -2.50 USD"}})
		case 3:
			items = append(items, c15Item{single: c15Date(r) + " close Assets:Old"})
		case 4:
			items = append(items, c15Item{single: c15Date(r) + " open Expenses:Food"})
		}
	}
	return items, sides
}

func c15Generate(r *rand.Rand) *c15Case {
	cs := &c15Case{files: map[string][]byte{}, trainPath: "train.knut"}
	cs.ph, cs.flagA = c15Placeholder(r)
	ph := cs.ph
	lay := func() c15Layout {
		return c15Layout{noisy: r.Intn(2) == 0, crlf: r.Intn(12) == 0, noEOL: r.Intn(8) == 0}
	}
	var trainT []*c15T // transactions of the main training file
	var trainItems []c15Item
	kind := r.Intn(13)
	accs := c15TrainAccounts(r, ph, 2+r.Intn(7))
	switch kind {
	case 0:
		cs.kind = "empty"
		switch r.Intn(3) {
		case 0:
			cs.files["train.knut"] = []byte{}
		case 1:
			cs.files["train.knut"] = []byte("\n\n")
		default:
			cs.files["train.knut"] = []byte("# nothing here\n* Expenses:Food\n")
		}
	case 1:
		cs.kind = "no-transactions"
		trainItems = []c15Item{
			{single: "2020-01-01 open " + accs[0]},
			{single: "2020-01-01 open " + accs[1]},
			{single: "2020-01-01 price USD 0.9 CHF"},
			{single: "2020-02-01 balance " + accs[0] + " 0 CHF"},
		}
	case 2:
		cs.kind = "one-account"
		a := accs[0]
		for n := 1 + r.Intn(3); n > 0; n-- {
			trainT = append(trainT, &c15T{date: c15Date(r), desc: c15Desc(r), bks: []c15B{{a, a, c15Qty(r), "CHF"}}})
		}
	case 3:
		cs.kind = "only-with-placeholder"
		for n := 1 + r.Intn(4); n > 0; n-- {
			a := accs[r.Intn(len(accs))]
			b := c15B{a, ph, c15Qty(r), "CHF"}
			if r.Intn(2) == 0 {
				b = c15B{ph, a, c15Qty(r), "CHF"}
			}
			trainT = append(trainT, &c15T{date: c15Date(r), desc: c15Desc(r), bks: []c15B{b}})
		}
	case 4, 5, 6:
		cs.kind = "symmetric-ties"
		ns := 2 + r.Intn(3)
		if ns > len(accs)-1 {
			ns = len(accs) - 1
		}
		if ns < 2 {
			accs = c15TrainAccounts(r, ph, 4)
			ns = 2
		}
		s, x := accs[:ns], accs[ns]
		desc, qty, com := c15Desc(r), c15Qty(r), c15Coms[r.Intn(len(c15Coms))]
		onDebit := r.Intn(2) == 0
		for rep := 1 + r.Intn(3); rep > 0; rep-- {
			for _, a := range s {
				b := c15B{x, a, qty, com}
				if !onDebit {
					b = c15B{a, x, qty, com}
				}
				trainT = append(trainT, &c15T{date: c15Date(r), desc: desc, bks: []c15B{b}})
			}
		}
		r.Shuffle(len(trainT), func(a, b int) { trainT[a], trainT[b] = trainT[b], trainT[a] })
	case 7:
		cs.kind = "rich"
		trainT = c15RichTrain(r, accs, ph, 3+r.Intn(30), false, false)
	case 8:
		cs.kind = "rich-placeholder-macros"
		trainT = c15RichTrain(r, accs, ph, 3+r.Intn(30), true, true)
	case 9:
		cs.kind = "two-accounts"
		accs = accs[:2]
		trainT = c15RichTrain(r, accs, ph, 1+r.Intn(4), r.Intn(2) == 0, false)
	case 10:
		cs.kind = "train-is-target"
		cs.sameFile = true
		trainT = c15RichTrain(r, accs, ph, 2+r.Intn(12), false, r.Intn(3) == 0)
	case 11:
		cs.kind = "include-tree"
		trainT = c15RichTrain(r, accs, ph, 2+r.Intn(10), r.Intn(3) == 0, false)
	case 12:
		// two candidates whose per-word counts are permutations of one another: their scores are
		// the same sum of logarithms in a different order, so that only a fixed order of
		// summation (and of candidates) makes the winner reproducible
		cs.kind = "permuted-count-ties"
		if len(accs) < 3 {
			accs = c15TrainAccounts(r, ph, 4)
		}
		a, b, x := accs[0], accs[1], accs[2]
		words := []string{"alpha", "beta", "gamma", "delta", "epsilon", "zeta", "eta"}[:3+r.Intn(5)]
		counts := make([]int, len(words))
		for i := range counts {
			counts[i] = 1 + r.Intn(9)
		}
		perm := r.Perm(len(words))
		qty, com, date := c15Qty(r), c15Coms[r.Intn(len(c15Coms))], c15Date(r)
		for i, w := range words {
			for n := 0; n < counts[i]; n++ {
				trainT = append(trainT, &c15T{date: c15Date(r), desc: w, bks: []c15B{{x, a, qty, com}}})
			}
			for n := 0; n < counts[perm[i]]; n++ {
				trainT = append(trainT, &c15T{date: c15Date(r), desc: w, bks: []c15B{{x, b, qty, com}}})
			}
		}
		r.Shuffle(len(trainT), func(a, b int) { trainT[a], trainT[b] = trainT[b], trainT[a] })
		for n := 1 + r.Intn(3); n > 0; n-- {
			cs.fixed = append(cs.fixed, c15Item{txn: &c15T{date: date, desc: strings.Join(words, " "), bks: []c15B{{x, ph, qty, com}}}})
		}
	}
	if trainItems == nil {
		trainItems = c15TxnItems(trainT)
	}
	all := append([]*c15T{}, trainT...)

	switch {
	case cs.sameFile:
		// the target is the training file: rich transactions plus transactions
		// with the placeholder
		tgt, _ := c15Target(r, ph, accs, trainT)
		items := append(append([]c15Item{}, trainItems...), tgt...)
		r.Shuffle(len(items), func(a, b int) { items[a], items[b] = items[b], items[a] })
		cs.target = items
		cs.trainPath = "target.knut"
	case cs.kind == "include-tree":
		// main -> sub/a.knut -> b.knut (relative to sub/), main -> c.knut
		n := len(trainT)
		cut1, cut2, cut3 := n/4, n/2, 3*n/4
		main := c15TxnItems(trainT[:cut1])
		a := c15TxnItems(trainT[cut1:cut2])
		bb := c15TxnItems(trainT[cut2:cut3])
		cc := c15TxnItems(trainT[cut3:])
		main = append(main, c15Item{single: `include "sub/a.knut"`})
		if r.Intn(2) == 0 {
			main = append([]c15Item{{single: `include "./c.knut"`}}, main...)
		} else {
			main = append(main, c15Item{single: `include "c.knut"`})
		}
		a = append(a, c15Item{single: `include "b.knut"`})
		cs.files["train.knut"] = []byte(c15Render(r, main, lay()))
		la := lay()
		if r.Intn(2) == 0 {
			la.noEOL = true // the include is the last thing in the file, without a final newline
		}
		cs.files["sub/a.knut"] = []byte(c15Render(r, a, la))
		cs.files["sub/b.knut"] = []byte(c15Render(r, bb, lay()))
		cs.files["c.knut"] = []byte(c15Render(r, cc, lay()))
	case cs.kind != "empty":
		cs.files["train.knut"] = []byte(c15Render(r, trainItems, lay()))
	}
	if !cs.sameFile {
		cs.target, _ = c15Target(r, ph, accs, trainT)
		if cs.fixed != nil {
			cs.target = cs.fixed
		}
	}
	cs.files["target.knut"] = []byte(c15Render(r, cs.target, lay()))
	for _, it := range cs.target {
		if it.txn == nil {
			continue
		}
		if cs.sameFile {
			all = append(all, it.txn)
		}
		for _, b := range it.txn.bks {
			if b.cr == ph {
				cs.phSides++
			}
			if b.dr == ph {
				cs.phSides++
			}
		}
	}
	seen := map[*c15T]bool{}
	for _, t := range all {
		if seen[t] {
			continue
		}
		seen[t] = true
		cs.train = append(cs.train, t.bks...)
	}
	return cs
}

// candidate sets from the abstract training model
func c15Candidates(train []c15B, ph string) (max, min map[string]bool) {
	max, min = map[string]bool{}, map[string]bool{}
	for _, b := range train {
		macro := strings.HasPrefix(b.cr, "$") || strings.HasPrefix(b.dr, "$")
		for _, a := range []string{b.cr, b.dr} {
			if a != ph && !strings.HasPrefix(a, "$") {
				max[a] = true
				if !macro && b.cr != ph && b.dr != ph {
					min[a] = true
				}
			}
		}
	}
	return
}

// ---------------------------------------------------------------- line reader

const (
	c15Gap = iota
	c15Other
	c15Header
	c15Booking
)

var (
	c15DateRe = regexp.MustCompile(`^[0-9]{4}-[0-9]{2}-[0-9]{2}[ \t\r]+(.*)$`)
	c15QtyRe  = regexp.MustCompile(`^-?[0-9]+(\.[0-9]+)?$`)
)

func c15StartsBlank(s string) bool {
	return s == "" || s[0] == ' ' || s[0] == '\t' || s[0] == '\r'
}

// c15Classify assigns a class to every line of a journal in formatted shape.
func c15Classify(lines []string) ([]int, error) {
	cls := make([]int, len(lines))
	for i := 0; i < len(lines); i++ {
		ln := lines[i]
		switch {
		case strings.Trim(ln, " \t\r") == "":
			cls[i] = c15Gap
		case ln[0] == '*' || ln[0] == '#' || strings.HasPrefix(ln, "//"):
			cls[i] = c15Gap
		case ln[0] == '@':
			cls[i] = c15Header
		case strings.HasPrefix(ln, "include"):
			cls[i] = c15Other
		default:
			m := c15DateRe.FindStringSubmatch(ln)
			if m == nil {
				return nil, fmt.Errorf("line %d is neither comment, blank, addon, include nor dated directive: %q", i+1, ln)
			}
			rest := m[1]
			switch {
			case strings.HasPrefix(rest, `"`):
				if strings.Count(rest, `"`) != 2 {
					return nil, fmt.Errorf("line %d: description is not closed on the line: %q", i+1, ln)
				}
				cls[i] = c15Header
				n := 0
				for i+1 < len(lines) && !c15StartsBlank(lines[i+1]) {
					i++
					cls[i] = c15Booking
					n++
				}
				if n == 0 {
					return nil, fmt.Errorf("line %d: transaction without bookings", i+1)
				}
			case strings.HasPrefix(rest, "balance") && strings.Trim(rest[len("balance"):], " \t\r") == "":
				cls[i] = c15Other
				for i+1 < len(lines) && !c15StartsBlank(lines[i+1]) {
					i++
					cls[i] = c15Other
				}
			case strings.HasPrefix(rest, "open"), strings.HasPrefix(rest, "close"), strings.HasPrefix(rest, "price"), strings.HasPrefix(rest, "balance"):
				cls[i] = c15Other
			default:
				return nil, fmt.Errorf("line %d: unknown directive %q", i+1, ln)
			}
		}
	}
	return cls, nil
}

type c15Finding struct{ key, why string }

// c15Judge compares one infer output with the formatted target.
func c15Judge(formatted, out, ph string, candMax, candMin map[string]bool) (fs []c15Finding, replaced, kept int) {
	add := func(key, why string) {
		for _, f := range fs {
			if f.key == key {
				return
			}
		}
		fs = append(fs, c15Finding{key, why})
	}
	fl := strings.Split(formatted, "\n")
	ol := strings.Split(out, "\n")
	cls, err := c15Classify(fl)
	if err != nil {
		add("harness-reader", "formatted target not readable by the oracle: "+err.Error())
		return
	}
	if len(fl) != len(ol) {
		add("line-structure", fmt.Sprintf("formatted target has %d lines, infer output has %d", len(fl), len(ol)))
		return
	}
	has := func(m map[string]bool, except ...string) bool {
		for a := range m {
			skip := false
			for _, e := range except {
				if a == e {
					skip = true
				}
			}
			if !skip {
				return true
			}
		}
		return false
	}
	for i := range fl {
		if cls[i] != c15Booking {
			if fl[i] != ol[i] {
				add("other-text-changed", fmt.Sprintf("line %d is not a booking but differs: formatted %q, infer %q", i+1, fl[i], ol[i]))
			}
			continue
		}
		ft := strings.Fields(fl[i])
		ot := strings.Fields(ol[i])
		if len(ft) != 4 || !c15QtyRe.MatchString(ft[2]) {
			add("harness-reader", fmt.Sprintf("formatted booking line %d has unexpected shape: %q", i+1, fl[i]))
			continue
		}
		both := ft[0] == ph && ft[1] == ph
		if len(ot) != 4 {
			// did placeholder tokens vanish?
			var rest []string
			nph := 0
			for j, t := range ft {
				if j < 2 && t == ph {
					nph++
					continue
				}
				rest = append(rest, t)
			}
			if nph > 0 && strings.Join(rest, " ") == strings.Join(ot, " ") {
				// every placeholder of the line became the empty string
				otherOrig := ""
				if !both {
					if ft[0] == ph {
						otherOrig = ft[1]
					} else {
						otherOrig = ft[0]
					}
				}
				if !has(candMin, otherOrig) {
					add("no-candidate-empty-account", fmt.Sprintf("line %d: the training data offers no candidate, the booking must stay %q, but the placeholder was replaced by the empty string: %q (the output no longer parses)", i+1, fl[i], ol[i]))
				} else {
					add("empty-account", fmt.Sprintf("line %d: placeholder replaced by the empty string although candidates exist: %q -> %q", i+1, fl[i], ol[i]))
				}
				continue
			}
			add("other-text-changed", fmt.Sprintf("booking line %d: formatted %q, infer %q", i+1, fl[i], ol[i]))
			continue
		}
		if ft[2] != ot[2] || ft[3] != ot[3] {
			add("other-text-changed", fmt.Sprintf("booking line %d: quantity/commodity changed: formatted %q, infer %q", i+1, fl[i], ol[i]))
			continue
		}
		for s := 0; s < 2; s++ {
			orig, now, otherNow := ft[s], ot[s], ot[1-s]
			if orig != ph {
				if now != orig {
					add("other-text-changed", fmt.Sprintf("booking line %d: account %q is not the placeholder %q but became %q", i+1, orig, ph, now))
				}
				continue
			}
			if now == ph {
				kept++
				if has(candMin, ph, otherNow) {
					add("placeholder-left-despite-candidate", fmt.Sprintf("booking line %d: placeholder kept in %q although the training bookings offer a candidate different from %q", i+1, ol[i], otherNow))
				}
				continue
			}
			replaced++
			if !candMax[now] {
				add("not-a-training-account", fmt.Sprintf("booking line %d: placeholder replaced by %q, which occurs in no training booking: %q", i+1, now, ol[i]))
			}
			if now == otherNow {
				if both {
					add("both-sides", fmt.Sprintf("booking line %d had the placeholder on both sides (%q); the output %q has the same account on both sides", i+1, fl[i], ol[i]))
				} else {
					add("same-as-other", fmt.Sprintf("booking line %d: replacement %q equals the other account of the booking: %q", i+1, now, ol[i]))
				}
			}
		}
	}
	return
}

// c15DiffKind classifies the difference between two outputs of the same
// command: "choice" = only accounts that replaced a placeholder differ (and the
// padding around them), "layout" = the token sequences are equal, "other".
func c15DiffKind(formatted, a, b, ph string) string {
	fl, al, bl := strings.Split(formatted, "\n"), strings.Split(a, "\n"), strings.Split(b, "\n")
	if len(fl) != len(al) || len(fl) != len(bl) {
		return "other"
	}
	kind := "layout"
	for i := range fl {
		if al[i] == bl[i] {
			continue
		}
		ft, at, bt := strings.Fields(fl[i]), strings.Fields(al[i]), strings.Fields(bl[i])
		if len(at) != len(bt) {
			return "other"
		}
		for j := range at {
			if at[j] == bt[j] {
				continue
			}
			if len(ft) == 4 && len(at) == 4 && j < 2 && ft[j] == ph {
				kind = "choice"
				continue
			}
			return "other"
		}
	}
	return kind
}

// ---------------------------------------------------------------- case

func (k *c15) RunCase(c *core.Ctx, i int) {
	r := c.Rng(i, "case")
	cs := c15Generate(r)
	dir := c.CaseDir(i)
	defer os.RemoveAll(dir)
	if err := core.WriteFiles(dir, cs.files); err != nil {
		panic(err)
	}
	target := cs.files["target.knut"]
	args := []string{"infer", "-t", cs.trainPath}
	if cs.flagA {
		args = append(args, "-a", cs.ph)
	}
	argsOut := append(append([]string{}, args...), "target.knut")
	cmd := knutCmd(c, nil, argsOut...)
	wit := func(key, why string, extra map[string]string) {
		c.Violation(core.Witness{Case: i, Key: key, Why: why, Files: cs.files, Cmd: cmd, Extra: extra})
	}

	// formatted target
	writeFile(dir, "fmt.knut", string(target))
	rf := knut(c, dir, nil, "format", "fmt.knut")
	if rf.Class == "timeout" {
		c.Inconclusive(i, "timeout: knut format fmt.knut")
		return
	}
	if rf.Class != "ok" {
		// the generator promises parseable targets: a harness problem, not a verdict
		c.NotJudged(1)
		c.Count("harness_target_rejected", 1)
		c.Observe("harness_target_rejected_reason", core.Trunc(string(rf.Stderr), 300))
		return
	}
	fb, _ := os.ReadFile(filepath.Join(dir, "fmt.knut"))
	formatted := string(fb)
	rf2 := knut(c, dir, nil, "format", "fmt.knut")
	fb2, _ := os.ReadFile(filepath.Join(dir, "fmt.knut"))
	formatIdempotent := rf2.Class == "ok" && string(fb2) == formatted

	// K stdout runs + 1 inplace run
	var outs []string
	for n := 0; n < k.runs; n++ {
		res := knut(c, dir, nil, argsOut...)
		c.Eval(1)
		if res.Class == "timeout" {
			c.Inconclusive(i, "timeout: "+cmd)
			return
		}
		if res.Class != "ok" {
			wit("infer-failed", "infer failed on a parseable training set and target: "+fmtErr(res), nil)
			return
		}
		outs = append(outs, string(res.Stdout))
	}
	if now, _ := os.ReadFile(filepath.Join(dir, "target.knut")); string(now) != string(target) {
		c.Count("target_modified_without_inplace", 1)
	}
	{
		argsIn := []string{"infer", "--inplace", "-t", cs.trainPath}
		if cs.sameFile {
			argsIn = []string{"infer", "--inplace", "-t", "inplace.knut"}
		}
		if cs.flagA {
			argsIn = append(argsIn, "-a", cs.ph)
		}
		argsIn = append(argsIn, "inplace.knut")
		writeFile(dir, "inplace.knut", string(target))
		res := knut(c, dir, nil, argsIn...)
		c.Eval(1)
		if res.Class == "timeout" {
			c.Inconclusive(i, "timeout: "+knutCmd(c, nil, argsIn...))
			return
		}
		if res.Class != "ok" {
			wit("infer-failed", "infer --inplace failed on a parseable training set and target: "+fmtErr(res), nil)
			return
		}
		ib, _ := os.ReadFile(filepath.Join(dir, "inplace.knut"))
		outs = append(outs, string(ib))
	}

	candMax, candMin := c15Candidates(cs.train, cs.ph)
	c.Count("placeholder_sides", cs.phSides)
	c.Observe("training_kind", cs.kind)
	c.Observe("placeholder", cs.ph)

	// determinism
	distinct := []string{outs[0]}
	for _, o := range outs[1:] {
		dup := false
		for _, d := range distinct {
			if d == o {
				dup = true
			}
		}
		if !dup {
			distinct = append(distinct, o)
		}
	}
	if len(distinct) > 1 {
		key := "nondeterministic-layout"
		for _, d := range distinct[1:] {
			switch c15DiffKind(formatted, distinct[0], d, cs.ph) {
			case "choice":
				if key == "nondeterministic-layout" {
					key = "nondeterministic-choice"
				}
			case "other":
				key = "nondeterministic-output"
			}
		}
		extra := map[string]string{"formatted.txt": formatted}
		for n, d := range distinct {
			if n < 4 {
				extra[fmt.Sprintf("output%d.txt", n+1)] = d
			}
		}
		wit(key, fmt.Sprintf("%d stdout runs and one --inplace run of the same command gave %d different results", k.runs, len(distinct)), extra)
	}

	// structure of every distinct output
	reported := map[string]bool{}
	clean := true
	for _, o := range distinct {
		fs, replaced, kept := c15Judge(formatted, o, cs.ph, candMax, candMin)
		c.Count("sides_replaced", replaced)
		c.Count("sides_kept", kept)
		for _, f := range fs {
			clean = false
			if f.key == "harness-reader" {
				c.NotJudged(1)
				c.Count("harness_reader_failed", 1)
				c.Observe("harness_reader_reason", core.Trunc(f.why, 300))
				continue
			}
			if reported[f.key] {
				continue
			}
			reported[f.key] = true
			wit(f.key, f.why, map[string]string{"formatted.txt": formatted, "output.txt": o})
		}
	}
	// the output parses and is a fixpoint of format
	if clean {
		for _, o := range distinct {
			writeFile(dir, "out.knut", o)
			ro := knut(c, dir, nil, "format", "out.knut")
			if ro.Class == "timeout" {
				c.Inconclusive(i, "timeout: knut format out.knut")
				break
			}
			if ro.Class != "ok" {
				wit("output-unparseable", "`knut format` rejects the infer output: "+fmtErr(ro), map[string]string{"formatted.txt": formatted, "output.txt": o})
				break
			}
			ob, _ := os.ReadFile(filepath.Join(dir, "out.knut"))
			if !formatIdempotent {
				c.Count("fixpoint_not_judged_format_not_idempotent", 1)
				continue
			}
			if string(ob) != o {
				wit("not-format-fixpoint", "the infer output is not a fixpoint of `knut format` (column alignment does not follow the new account names)", map[string]string{"formatted.txt": formatted, "output.txt": o, "reformatted.txt": string(ob)})
				break
			}
		}
	}
	if cs.phSides > 0 {
		c.Nontrivial(c15Sig(cs, argsOut))
		c.Observe("nontrivial_kind", cs.kind)
		if c.WantSample() && len(distinct) == 1 && clean {
			fm := map[string]string{}
			for n, b := range cs.files {
				fm[n] = core.Trunc(string(b), 800)
			}
			c.Sample(map[string]any{"files": fm, "argv": strings.Join(argsOut, " "), "stdout": core.Trunc(distinct[0], 1200)})
		}
	}
}

func c15Sig(cs *c15Case, argv []string) string {
	var names []string
	for n := range cs.files {
		names = append(names, n)
	}
	sort.Strings(names)
	var b strings.Builder
	for _, n := range names {
		b.WriteString(n + "\x00" + string(cs.files[n]) + "\x00")
	}
	b.WriteString(strings.Join(argv, " "))
	return b.String()
}
