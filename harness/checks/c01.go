package checks

import (
	"bufio"
	"encoding/json"
	"fmt"
	"os"
	"path/filepath"
	"strings"

	"kverif/core"
	"kverif/gen"
	"kverif/tab"
)

// C01 — conservation: every complete report nets to zero.
type c01 struct{ combos int }

func init() { register("C01", func() core.Check { return &c01{} }) }

func (*c01) Level() string { return "exploration" }
func (*c01) Rule() string {
	return "case = generated accepted journal (multi-commodity, negative/zero amounts, accruals, equity legs, prices, closes) x flag combinations drawn from window/interval/last/diff/close/-v V/-a/-s/non-hiding -m/--remap; oracle = every Delta cell of `knut balance --csv` is zero and Total(A+L) = Total(E+I+E) cell-wise, plus per-transaction zero sums in the tail-monitor trace; non-trivial = report that succeeded with >=3 account rows carrying numbers and (>=2 commodities or a valuation) and (>=2 date columns or diff/close); distinct = hash of journal text + flags"
}

func (k *c01) Setup(c *core.Ctx) (int, error) {
	k.combos = c.N(12, 30)
	return c.N(800, 6000), nil
}

func (k *c01) RunCase(c *core.Ctx, i int) {
	r := c.Rng(i, "journal")
	o := gen.DefaultOpts(r)
	o.Accruals = r.Intn(2) == 0
	o.Prices = r.Intn(4) != 0
	o.PriceGraph = r.Intn(3) == 0
	o.Lifecycle = r.Intn(2) == 0
	o.Assertions = r.Intn(2) == 0
	o.Perf = r.Intn(4) == 0
	o.SelfBook = r.Intn(4) == 0
	o.EquityEquity = r.Intn(2) == 0
	o.Depth1 = r.Intn(4) == 0
	if o.Prices && r.Intn(2) == 0 {
		o.Small = true
	}
	j, info := gen.Accepted(r, o)
	if r.Intn(2) == 0 {
		j.Shuffle(r)
	}
	text := j.Text()
	dir := c.CaseDir(i)
	defer os.RemoveAll(dir)
	writeFile(dir, "j.knut", text)
	fr := c.Rng(i, "flags")
	for n := 0; n < k.combos; n++ {
		f := randPeriodFlags(fr, info.Dates)
		args := append([]string{"balance", "--csv"}, f.Argv()...)
		val := ""
		if o.Prices && len(info.Commodities) > 0 && fr.Intn(3) != 0 {
			val = info.Commodities[fr.Intn(len(info.Commodities))]
			args = append(args, "-v", val)
		}
		if fr.Intn(3) == 0 {
			args = append(args, "-a")
		}
		if fr.Intn(3) == 0 {
			args = append(args, "-s", []string{".", "Assets", "^Income"}[fr.Intn(3)])
		}
		if fr.Intn(3) == 0 {
			// non-hiding mappings
			for m := 0; m < 1+fr.Intn(2); m++ {
				lvl := 1 + fr.Intn(3)
				spec := fmt.Sprint(lvl)
				if fr.Intn(2) == 0 {
					spec += fmt.Sprintf(":%d", fr.Intn(3))
				}
				if fr.Intn(2) == 0 {
					spec += "," + []string{"Assets", "Expenses", "^Income", "B", ":"}[fr.Intn(5)]
				}
				args = append(args, "-m", spec)
			}
		}
		if fr.Intn(5) == 0 {
			args = append(args, "--remap", []string{"Assets", "Income", "Expenses:", "."}[fr.Intn(4)])
		}
		args = append(args, "j.knut")
		var env []string
		trace := ""
		if n%4 == 0 {
			trace = filepath.Join(dir, fmt.Sprintf("trace%d.jsonl", n))
			env = append(env, "KNUT_VERIF_TRACE="+trace)
		}
		res := knut(c, dir, env, args...)
		c.Eval(1)
		if res.Class != "ok" {
			// missing prices etc. are judged by C03/C04/C14, not here
			c.NotJudged(1)
			c.Observe("not_judged_reason", firstLine(string(res.Stderr)))
			continue
		}
		why, stats := c01Oracle(string(res.Stdout))
		if why == "" && trace != "" {
			why = c01Trace(c, trace, val != "")
		}
		if why != "" {
			c.Violation(core.Witness{
				Case: i, Key: "delta-nonzero", Why: why,
				Files: map[string][]byte{"j.knut": []byte(text)},
				Cmd:   knutCmd(c, nil, args...),
				Extra: map[string]string{"observed.csv": string(res.Stdout)},
			})
			return
		}
		if stats.numRows >= 3 && (stats.comms >= 2 || val != "") && (stats.cols >= 2 || f.Diff || f.Close) {
			c.Nontrivial(text + "|" + strings.Join(args, " "))
		}
		c.Count("delta_cells_checked", stats.deltaCells)
		if c.WantSample() && stats.numRows >= 3 {
			c.Sample(map[string]any{"journal": sampleJournal(text), "argv": strings.Join(args, " "), "stdout": core.Trunc(string(res.Stdout), 1200)})
		}
	}
}

type c01Stats struct{ numRows, comms, cols, deltaCells int }

func c01Oracle(out string) (string, c01Stats) {
	var st c01Stats
	recs, err := tab.ParseCSV(out)
	if err != nil || len(recs) == 0 {
		return fmt.Sprintf("unreadable csv: %v", err), st
	}
	hdr := recs[0]
	first := 1
	if len(hdr) > 1 && hdr[1] == "Comm" {
		first = 2
	}
	st.cols = len(hdr) - first
	section := "rows"
	totals := map[string]map[string][]string{"TotalAL": {}, "TotalEIE": {}}
	comms := map[string]bool{}
	sawDelta := false
	for _, rec := range recs[1:] {
		if len(rec) != len(hdr) {
			return fmt.Sprintf("csv record with %d fields, header has %d", len(rec), len(hdr)), st
		}
		switch rec[0] {
		case "Total (A+L)":
			section = "TotalAL"
		case "Total (E+I+E)":
			section = "TotalEIE"
		case "Delta":
			section = "Delta"
			sawDelta = true
		case "":
		default:
			if section != "rows" && section != "Delta" {
				section = "rows"
			}
		}
		comm := ""
		if first == 2 {
			comm = rec[1]
		}
		switch section {
		case "rows":
			has := false
			for _, cell := range rec[first:] {
				if cell != "" {
					has = true
				}
			}
			if has {
				st.numRows++
				comms[comm] = true
			}
		case "TotalAL", "TotalEIE":
			totals[section][comm] = rec[first:]
		case "Delta":
			for ci, cell := range rec[first:] {
				st.deltaCells++
				v, ok := ratOrZero(cell)
				if !ok {
					return fmt.Sprintf("Delta cell %q is not a number", cell), st
				}
				if v.Sign() != 0 {
					return fmt.Sprintf("Delta is %s for commodity %q at %s", cell, comm, hdr[first+ci]), st
				}
			}
		}
	}
	if !sawDelta {
		return "report has no Delta row", st
	}
	st.comms = len(comms)
	for comm, al := range totals["TotalAL"] {
		eie := totals["TotalEIE"][comm]
		for ci := range al {
			a, _ := ratOrZero(al[ci])
			e := a
			if eie != nil {
				e, _ = ratOrZero(eie[ci])
			} else {
				e, _ = ratOrZero("")
			}
			if a.Cmp(e) != 0 {
				return fmt.Sprintf("Total (A+L) %s != Total (E+I+E) %s for commodity %q at %s", al[ci], safeIdx(eie, ci), comm, hdr[first+ci]), st
			}
		}
	}
	for comm, eie := range totals["TotalEIE"] {
		if totals["TotalAL"][comm] == nil {
			for ci := range eie {
				e, _ := ratOrZero(eie[ci])
				if e.Sign() != 0 {
					return fmt.Sprintf("Total (E+I+E) %s without Total (A+L) for commodity %q at %s", eie[ci], comm, hdr[first+ci]), st
				}
			}
		}
	}
	return "", st
}

func safeIdx(s []string, i int) string {
	if i < len(s) {
		return s[i]
	}
	return ""
}

func firstLine(s string) string {
	s = strings.TrimSpace(s)
	if i := strings.IndexByte(s, '\n'); i >= 0 {
		s = s[:i]
	}
	// strip variable parts
	if len(s) > 60 {
		s = s[:60]
	}
	return s
}

// c01Trace checks the tail-monitor events of the last Process call: every
// transaction nets to zero per commodity (and in value when valued).
func c01Trace(c *core.Ctx, path string, valued bool) string {
	f, err := os.Open(path)
	if err != nil {
		return ""
	}
	defer f.Close()
	sc := bufio.NewScanner(f)
	sc.Buffer(make([]byte, 1<<20), 1<<26)
	events := 0
	for sc.Scan() {
		var ev struct {
			Ev  string `json:"ev"`
			Day string `json:"day"`
			T   []struct {
				Desc string            `json:"desc"`
				Qty  map[string]string `json:"qty"`
				Val  string            `json:"val"`
			} `json:"t"`
		}
		if json.Unmarshal(sc.Bytes(), &ev) != nil || ev.Ev != "tail" {
			continue
		}
		events++
		for _, t := range ev.T {
			for com, q := range t.Qty {
				if v, ok := ratOrZero(q); ok && v.Sign() != 0 {
					return fmt.Sprintf("trace: transaction %q on %s does not balance: %s %s", t.Desc, ev.Day, q, com)
				}
			}
			if valued {
				if v, ok := ratOrZero(t.Val); ok && v.Sign() != 0 {
					return fmt.Sprintf("trace: transaction %q on %s has value sum %s", t.Desc, ev.Day, t.Val)
				}
			}
			c.Count("trace_transactions_checked", 1)
		}
	}
	c.Count("trace_tail_events", events)
	return ""
}

func (*c01) Finish(c *core.Ctx) {
	c.Assume("the journal generator only emits journals that are well-formed by construction; runs that knut rejects (e.g. missing price for an accrual leg) are counted as not_judged")
}
