package checks

import (
	"fmt"
	"math/big"
	"math/rand"
	"os"
	"regexp"
	"sort"
	"strings"

	"kverif/cal"
	"kverif/core"
	"kverif/gen"
)

// C10 — accruals move amounts in time without creating or losing money.
//
// LIB boundary: text -> real parser -> model.ParseDirective (transaction.Create
// / expand); intervals `once` and `yearly` (rejected by the parser, accepted
// by expand) through a hand-assembled syntax.Transaction. CLI boundary:
// `knut print` on a journal with opens + accrued transactions.
type c10 struct {
	perCase int
	cliEach int // every cliEach-th case also runs the CLI cross-check
}

func init() { register("C10", func() core.Check { return &c10{} }) }

func (*c10) Level() string { return "exploration" }
func (*c10) Rule() string {
	return "case = batch of generated accrued transactions: 1-4 bookings over account-type pairs A->E, L->I, E->A, Eq->A, I->E, Eq->Eq (and self-bookings), amounts {1,100,0.01,10.01,-7.77,0.00000001,12345678.12345678} U random, 1-3 commodities, accrual account of each of the five types (1/8: equal to a leg account), all six intervals, windows start <= end sized to 1..400 periods, transaction date independent of the window; LIB: parser + model.ParseDirective (once/yearly: hand-assembled syntax.Transaction); CLI: `knut print` of journals with 6 such transactions on disjoint account sets; oracle = every generated transaction sums to zero per commodity, per (account, commodity) the generated total equals the original total (accrual account: 0 plus what it books as a leg), income/expense accounts receive exactly one posting per original posting on every period end of the reference calendar and none elsewhere, all other accounts only on the original date; non-trivial = >= 2 periods and >= 1 income/expense leg, or >= 2 bookings; distinct = transaction text"
}

func (k *c10) Setup(c *core.Ctx) (int, error) {
	k.perCase = 100
	k.cliEach = c.N(1, 2)
	return c.N(600, 12000), nil
}

func (*c10) Finish(c *core.Ctx) {
	c.Assume("when the accrual account is also one of the transaction's own accounts, only conservation (generated total = original total) is judged for it, not the dating / one-posting-per-period clauses (its two roles cannot be told apart in the output)")
	c.Assume("'exactly the periods of the accrual window' is read as: one generated posting per original income/expense posting on every period end, zero-amount parts included")
	c.Assume("windows with end < start are outside the statement (C14)")
}

// ---------------------------------------------------------------- abstract model

type c10Txn struct {
	Date     cal.Day
	Desc     string
	Bookings []gen.Booking
	Acc      gen.Accrual
	Iv       cal.Interval
	// accounts of which a deeper account is registered first, so that the account itself
	// comes into being as an implicit parent
	ChildFirst []string
}

type c10Posting struct {
	Acc, Com string
	Qty      *big.Rat
}

type c10Gen struct {
	Date     cal.Day
	Postings []c10Posting
}

var c10Amounts = []string{"1", "100", "0.01", "10.01", "-7.77", "0.00000001", "12345678.12345678"}
var c10Coms = []string{"CHF", "USD", "AAPL", "BTC", "X1"}
var c10Names = map[string][]string{
	"Assets":      {"Bank", "Cash:Wallet", "Broker:Depot"},
	"Liabilities": {"Card", "Loan:Bank"},
	"Expenses":    {"Rent", "Insurance:Car", "Food"},
	"Income":      {"Salary", "Interest:Bank"},
	"Equity":      {"Opening", "Equity", "Retained:Earnings"},
}
var c10Types = []string{"Assets", "Liabilities", "Expenses", "Income", "Equity"}
var c10Pairs = [][2]string{
	{"Assets", "Expenses"}, {"Liabilities", "Income"}, {"Expenses", "Assets"},
	{"Equity", "Assets"}, {"Income", "Expenses"}, {"Equity", "Equity"},
}

func c10Type(acc string) string {
	if i := strings.IndexByte(acc, ':'); i >= 0 {
		return acc[:i]
	}
	return acc
}

func c10IsIE(acc string) bool { t := c10Type(acc); return t == "Income" || t == "Expenses" }

// c10Make draws one accrued transaction; group (if non-empty) is inserted as
// the second account segment so that several transactions use disjoint
// account sets.
func c10Make(r *rand.Rand, group string, parserOnly bool) c10Txn {
	acct := func(typ string) string {
		n := pick10(r, c10Names[typ])
		if group != "" {
			return typ + ":" + group + ":" + n
		}
		return typ + ":" + n
	}
	var t c10Txn
	t.Desc = "t" + group
	nb := 1 + r.Intn(4)
	if r.Intn(3) == 0 {
		nb = 1
	}
	ncom := 1 + r.Intn(3)
	coms := make([]string, ncom)
	for i := range coms {
		coms[i] = pick10(r, c10Coms)
	}
	for b := 0; b < nb; b++ {
		p := c10Pairs[r.Intn(len(c10Pairs))]
		bk := gen.Booking{Credit: acct(p[0]), Debit: acct(p[1]), Com: pick10(r, coms)}
		if r.Intn(25) == 0 {
			bk.Debit = bk.Credit // self-booking
		}
		if r.Intn(2) == 0 {
			bk.Qty = pick10(r, c10Amounts)
		} else {
			bk.Qty = gen.Amount(r, false, true)
		}
		t.Bookings = append(t.Bookings, bk)
	}
	// interval + window
	if parserOnly {
		t.Iv = cal.Interval(1 + r.Intn(4))
	} else {
		t.Iv = cal.Interval(r.Intn(6))
	}
	var n int
	switch r.Intn(10) {
	case 0, 1, 2, 3, 4:
		n = 1 + r.Intn(12)
	case 5, 6, 7:
		n = 13 + r.Intn(48)
	default:
		n = 61 + r.Intn(340)
	}
	base := cal.FromYMD(1995, 1, 1) + cal.Day(r.Intn(15000))
	switch r.Intn(4) {
	case 0:
		base = cal.UnitStart(base, cal.Interval(2+r.Intn(4)))
	case 1:
		base = cal.UnitEnd(base, cal.Interval(2+r.Intn(4))) + cal.Day(r.Intn(3)-1)
	}
	t0 := base
	var t1 cal.Day
	switch t.Iv {
	case cal.Once:
		t1 = t0 + cal.Day(r.Intn(800))
	case cal.Daily:
		t1 = t0 + cal.Day(n-1)
	case cal.Weekly:
		t1 = t0 + cal.Day(7*(n-1)+r.Intn(7))
	case cal.Monthly:
		t1 = t0 + cal.Day((n-1)*3044/100+r.Intn(28))
	case cal.Quarterly:
		t1 = t0 + cal.Day((n-1)*9131/100+r.Intn(80))
	default:
		t1 = t0 + cal.Day((n-1)*36524/100+r.Intn(300))
	}
	if r.Intn(4) == 0 {
		t1 = cal.UnitEnd(t1, cal.Interval(2+r.Intn(4)))
	}
	if t1 < t0 {
		t1 = t0
	}
	// transaction date: independent of the window
	switch r.Intn(6) {
	case 0:
		t.Date = t0
	case 1:
		t.Date = t1
	case 2:
		t.Date = t0 + cal.Day(r.Intn(int(t1-t0)+1))
	case 3:
		t.Date = t0 - cal.Day(1+r.Intn(800))
	case 4:
		t.Date = t1 + cal.Day(1+r.Intn(800))
	default:
		t.Date = cal.FromYMD(1990, 1, 1) + cal.Day(r.Intn(20000))
	}
	// accrual account
	at := pick10(r, c10Types)
	acc := at + ":Accrual"
	if group != "" {
		acc = at + ":" + group + ":Accrual"
	}
	if r.Intn(8) == 0 {
		bk := t.Bookings[r.Intn(len(t.Bookings))]
		acc = []string{bk.Credit, bk.Debit}[r.Intn(2)]
	}
	t.Acc = gen.Accrual{Interval: cal.IntervalNames[t.Iv], Start: t0, End: t1, Account: acc}
	for _, a := range t.accounts() {
		if r.Intn(4) == 0 {
			t.ChildFirst = append(t.ChildFirst, a)
		}
	}
	return t
}

func pick10[T any](r *rand.Rand, xs []T) T { return xs[r.Intn(len(xs))] }

func (t c10Txn) text(withAccrual bool) string {
	d := gen.Dir{Kind: gen.KTxn, Date: t.Date, Desc: t.Desc, Bookings: t.Bookings}
	if withAccrual {
		a := t.Acc
		d.Accrual = &a
	}
	return gen.RenderDir(d)
}

func (t c10Txn) accounts() []string {
	seen := map[string]bool{}
	var res []string
	for _, a := range append(t.bookingAccounts(), t.Acc.Account) {
		if !seen[a] {
			seen[a] = true
			res = append(res, a)
		}
	}
	return res
}

func (t c10Txn) bookingAccounts() []string {
	var res []string
	for _, b := range t.Bookings {
		res = append(res, b.Credit, b.Debit)
	}
	return res
}

// original postings by the statement: credit -q, debit +q.
func (t c10Txn) original() []c10Posting {
	var res []c10Posting
	for _, b := range t.Bookings {
		q := gen.Rat(b.Qty)
		res = append(res, c10Posting{b.Credit, b.Com, new(big.Rat).Neg(q)}, c10Posting{b.Debit, b.Com, q})
	}
	return res
}

// errNoLib is returned by the stub of the in-process boundary (build tag nolib).
var errNoLib = fmt.Errorf("in-process boundary not built")

// ---------------------------------------------------------------- system under test (LIB)

// c10Lib runs the real code on the transaction. viaParser=false assembles the
// syntax tree by hand (ranges into a carrier string).
func c10Lib(t c10Txn, withAccrual, viaParser bool) (res []c10Gen, text string, err error) {
	if pv := guard(func() { res, text, err = c10LibRaw(t, withAccrual, viaParser) }); pv != nil {
		return nil, t.text(withAccrual), fmt.Errorf("panic: %v", pv)
	}
	return res, text, err
}

// ---------------------------------------------------------------- oracle

type c10Key struct{ acc, com string }

func c10Sum(ps []c10Posting) map[c10Key]*big.Rat {
	m := map[c10Key]*big.Rat{}
	for _, p := range ps {
		k := c10Key{p.Acc, p.Com}
		if m[k] == nil {
			m[k] = new(big.Rat)
		}
		m[k].Add(m[k], p.Qty)
	}
	return m
}

func c10All(gs []c10Gen) []c10Posting {
	var res []c10Posting
	for _, g := range gs {
		res = append(res, g.Postings...)
	}
	return res
}

func c10Rat(m map[c10Key]*big.Rat, k c10Key) *big.Rat {
	if v := m[k]; v != nil {
		return v
	}
	return new(big.Rat)
}

// c10Oracle judges the generated transactions G of the accrued transaction t.
func c10Oracle(t c10Txn, G []c10Gen) (key, why string) {
	// 1. every generated transaction balances per commodity
	for gi, g := range G {
		sums := map[string]*big.Rat{}
		for _, p := range g.Postings {
			if sums[p.Com] == nil {
				sums[p.Com] = new(big.Rat)
			}
			sums[p.Com].Add(sums[p.Com], p.Qty)
		}
		for com, s := range sums {
			if s.Sign() != 0 {
				return "unbalanced-transaction", fmt.Sprintf("generated transaction %d (%s) sums to %s %s", gi, g.Date, gen.DecString(s), com)
			}
		}
	}
	orig := t.original()
	sumO := c10Sum(orig)
	sumG := c10Sum(c10All(G))
	keys := map[c10Key]bool{}
	for k := range sumO {
		keys[k] = true
	}
	for k := range sumG {
		keys[k] = true
	}
	var ks []c10Key
	for k := range keys {
		ks = append(ks, k)
	}
	sort.Slice(ks, func(a, b int) bool {
		if ks[a].acc != ks[b].acc {
			return ks[a].acc < ks[b].acc
		}
		return ks[a].com < ks[b].com
	})
	// 2. conservation per (account, commodity); the accrual account is held
	// to "0 plus what it books as a leg", which is the same formula.
	var firstBad *c10Key
	for i, k := range ks {
		if c10Rat(sumO, k).Cmp(c10Rat(sumG, k)) != 0 {
			if firstBad == nil || firstBad.acc == t.Acc.Account {
				firstBad = &ks[i] // prefer naming an account other than the accrual account
			}
			if k.acc != t.Acc.Account {
				break
			}
		}
	}
	equityDropped := false
	if firstBad != nil {
		// classification: are all discrepancies explained by "exactly the
		// postings on Equity accounts are missing"?
		var kept []c10Posting
		drop := map[string]*big.Rat{}
		nEq := 0
		for _, p := range orig {
			if c10Type(p.Acc) == "Equity" {
				nEq++
				if drop[p.Com] == nil {
					drop[p.Com] = new(big.Rat)
				}
				drop[p.Com].Add(drop[p.Com], p.Qty)
				continue
			}
			kept = append(kept, p)
		}
		hyp := c10Sum(kept)
		for com, d := range drop {
			k := c10Key{t.Acc.Account, com}
			if hyp[k] == nil {
				hyp[k] = new(big.Rat)
			}
			hyp[k].Add(hyp[k], d)
		}
		explained := nEq > 0
		for _, k := range ks {
			if c10Rat(hyp, k).Cmp(c10Rat(sumG, k)) != 0 {
				explained = false
			}
		}
		k := *firstBad
		switch {
		case explained:
			equityDropped = true
			key = "equity-leg-dropped"
			bad := k
			for _, kk := range ks {
				if c10Type(kk.acc) == "Equity" && kk.acc != t.Acc.Account && c10Rat(sumO, kk).Cmp(c10Rat(sumG, kk)) != 0 {
					bad = kk
					break
				}
			}
			why = fmt.Sprintf("account %s: the original transaction books %s %s, the generated transactions book %s (every posting on an Equity account is missing from the expansion; accrual account %s nets to %s instead of %s)",
				bad.acc, gen.DecString(c10Rat(sumO, bad)), bad.com, gen.DecString(c10Rat(sumG, bad)),
				t.Acc.Account, gen.DecString(c10Rat(sumG, c10Key{t.Acc.Account, bad.com})), gen.DecString(c10Rat(sumO, c10Key{t.Acc.Account, bad.com})))
		case k.acc == t.Acc.Account:
			return "accrual-account-not-zero", fmt.Sprintf("accrual account %s nets to %s %s over the generated transactions, expected %s",
				k.acc, gen.DecString(c10Rat(sumG, k)), k.com, gen.DecString(c10Rat(sumO, k)))
		default:
			return "conservation", fmt.Sprintf("account %s: original books %s %s, generated transactions book %s",
				k.acc, gen.DecString(c10Rat(sumO, k)), k.com, gen.DecString(c10Rat(sumG, k)))
		}
	}
	// 3. dating / splitting per (account, commodity) other than the accrual account
	periods := cal.Partition(t.Acc.Start, t.Acc.End, t.Iv, 0)
	isEnd := map[cal.Day]bool{}
	for _, p := range periods {
		isEnd[p.End] = true
	}
	nOrig := map[c10Key]int{}
	for _, p := range orig {
		nOrig[c10Key{p.Acc, p.Com}]++
	}
	byDate := map[c10Key]map[cal.Day]int{}
	for _, g := range G {
		for _, p := range g.Postings {
			k := c10Key{p.Acc, p.Com}
			if byDate[k] == nil {
				byDate[k] = map[cal.Day]int{}
			}
			byDate[k][g.Date]++
		}
	}
	for _, k := range ks {
		if k.acc == t.Acc.Account {
			continue
		}
		if equityDropped && c10Type(k.acc) == "Equity" {
			continue
		}
		n := nOrig[k]
		dates := byDate[k]
		if c10IsIE(k.acc) {
			for d, cnt := range dates {
				if !isEnd[d] {
					return "accrual-part-date", fmt.Sprintf("income/expense account %s receives %d %s posting(s) on %s, which is not a period end of %s %s..%s",
						k.acc, cnt, k.com, d, t.Acc.Interval, t.Acc.Start, t.Acc.End)
				}
			}
			for _, p := range periods {
				if dates[p.End] != n {
					return "accrual-part-count", fmt.Sprintf("income/expense account %s: %d original %s posting(s), but %d generated posting(s) on period end %s (%d periods in %s %s..%s)",
						k.acc, n, k.com, dates[p.End], p.End, len(periods), t.Acc.Interval, t.Acc.Start, t.Acc.End)
				}
			}
		} else {
			for d, cnt := range dates {
				if d != t.Date {
					return "leg-date-moved", fmt.Sprintf("account %s (not income/expense) receives %d %s posting(s) on %s, the original date is %s", k.acc, cnt, k.com, d, t.Date)
				}
			}
			// the number of postings on the original date is not judged: the
			// statement fixes their total (clause 2) and their date only
		}
	}
	return key, why
}

func c10FmtG(G []c10Gen) string {
	var b strings.Builder
	for _, g := range G {
		fmt.Fprintf(&b, "%s\n", g.Date)
		for _, p := range g.Postings {
			fmt.Fprintf(&b, "  %s %s %s\n", p.Acc, gen.DecString(p.Qty), p.Com)
		}
	}
	return b.String()
}

func (t c10Txn) nontrivial() bool {
	n := len(cal.Partition(t.Acc.Start, t.Acc.End, t.Iv, 0))
	ie := false
	for _, a := range t.bookingAccounts() {
		if c10IsIE(a) {
			ie = true
		}
	}
	return n >= 2 && ie || len(t.Bookings) >= 2
}

func (t c10Txn) observe(c *core.Ctx) {
	c.Observe("partition_size", fmt.Sprint(len(cal.Partition(t.Acc.Start, t.Acc.End, t.Iv, 0))))
	c.Observe("interval", t.Acc.Interval)
	c.Observe("accrual_account_type", c10Type(t.Acc.Account))
	for _, b := range t.Bookings {
		c.Observe("leg_pair", c10Type(b.Credit)+">"+c10Type(b.Debit))
	}
}

// ---------------------------------------------------------------- cases

func (k *c10) RunCase(c *core.Ctx, i int) {
	r := c.Rng(i, "txn")
	for n := 0; n < k.perCase; n++ {
		t := c10Make(r, "", false)
		viaParser := t.Iv >= cal.Daily && t.Iv <= cal.Quarterly && r.Intn(8) != 0
		c.Eval(1)
		t.observe(c)
		isLeg := false
		for _, a := range t.bookingAccounts() {
			if a == t.Acc.Account {
				isLeg = true
			}
		}
		if isLeg {
			c.Count("accrual_account_equals_leg", 1)
		}
		// O: the same text without the @accrue line must come out as the
		// abstract original (one transaction on the original date)
		O, otext, err := c10Lib(t, false, viaParser)
		if err == errNoLib {
			c.Count("lib_boundary_unavailable", 1)
			continue
		}
		if err != nil {
			c.Violation(core.Witness{Case: i, Key: "plain-transaction-rejected", Why: "the transaction without @accrue is rejected: " + err.Error(),
				Files: map[string][]byte{"t.knut": []byte(otext)}})
			return
		}
		if why := c10Plain(t, O); why != "" {
			c.Violation(core.Witness{Case: i, Key: "plain-transaction-misread", Why: why,
				Files: map[string][]byte{"t.knut": []byte(otext)}, Extra: map[string]string{"observed.txt": c10FmtG(O)}})
			return
		}
		G, text, err := c10Lib(t, true, viaParser)
		how := "parser.New(text).ParseFile + model.ParseDirective"
		if !viaParser {
			how = "hand-assembled syntax.Transaction + model.ParseDirective"
		}
		if err != nil {
			c.Violation(core.Witness{Case: i, Key: "accrual-rejected", Why: "expansion fails (" + how + "): " + err.Error(),
				Files: map[string][]byte{"t.knut": []byte(text)}})
			return
		}
		if key, why := c10Oracle(t, G); key != "" {
			c.Violation(core.Witness{Case: i, Key: key, Why: why + " [" + how + "]",
				Files: map[string][]byte{"t.knut": []byte(text)},
				Extra: map[string]string{"generated.txt": c10FmtG(G), "original.txt": c10FmtG(O)}})
			if key != "equity-leg-dropped" {
				return
			}
			c.Count("equity_leg_dropped_lib", 1)
			continue
		}
		if t.nontrivial() {
			c.Nontrivial(text)
		}
		if n == 0 && c.WantSample() && t.nontrivial() && len(G) <= 12 {
			c.Sample(map[string]any{"text": text, "via": how, "generated": c10FmtG(G)})
		}
	}
	if i%k.cliEach == 0 {
		k.runCLI(c, i)
	}
}

// c10Plain checks that the un-accrued text is read as the abstract original.
func c10Plain(t c10Txn, O []c10Gen) string {
	if len(O) != 1 {
		return fmt.Sprintf("the transaction without @accrue yields %d transactions", len(O))
	}
	if O[0].Date != t.Date {
		return fmt.Sprintf("the transaction without @accrue is dated %s, text says %s", O[0].Date, t.Date)
	}
	a, b := c10Sum(O[0].Postings), c10Sum(t.original())
	for k, v := range b {
		if c10Rat(a, k).Cmp(v) != 0 {
			return fmt.Sprintf("the transaction without @accrue books %s %s on %s, text says %s", gen.DecString(c10Rat(a, k)), k.com, k.acc, gen.DecString(v))
		}
	}
	for k, v := range a {
		if c10Rat(b, k).Cmp(v) != 0 {
			return fmt.Sprintf("the transaction without @accrue books %s %s on %s, text says %s", gen.DecString(v), k.com, k.acc, gen.DecString(c10Rat(b, k)))
		}
	}
	return ""
}

// ---------------------------------------------------------------- CLI: knut print

var c10HeadRe = regexp.MustCompile(`^(\d{4}-\d{2}-\d{2}) "(.*)"$`)
var c10DirRe = regexp.MustCompile(`^\d{4}-\d{2}-\d{2} (open|close|price|balance)\b`)

// c10ReadPrint reads the transactions of `knut print` output.
func c10ReadPrint(out string) ([]c10Gen, error) {
	var res []c10Gen
	var cur *c10Gen
	flush := func() {
		if cur != nil {
			res = append(res, *cur)
			cur = nil
		}
	}
	for ln, line := range strings.Split(out, "\n") {
		line = strings.TrimRight(line, " \t\r")
		switch {
		case line == "":
			flush()
		case c10HeadRe.MatchString(line):
			flush()
			m := c10HeadRe.FindStringSubmatch(line)
			d, err := cal.Parse(m[1])
			if err != nil {
				return nil, fmt.Errorf("line %d: %v", ln+1, err)
			}
			cur = &c10Gen{Date: d}
		case c10DirRe.MatchString(line) || strings.HasPrefix(line, "@"):
			flush()
		case cur != nil:
			f := strings.Fields(line)
			if len(f) != 4 {
				return nil, fmt.Errorf("line %d: booking line with %d fields: %q", ln+1, len(f), line)
			}
			q, ok := new(big.Rat).SetString(f[2])
			if !ok {
				return nil, fmt.Errorf("line %d: quantity %q", ln+1, f[2])
			}
			cur.Postings = append(cur.Postings, c10Posting{f[0], f[3], new(big.Rat).Neg(q)}, c10Posting{f[1], f[3], q})
		default:
			return nil, fmt.Errorf("line %d: unexpected line %q", ln+1, line)
		}
	}
	flush()
	return res, nil
}

func (k *c10) runCLI(c *core.Ctx, i int) {
	r := c.Rng(i, "cli")
	const groups = 6
	var ts []c10Txn
	var b strings.Builder
	opened := map[string]bool{}
	var body strings.Builder
	for g := 0; g < groups; g++ {
		t := c10Make(r, fmt.Sprintf("K%d", g), true)
		ts = append(ts, t)
		for _, a := range t.accounts() {
			if !opened[a] {
				opened[a] = true
				if indexOfStr(t.ChildFirst, a) >= 0 {
					fmt.Fprintf(&b, "1900-01-01 open %s:Unterkonto\n", a)
				}
				fmt.Fprintf(&b, "1900-01-01 open %s\n", a)
			}
		}
		body.WriteString("\n" + t.text(true))
	}
	text := b.String() + body.String()
	dir := c.CaseDir(i)
	defer os.RemoveAll(dir)
	writeFile(dir, "j.knut", text)
	res := knut(c, dir, nil, "print", "j.knut")
	c.Eval(groups)
	w := core.Witness{Case: i, Files: map[string][]byte{"j.knut": []byte(text)}, Cmd: knutCmd(c, nil, "print", "j.knut"),
		Extra: map[string]string{"observed.txt": string(res.Stdout)}}
	if res.Class == "timeout" {
		c.Inconclusive(i, "print timed out")
		return
	}
	if res.Class != "ok" {
		w.Key, w.Why = "print-failed", "print fails on a journal with opened accounts and accrued transactions: "+fmtErr(res)
		c.Violation(w)
		return
	}
	all, err := c10ReadPrint(string(res.Stdout))
	if err != nil {
		w.Key, w.Why = "print-unreadable", "print output: "+err.Error()
		c.Violation(w)
		return
	}
	per := make([][]c10Gen, groups)
	for _, g := range all {
		grp := -1
		for _, p := range g.Postings {
			seg := strings.Split(p.Acc, ":")
			x := -2
			if len(seg) >= 2 && strings.HasPrefix(seg[1], "K") {
				fmt.Sscanf(seg[1], "K%d", &x)
			}
			if grp == -1 {
				grp = x
			} else if grp != x {
				grp = -3
			}
		}
		if grp < 0 || grp >= groups {
			w.Key, w.Why = "print-foreign-transaction", fmt.Sprintf("printed transaction of %s mixes the accounts of different source transactions or uses unknown accounts", g.Date)
			c.Violation(w)
			return
		}
		per[grp] = append(per[grp], g)
	}
	for g, t := range ts {
		t.observe(c)
		if key, why := c10Oracle(t, per[g]); key != "" {
			w.Key, w.Why = key, fmt.Sprintf("transaction %q: %s [knut print]", t.Desc, why)
			if key == "equity-leg-dropped" {
				// keep the reproducer small: this transaction alone
				var ob strings.Builder
				for _, a := range t.accounts() {
					fmt.Fprintf(&ob, "1900-01-01 open %s\n", a)
				}
				w.Files = map[string][]byte{"j.knut": []byte(ob.String() + "\n" + t.text(true))}
				w.Extra = map[string]string{"observed-for-this-transaction.txt": c10FmtG(per[g])}
				c.Violation(w)
				c.Count("equity_leg_dropped_cli", 1)
				continue
			}
			c.Violation(w)
			return
		}
		c.Count("cli_transactions_judged", 1)
		if t.nontrivial() {
			c.Nontrivial("cli|" + t.text(true))
		}
	}
}
