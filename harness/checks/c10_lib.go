//go:build !nolib

package checks

// The in-process (LIB) boundary of C10 (see c12_lib.go for the build-tag scheme).

import (
	"fmt"
	"math/big"
	"strings"

	"github.com/sboehler/knut/lib/model"
	"github.com/sboehler/knut/lib/model/registry"
	"github.com/sboehler/knut/lib/model/transaction"
	"github.com/sboehler/knut/lib/syntax"
	"github.com/sboehler/knut/lib/syntax/parser"
)

func c10LibRaw(t c10Txn, withAccrual, viaParser bool) ([]c10Gen, string, error) {
	reg := registry.New()
	for _, a := range t.ChildFirst {
		if _, err := reg.Accounts().Get(a + ":Unterkonto"); err != nil {
			return nil, "", err
		}
	}
	var ds []model.Directive
	var text string
	if viaParser {
		text = t.text(withAccrual)
		p := parser.New(text, "x")
		if err := p.Advance(); err != nil {
			return nil, text, err
		}
		f, err := p.ParseFile()
		if err != nil {
			return nil, text, err
		}
		for _, d := range f.Directives {
			m, err := model.ParseDirective(reg, d)
			if err != nil {
				return nil, text, err
			}
			ds = append(ds, m...)
		}
	} else {
		var b strings.Builder
		rg := func(s, sep string) syntax.Range {
			start := b.Len()
			b.WriteString(s)
			end := b.Len()
			b.WriteString(sep)
			return syntax.Range{Start: start, End: end, Path: "x"}
		}
		var st syntax.Transaction
		if withAccrual {
			kw := rg("@accrue", " ")
			st.Addons.Accrual.Interval = syntax.Interval{Range: rg(t.Acc.Interval, " ")}
			st.Addons.Accrual.Start = syntax.Date{Range: rg(t.Acc.Start.String(), " ")}
			st.Addons.Accrual.End = syntax.Date{Range: rg(t.Acc.End.String(), " ")}
			st.Addons.Accrual.Account = syntax.Account{Range: rg(t.Acc.Account, "\n")}
			st.Addons.Accrual.Range = syntax.Range{Start: kw.Start, End: st.Addons.Accrual.Account.End, Path: "x"}
			st.Addons.Range = st.Addons.Accrual.Range
		}
		st.Date = syntax.Date{Range: rg(t.Date.String(), " ")}
		q := rg(`"`+t.Desc+`"`, "\n")
		st.Description = syntax.QuotedString{Range: q, Content: syntax.Range{Start: q.Start + 1, End: q.End - 1, Path: "x"}}
		for _, bk := range t.Bookings {
			var sb syntax.Booking
			sb.Credit = syntax.Account{Range: rg(bk.Credit, " ")}
			sb.Debit = syntax.Account{Range: rg(bk.Debit, " ")}
			sb.Quantity = syntax.Decimal{Range: rg(bk.Qty, " ")}
			sb.Commodity = syntax.Commodity{Range: rg(bk.Com, "\n")}
			sb.Range = syntax.Range{Start: sb.Credit.Start, End: sb.Commodity.End, Path: "x"}
			st.Bookings = append(st.Bookings, sb)
		}
		text = b.String()
		// point every range at the finished carrier string
		fix := func(r *syntax.Range) { r.Text = text }
		fix(&st.Addons.Range)
		fix(&st.Addons.Accrual.Range)
		fix(&st.Addons.Accrual.Interval.Range)
		fix(&st.Addons.Accrual.Start.Range)
		fix(&st.Addons.Accrual.End.Range)
		fix(&st.Addons.Accrual.Account.Range)
		fix(&st.Date.Range)
		fix(&st.Description.Range)
		fix(&st.Description.Content)
		for i := range st.Bookings {
			fix(&st.Bookings[i].Range)
			fix(&st.Bookings[i].Credit.Range)
			fix(&st.Bookings[i].Debit.Range)
			fix(&st.Bookings[i].Quantity.Range)
			fix(&st.Bookings[i].Commodity.Range)
		}
		st.Range = syntax.Range{Start: 0, End: len(text), Path: "x", Text: text}
		m, err := model.ParseDirective(reg, syntax.Directive{Range: st.Range, Directive: st})
		if err != nil {
			return nil, text, err
		}
		ds = m
	}
	var res []c10Gen
	for _, d := range ds {
		tr, ok := d.(*transaction.Transaction)
		if !ok {
			return nil, text, fmt.Errorf("unexpected directive %T", d)
		}
		g := c10Gen{Date: c11Day(tr.Date)}
		for _, p := range tr.Postings {
			q, ok := new(big.Rat).SetString(p.Quantity.String())
			if !ok {
				return nil, text, fmt.Errorf("unreadable quantity %q", p.Quantity.String())
			}
			g.Postings = append(g.Postings, c10Posting{p.Account.Name(), p.Commodity.Name(), q})
		}
		res = append(res, g)
	}
	return res, text, nil
}
