//go:build nolib

package checks

func c10LibRaw(t c10Txn, withAccrual, viaParser bool) ([]c10Gen, string, error) {
	return nil, "", errNoLib
}
