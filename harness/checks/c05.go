package checks

import (
	"fmt"
	"os"
	"path/filepath"
	"regexp"
	"sort"
	"strings"

	"kverif/core"
	"kverif/gen"
)

// C05 — directive order and file layout do not matter.
type c05 struct{ variants int }

func init() { register("C05", func() core.Check { return &c05{} }) }

func (*c05) Level() string { return "exploration" }
func (*c05) Rule() string {
	return "case = base journal (accepted, or rejected through a planted lifecycle fault) x k variants (random permutation of the directives; random split over an include tree of depth <=4 / fan-out <=4 with ./x and zz/../x paths; both), each variant run under a drawn GOMAXPROCS and schedule-perturbation seed; oracle = check verdict equal, every balance report (6 flag sets, valued and unvalued) byte-identical to the base's, print equal after sorting directives inside each (date, kind) group; two prices for one commodity pair on one day are never generated; non-trivial = variant with >=2 files or a permutation that moves >=2 same-day directives, on a journal with >=8 directives; distinct = hash of variant files"
}

func (k *c05) Setup(c *core.Ctx) (int, error) {
	k.variants = c.N(8, 24)
	return c.N(160, 1500), nil
}

func (*c05) Finish(c *core.Ctx) {
	c.Assume("diagnostic texts of rejected journals are not compared, only the verdict")
}

var dateLine = regexp.MustCompile(`^\d{4}-\d\d-\d\d `)

// canonPrint splits print output into directives and sorts each (date, kind) group.
func canonPrint(out string) string {
	type block struct {
		date, kind string
		text       string
	}
	var blocks []block
	var pending []string // addon lines before a date line
	var cur *block
	flush := func() {
		if cur != nil {
			blocks = append(blocks, *cur)
			cur = nil
		}
	}
	for _, line := range strings.Split(out, "\n") {
		switch {
		case strings.HasPrefix(line, "@"):
			flush()
			pending = append(pending, line)
		case dateLine.MatchString(line):
			flush()
			fields := strings.Fields(line)
			kind := "txn"
			if len(fields) > 1 {
				switch fields[1] {
				case "open", "close", "price", "balance":
					kind = fields[1]
				}
			}
			cur = &block{date: fields[0], kind: kind, text: strings.Join(append(pending, line), "\n")}
			pending = nil
		case strings.TrimSpace(line) == "":
			// separator
		default:
			if cur != nil {
				cur.text += "\n" + strings.Join(strings.Fields(line), " ")
			}
		}
	}
	flush()
	kindRank := map[string]int{"price": 0, "open": 1, "txn": 2, "balance": 3, "close": 4}
	sort.SliceStable(blocks, func(a, b int) bool {
		if blocks[a].date != blocks[b].date {
			return blocks[a].date < blocks[b].date
		}
		if blocks[a].kind != blocks[b].kind {
			return kindRank[blocks[a].kind] < kindRank[blocks[b].kind]
		}
		return blocks[a].text < blocks[b].text
	})
	var b strings.Builder
	for _, bl := range blocks {
		// padding of booking lines depends only on the account set, but normalise anyway
		for _, l := range strings.Split(bl.text, "\n") {
			b.WriteString(strings.Join(strings.Fields(l), " "))
			b.WriteString("\n")
		}
		b.WriteString("\n")
	}
	return b.String()
}

func (k *c05) RunCase(c *core.Ctx, i int) {
	r := c.Rng(i, "journal")
	o := gen.DefaultOpts(r)
	o.Prices = r.Intn(3) != 0
	o.PriceGraph = r.Intn(3) == 0
	o.Small = o.Prices
	o.Lifecycle = true
	o.Assertions = true
	o.AssertFresh = r.Intn(2) == 0
	o.Accruals = r.Intn(3) == 0
	o.Perf = r.Intn(3) == 0
	o.Depth1 = r.Intn(4) == 0
	o.Days = 3 + r.Intn(10)
	j, info := gen.Accepted(r, o)
	rejected := false
	if r.Intn(5) == 0 && !o.Accruals {
		if m, _ := mutateLifecycle(r, j); m != nil {
			j, rejected = m, true
		}
	}
	to := (info.Dates[len(info.Dates)-1] + 40).String()
	v := info.Commodities[r.Intn(len(info.Commodities))]
	cmds := [][]string{
		{"check"},
		{"balance", "--to", to},
		{"balance", "--to", to, "-a", "--months", "--close=false"},
		{"balance", "--to", to, "--quarters", "--diff", "--csv"},
		{"print"},
	}
	if o.Prices {
		cmds = append(cmds,
			[]string{"balance", "--to", to, "-v", v, "-s", "."},
			[]string{"balance", "--to", to, "-v", v, "-a", "--months", "--csv"},
			[]string{"balance", "--to", to, "-v", v, "--weeks", "--last", "6", "--diff"},
		)
	}
	dir := c.CaseDir(i)
	defer os.RemoveAll(dir)
	baseDir := filepath.Join(dir, "base")
	baseFiles := map[string][]byte{"main.knut": []byte(j.Text())}
	// one case in eight carries a directive that cannot even be loaded (a syntax error): wherever
	// it ends up in an include tree, every command must still fail
	badLine := ""
	if r.Intn(8) == 0 {
		badLine = []string{"2020-01-01 opne Assets:X", "2020-01-01 price CHF", "2020-13-01 open Assets:X", "include \"not-there.knut\""}[r.Intn(4)]
		baseFiles["main.knut"] = append(baseFiles["main.knut"], []byte("\n\n"+badLine+"\n")...)
		rejected = true
	}
	core.WriteFiles(baseDir, baseFiles)
	type outcome struct {
		class string
		out   string
	}
	run := func(d string, env []string, args []string) outcome {
		res := knut(c, d, env, append(append([]string{}, args...), "main.knut")...)
		c.Eval(1)
		out := string(res.Stdout)
		if args[0] == "print" {
			out = canonPrint(out)
		}
		return outcome{res.Class, out}
	}
	base := make([]outcome, len(cmds))
	for ci, args := range cmds {
		base[ci] = run(baseDir, nil, args)
		if base[ci].class == "timeout" {
			c.Inconclusive(i, "base run timed out")
			return
		}
	}
	if (base[0].class == "ok") == rejected && !o.Accruals {
		// the verdict itself is C04's business; here only its stability matters
		c.Count("base_verdict_differs_from_generator_expectation", 1)
	}
	gmp := []string{"1", "2", "4", "16"}
	for vn := 0; vn < k.variants; vn++ {
		if c.OverBudget() {
			c.NotJudged(1)
			return
		}
		vr := c.Rng(i, fmt.Sprintf("variant%d", vn))
		vj := j.Clone()
		kind := vn % 3
		moved := 0
		if kind == 0 || kind == 2 {
			before := sameDayOrder(vj)
			vj.Shuffle(vr)
			moved = diffCount(before, sameDayOrder(vj))
		}
		var files map[string][]byte
		if kind == 1 || kind == 2 {
			if vr.Intn(4) == 0 {
				files = vj.SplitWide(vr)
			} else {
				files = vj.SplitTree(vr, 4, 4)
			}
		} else {
			files = map[string][]byte{"main.knut": []byte(vj.Text())}
		}
		if badLine != "" {
			var names []string
			for n := range files {
				names = append(names, n)
			}
			sort.Strings(names)
			n := names[vr.Intn(len(names))]
			files[n] = append(append([]byte{}, files[n]...), []byte("\n\n"+badLine+"\n")...)
		}
		vdir := filepath.Join(dir, fmt.Sprintf("v%d", vn))
		core.WriteFiles(vdir, files)
		env := []string{"GOMAXPROCS=" + gmp[vr.Intn(4)]}
		if vr.Intn(2) == 0 {
			env = append(env, fmt.Sprintf("KNUT_VERIF_SCHED=%d:300:300", vr.Intn(1<<30)))
		}
		for ci, args := range cmds {
			got := run(vdir, env, args)
			if got.class == "timeout" {
				// no verdict at all where the base journal got one: a hang counts when it
				// reproduces three times under the same environment
				hangs := 1
				for n := 0; n < 2; n++ {
					if run(vdir, env, args).class == "timeout" {
						hangs++
					}
				}
				if hangs < 3 {
					c.Inconclusive(i, fmt.Sprintf("variant run timed out %d of 3 times", hangs))
					continue
				}
				wf := map[string][]byte{}
				for n, b := range baseFiles {
					wf["base/"+n] = b
				}
				for n, b := range files {
					wf["variant/"+n] = b
				}
				c.Violation(core.Witness{Case: i, Key: args[0] + "-hang",
					Why: fmt.Sprintf("`knut %s main.knut` ends with class %s on the base journal but does not terminate (3 of 3 attempts, %v) on a variant that only %s",
						strings.Join(args, " "), base[ci].class, env, []string{"permutes the directives", "splits them over an include tree", "permutes and splits"}[kind]),
					Files: wf, Cmd: "(cd base && " + knutCmd(c, nil, append(args, "main.knut")...) + ") ; (cd variant && " + knutCmd(c, env, append(args, "main.knut")...) + ")"})
				return
			}
			if got.class == base[ci].class && got.out == base[ci].out {
				continue
			}
			key := args[0]
			if args[0] == "balance" {
				key = "balance-unvalued"
				for _, a := range args {
					if a == "-v" {
						key = "balance-valued"
					}
				}
			}
			if got.class != base[ci].class {
				key += "-verdict"
			}
			wf := map[string][]byte{}
			for n, b := range baseFiles {
				wf["base/"+n] = b
			}
			for n, b := range files {
				wf["variant/"+n] = b
			}
			c.Violation(core.Witness{Case: i, Key: key,
				Why: fmt.Sprintf("`knut %s main.knut` differs between the base journal and a variant that only %s: class %s vs %s; %s",
					strings.Join(args, " "), []string{"permutes the directives", "splits them over an include tree", "permutes and splits"}[kind],
					base[ci].class, got.class, firstDiff(base[ci].out, got.out)),
				Files: wf, Cmd: "(cd base && " + knutCmd(c, nil, append(args, "main.knut")...) + ") ; (cd variant && " + knutCmd(c, env, append(args, "main.knut")...) + ")",
				Extra: map[string]string{"base.out": base[ci].out, "variant.out": got.out}})
			return
		}
		if len(j.Dirs) >= 8 && (len(files) >= 2 || moved >= 2) {
			var names []string
			for n := range files {
				names = append(names, n)
			}
			sort.Strings(names)
			sig := ""
			for _, n := range names {
				sig += n + "\x00" + string(files[n]) + "\x00"
			}
			c.Nontrivial(sig)
			c.Observe("include_files", fmt.Sprint(len(files)))
		}
		os.RemoveAll(vdir)
	}
	if c.WantSample() {
		c.Sample(map[string]any{"base_journal": sampleJournal(j.Text()), "rejected_base": rejected, "commands": len(cmds), "variants": k.variants})
	}
}

// sameDayOrder lists, per (date, kind), the order of directive renderings.
func sameDayOrder(j *gen.Journal) []string {
	var res []string
	for _, d := range j.Dirs {
		res = append(res, fmt.Sprintf("%s|%d|%s", d.Date, d.Kind, gen.RenderDir(d)))
	}
	sort.SliceStable(res, func(a, b int) bool {
		return res[a][:12] < res[b][:12]
	})
	return res
}

func diffCount(a, b []string) int {
	n := 0
	for i := range a {
		if i < len(b) && a[i] != b[i] {
			n++
		}
	}
	return n
}
