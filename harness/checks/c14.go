package checks

import (
	"fmt"
	"math/rand"
	"os"
	"path/filepath"
	"strings"
	"time"

	"kverif/core"
	"kverif/gen"
)

// C14 — commands fail cleanly on every input.
type c14 struct{}

func init() { register("C14", func() core.Check { return &c14{} }) }

func (*c14) Level() string { return "exploration" }
func (*c14) Rule() string {
	return "case = one hostile scenario (random bytes; byte/token mutations and truncations of valid journals; semantic hostiles: inverted accrual windows, dates 0001-01-01 / 9999-12-31 / 2020-02-30 / 2020-13-45, transactions dated after today, 400-digit numbers, zero and negative prices, prices that underflow 8 decimals in the valuation commodity with a commodity priced only through them, 10^4 bookings; include graphs: self-include, 2- and 3-cycles, diamonds, missing file, directory, dangling symlink, unreadable file under a dropped uid, 200-deep chain, one bad leaf in a 40-file tree; several files on one format command line of which several are unparseable, with 1-3 workers; flag hostiles: absent optional flags, inverted windows, --last in {-5,0,10^9}, invalid regexes, -m garbage, unknown -v, --digits in {-3,40}, valid but unusual values (--remap / -m / --account / -s for every account type, repeated filters, other valuation commodities, --digits at the accepted bounds), and -m level / -m level:suffix / --last / --digits at the edges of the integer types (2^31-1, 2^31, 2^32, 2^63-1, 2^63, 2^64-1, 2^64, -2^63, signs, hex, exponent, padded and non-ASCII digits); empty journal; nonexistent file) x every journal-processing command (check, check --write, balance with and without --to, print, format, infer, transcode, portfolio weights, portfolio returns); oracle = process-outcome monitor: exit in {0,1}, no panic / fatal error / signal, watchdog 20 s (reproduced 3x = hang, else inconclusive), RSS <= 1 GB under a 4 GB address-space limit (a death at the limit with less than 512 MB resident is inconclusive: virtual address space is not memory), stderr non-empty on failure, stdout empty on failure of balance / print / transcode / infer / check --write, and failure whenever a bad file is planted in the include graph; non-trivial = run that reached a failure path (exit 1) or parsed >= 1 directive; distinct = scenario kind + command + outcome class + input hash"
}

func (k *c14) Setup(c *core.Ctx) (int, error) { return c.N(700, 20000), nil }

func (*c14) Finish(c *core.Ctx) {
	c.Assume("a file-size / address-space limit stands in for memory exhaustion; knut fetch (network) is out of scope; `portfolio returns` prints while processing and is exempt from the empty-stdout rule (as are check without --write and format, which print nothing anyway)")
}

type c14Scenario struct {
	kind     string
	files    map[string][]byte
	symlinks map[string]string
	main     string              // journal argument
	mustFail bool                // a bad file / bad directive is planted: exit must be non-zero
	onlyCmds []string            // restrict to these commands ("" = all)
	flags    map[string][]string // extra flags per command key (hostile flags)
	uid      int
	unread   []string // files to chmod 000
	more     []string // further file arguments (format only)
	procs    string   // GOMAXPROCS for this scenario ("" = the per-case rotation)
}

var c14Valid = `2020-01-01 open Assets:Bank
2020-01-01 open Assets:Depot
2020-01-01 open Expenses:Food
2020-01-01 open Expenses:TBD
2020-01-01 open Income:Salary
2020-01-01 open Equity:Equity
2020-01-01 price USD 0.9 CHF
2020-01-01 price AAPL 300 USD

2020-01-05 "salary january"
Income:Salary Assets:Bank 5000 CHF

@performance(AAPL)
2020-01-10 "buy apple"
Assets:Bank Assets:Depot 3 AAPL
Assets:Depot Assets:Bank 900 USD

@accrue monthly 2020-01-01 2020-06-30 Assets:Bank
2020-01-15 "insurance"
Assets:Bank Expenses:Food 600 CHF

2020-02-01 "migros food"
Assets:Bank Expenses:TBD 42.5 CHF

2020-02-01 price AAPL 310 USD

2020-02-02 balance Assets:Depot 3 AAPL
`

func (k *c14) scenario(c *core.Ctx, i int) c14Scenario {
	r := c.Rng(i, "scenario")
	sc := c14Scenario{files: map[string][]byte{}, main: "main.knut", flags: map[string][]string{}}
	valid := c14Valid
	if r.Intn(2) == 0 {
		o := gen.DefaultOpts(r)
		o.Prices, o.Accruals, o.Assertions, o.Lifecycle, o.Perf, o.Small = true, true, true, true, true, true
		o.Days = 3 + r.Intn(5)
		j, _ := gen.Accepted(r, o)
		valid = j.Text()
	}
	set := func(name, content string) { sc.files[name] = []byte(content) }
	switch pick := r.Intn(100); {
	case pick < 8:
		sc.kind = "random-bytes"
		b := make([]byte, r.Intn(65))
		r.Read(b)
		sc.files["main.knut"] = b
	case pick < 30:
		sc.kind = "byte-mutation"
		b := []byte(valid)
		for n := 1 + r.Intn(3); n > 0 && len(b) > 0; n-- {
			pos := r.Intn(len(b))
			switch r.Intn(6) {
			case 0:
				b[pos] ^= 1 << uint(r.Intn(8))
			case 1:
				b = append(b[:pos:pos], b[pos+1:]...)
			case 2:
				ins := [][]byte{{0xff}, {0}, {0xc0, 0x80}, {0xed, 0xa0, 0x80}, {'\r'}, {'"'}, {'@'}, {0xef, 0xbb, 0xbf}, {'\t'}, {'\n', '\n'}, {'-'}}[r.Intn(11)]
				b = append(b[:pos:pos], append(append([]byte{}, ins...), b[pos:]...)...)
			case 3:
				b = b[:pos]
			case 4:
				// duplicate a line
				ls := strings.Split(string(b), "\n")
				li := r.Intn(len(ls))
				ls = append(ls[:li+1], ls[li:]...)
				b = []byte(strings.Join(ls, "\n"))
			case 5:
				// swap two lines
				ls := strings.Split(string(b), "\n")
				a1, a2 := r.Intn(len(ls)), r.Intn(len(ls))
				ls[a1], ls[a2] = ls[a2], ls[a1]
				b = []byte(strings.Join(ls, "\n"))
			}
		}
		sc.files["main.knut"] = b
	case pick < 50:
		sc.kind = "semantic"
		date := []string{"0001-01-01", "9999-12-31", "2020-02-30", "2020-13-45", "0000-00-00", "2020-00-10"}[r.Intn(6)]
		big400 := strings.Repeat("9", 400)
		var body string
		switch r.Intn(16) {
		case 14, 15:
			// prices that vanish at 8 decimals in the valuation commodity, and a commodity priced only through them
			sc.kind = "semantic-price-underflow"
			big := []string{"260000000", "100000001", "99999999999", "1500000000.5"}[r.Intn(4)]
			// at and below the 8th decimal: a price that is not zero but has no digit left at scale 8
			tiny := []string{"0.00000001", "0.000000009", "0.0000000001", "0.00000000999999", "0.000000000000000000001"}[r.Intn(5)]
			body = "2020-01-02 price CHF " + big + " IDR\n2020-01-02 price BBCA 8550 IDR\n2020-01-02 price XAU " + tiny + " IDR\n\n2020-02-01 \"cheap\"\nAssets:Bank Expenses:Food 1000 IDR\n\n2020-02-02 \"via cheap\"\nAssets:Bank Assets:Depot 3 BBCA\n\n2020-03-01 price BBCA 8600 IDR\n"
		case 12, 13:
			// a transaction dated after today: beyond the default window
			fd := []string{"2999-01-01", "9999-12-31", "2300-06-15", "2262-04-12"}[r.Intn(4)]
			sc.kind = "semantic-future-transaction-" + fd
			body = fd + " \"x\"\nAssets:Bank Expenses:Food 1 CHF\n"
		case 0:
			sc.kind = "semantic-accrual-inverted"
			body = "@accrue " + []string{"daily", "weekly", "monthly", "quarterly"}[r.Intn(4)] + " 2020-06-30 2020-01-01 Assets:Bank\n2020-01-15 \"x\"\nAssets:Bank Expenses:Food 600 CHF\n"
		case 1:
			sc.kind = "semantic-date-" + date
			body = date + " \"x\"\nAssets:Bank Expenses:Food 1 CHF\n"
			if date == "0001-01-01" || date == "9999-12-31" {
				body = date + " open Assets:Old\n" + date + " open Expenses:Old\n\n" + date + " \"x\"\nAssets:Old Expenses:Old 1 CHF\n"
			}
		case 2:
			sc.kind = "semantic-date-open-" + date
			body = date + " open Assets:Other\n"
		case 3:
			sc.kind = "semantic-date-price-" + date
			body = date + " price USD 1.1 CHF\n"
		case 4:
			sc.kind = "semantic-huge-number"
			body = "2020-03-01 \"x\"\nAssets:Bank Expenses:Food " + big400 + "." + big400 + " CHF\n"
		case 5:
			sc.kind = "semantic-zero-price"
			body = "2020-03-01 price USD 0 CHF\n"
			sc.onlyCmds = []string{"balance-v", "transcode", "weights", "returns"}
		case 6:
			sc.kind = "semantic-negative-price"
			body = "2020-03-01 price USD -2 CHF\n"
		case 7:
			sc.kind = "semantic-many-bookings"
			var b strings.Builder
			b.WriteString("2020-03-01 \"x\"\n")
			for n := 0; n < 10000; n++ {
				fmt.Fprintf(&b, "Assets:Bank Expenses:Food %d CHF\n", n)
			}
			body = b.String()
		case 8:
			sc.kind = "semantic-accrual-date-" + date
			body = "@accrue monthly " + date + " 2020-06-30 Assets:Bank\n2020-01-15 \"x\"\nAssets:Bank Expenses:Food 600 CHF\n"
		case 9:
			sc.kind = "semantic-accrual-huge-window"
			body = "@accrue daily 1900-01-01 2100-12-31 Assets:Bank\n2020-01-15 \"x\"\nAssets:Bank Expenses:Food 600 CHF\n"
		case 10:
			sc.kind = "semantic-bad-account-type"
			body = "2020-03-01 open Foo:Bar\n"
			sc.mustFail = true
		case 11:
			sc.kind = "semantic-huge-price"
			body = "2020-03-01 price USD " + big400 + " CHF\n"
		}
		set("main.knut", c14Valid+"\n"+body)
		if strings.Contains(sc.kind, "2020-02-30") || strings.Contains(sc.kind, "2020-13-45") || strings.Contains(sc.kind, "0000-00-00") || strings.Contains(sc.kind, "2020-00-10") {
			sc.mustFail = true
		}
	case pick < 75:
		sc.kind = "include"
		switch r.Intn(13) {
		case 11, 12:
			// wide and nested: the root includes many files, each of which includes a leaf
			// at its end (so every parser is still busy when it spawns the next one)
			width := []int{9, 20, 33, 50, 80}[r.Intn(5)]
			sc.kind = fmt.Sprintf("include-wide-nested-%d", width)
			var b strings.Builder
			b.WriteString(valid + "\n")
			bad := -1
			if r.Intn(2) == 0 {
				bad = r.Intn(width)
				sc.kind = fmt.Sprintf("include-wide-nested-bad-leaf-%d", width)
				sc.mustFail = true
			}
			for d := 0; d < width; d++ {
				fmt.Fprintf(&b, "include \"w/mid%d.knut\"\n", d)
				var mid strings.Builder
				for n := 0; n < 40; n++ {
					fmt.Fprintf(&mid, "2020-01-%02d price P%dx%d 1.%d CHF\n", 1+n%28, d, n, n)
				}
				fmt.Fprintf(&mid, "include \"leaf%d.knut\"\n", d)
				set(fmt.Sprintf("w/mid%d.knut", d), mid.String())
				leaf := fmt.Sprintf("2020-02-%02d price Q%d 2 CHF\n", 1+d%28, d)
				if d == bad {
					leaf = "2020-02-01 price Q CHF\n"
				}
				set(fmt.Sprintf("w/leaf%d.knut", d), leaf)
			}
			set("main.knut", b.String())
		case 0:
			sc.kind = "include-self"
			set("main.knut", valid+"\ninclude \"main.knut\"\n")
		case 1:
			sc.kind = "include-cycle2"
			set("main.knut", valid+"\ninclude \"a.knut\"\n")
			set("a.knut", "include \"main.knut\"\n")
		case 2:
			sc.kind = "include-cycle3"
			set("main.knut", valid+"\ninclude \"sub/a.knut\"\n")
			set("sub/a.knut", "include \"b.knut\"\n")
			set("sub/b.knut", "include \"../main.knut\"\n")
		case 3:
			sc.kind = "include-diamond"
			set("main.knut", "include \"a.knut\"\ninclude \"b.knut\"\n")
			set("a.knut", "include \"c.knut\"\n")
			set("b.knut", "include \"c.knut\"\n")
			set("c.knut", "2020-01-01 price USD 0.9 CHF\n")
			// the shared file is loaded twice: whether that is an error (e.g. accounts
			// opened twice) depends on its content; a price-only file must work
		case 4:
			sc.kind = "include-missing"
			set("main.knut", valid+"\ninclude \"nothere.knut\"\n")
			sc.mustFail = true
		case 5:
			sc.kind = "include-directory"
			set("main.knut", valid+"\ninclude \"d\"\n")
			set("d/x.knut", "")
			sc.mustFail = true
		case 6:
			sc.kind = "include-dangling-symlink"
			set("main.knut", valid+"\ninclude \"link.knut\"\n")
			sc.symlinks = map[string]string{"link.knut": "gone.knut"}
			sc.mustFail = true
		case 7:
			sc.kind = "include-unreadable"
			set("main.knut", valid+"\ninclude \"secret.knut\"\n")
			set("secret.knut", "2020-01-01 price EUR 1.1 CHF\n")
			sc.unread = []string{"secret.knut"}
			sc.uid = 65534
			sc.mustFail = true
		case 8:
			sc.kind = "include-deep-chain"
			n := 200
			for d := 0; d < n; d++ {
				name := fmt.Sprintf("f%d.knut", d)
				if d == 0 {
					name = "main.knut"
				}
				content := fmt.Sprintf("include \"f%d.knut\"\n", d+1)
				if d == 0 {
					content = valid + "\n" + content
				}
				set(name, content)
			}
			set(fmt.Sprintf("f%d.knut", n), "2020-01-01 price EUR 1.1 CHF\n")
		case 9:
			sc.kind = "include-bad-leaf"
			var b strings.Builder
			b.WriteString(valid + "\n")
			bad := r.Intn(40)
			for d := 0; d < 40; d++ {
				fmt.Fprintf(&b, "include \"leaf%d.knut\"\n", d)
				content := fmt.Sprintf("2020-01-%02d price EUR 1.%d CHF\n", 1+d%28, d)
				if d == bad {
					v := r.Intn(5)
					content = []string{"2020-01-01 price EUR CHF\n", "2020-01-01 \"unterminated\nA B 1 CHF\n", "\xff\xfe\n", "2020-13-45 price EUR 1 CHF\n", "2020-01-01 open Nonsense:Account\n"}[v]
					if v >= 3 {
						sc.kind = "semantic-include-bad-leaf"
					}
				}
				set(fmt.Sprintf("leaf%d.knut", d), content)
			}
			set("main.knut", b.String())
			sc.mustFail = true
		case 10:
			sc.kind = "include-empty-path"
			set("main.knut", valid+"\ninclude \"\"\n")
			sc.mustFail = true
		}
	case pick < 78:
		// several files on one format command line, several of them unparseable, few workers
		sc.kind = "format-many-files"
		sc.onlyCmds = []string{"format"}
		n := 2 + r.Intn(7)
		nbad := 1 + r.Intn(n)
		for f := 0; f < n; f++ {
			name := fmt.Sprintf("f%d.knut", f)
			text := valid
			if f < nbad {
				text = []string{valid[:len(valid)/2+r.Intn(len(valid)/3)] + "\n)(\n", "2020-01-01 opne Assets:X\n" + valid, valid + "\n2020-01-01 \"unterminated\nA B 1 CHF\n", "\xff\xfe" + valid}[r.Intn(4)]
			}
			set(name, text)
			if f > 0 {
				sc.more = append(sc.more, name)
			}
		}
		r.Shuffle(len(sc.more), func(a, b int) { sc.more[a], sc.more[b] = sc.more[b], sc.more[a] })
		sc.main = "f0.knut"
		sc.mustFail = true
		sc.procs = []string{"1", "1", "2", "3"}[r.Intn(4)]
	case pick < 95:
		sc.kind = "flags"
		set("main.knut", valid)
		bad := [][]string{
			{"--from", "2021-01-01", "--to", "2019-01-01"},
			{"--last", "-5"}, {"--last", "0"}, {"--last", "1000000000", "--days"},
			{"--account", "("}, {"--commodity", "[a-"},
			{"-m", "x"}, {"-m", "1:2:3,foo"}, {"-m", "-1,Assets"}, {"-m", "2:-1,Assets"}, {"-m", "99:99"}, {"-m", "1,("},
			{"-v", "NOPE"}, {"-v", "no-such"}, {"-v", ""},
			{"--digits", "-3"}, {"--digits", "40"},
			{"--from", "2020-01-10", "--to", "2020-01-10"},
			{"--from", "0001-01-01"}, {"--to", "0001-01-01"}, {"--to", "9999-12-31", "--years"},
			{"--from", "garbage"}, {"--weeks", "--months"},
			{"--remap", "["}, {"-s", "("},
			{"--universe", "nothere.yaml"}, {"--universe", "main.knut"},
			// valid values that reach code the defaults do not: every account type remapped / mapped /
			// hidden / filtered, repeated filters, every valuation commodity
			{"--remap", "."}, {"--remap", "Equity"}, {"--remap", "Assets"}, {"--remap", "Income|Expenses"}, {"--remap", "Liabilities", "--remap", "Equity"},
			{"-m", "0,."}, {"-m", "0,Equity"}, {"-m", "1,.", "-m", "0,Assets"}, {"-m", "1:1,."}, {"-m", "2:2"},
			{"--account", "Equity"}, {"--account", "Assets", "--account", "Income"}, {"--commodity", "CHF", "--commodity", "USD"}, {"--account", "$^"},
			{"-s", "Equity"}, {"-s", ".", "-v", "USD"}, {"-v", "EUR"}, {"--diff", "--days"}, {"--last", "1", "--years"}, {"--close=false", "--weeks", "--last", "2"},
			{"--digits", "1000"}, {"--digits", "-1000"}, {"-k", "--digits", "3"}, {"--csv", "--diff", "--quarters"}, {"-a", "--months"},
		}
		// numeric flags at the edges of the integer types they are parsed into
		edges := []string{"2147483647", "2147483648", "4294967295", "4294967296", "9223372036854775807", "9223372036854775808",
			"18446744073709551615", "18446744073709551616", "-9223372036854775808", "-2147483648", "-2147483649", "+3", "0x10", "1e3", "00000000000000000002", " 2", "2 ", "٣"}
		for _, e := range edges {
			bad = append(bad, []string{"-m", e + ",Assets"}, []string{"-m", "1:" + e + ",Assets"}, []string{"-m", e + ":" + e},
				[]string{"--last", e}, []string{"--digits", e})
		}
		b := bad[r.Intn(len(bad))]
		sc.kind = "flags " + strings.Join(b, " ")
		for _, cmd := range []string{"balance", "balance-v", "weights", "returns"} {
			sc.flags[cmd] = b
		}
	default:
		switch r.Intn(4) {
		case 0:
			sc.kind = "empty-journal"
			set("main.knut", "")
		case 1:
			sc.kind = "nonexistent-file"
			sc.main = "nothere.knut"
			sc.mustFail = true
		case 2:
			sc.kind = "only-comments"
			set("main.knut", "# nothing\n* heading\n// c\n\n")
		case 3:
			sc.kind = "only-opens"
			set("main.knut", "2020-01-01 open Assets:Bank\n2020-01-01 price USD 1 CHF\n")
		}
	}
	return sc
}

type c14Cmd struct {
	key         string
	args        []string // without the journal argument
	stdoutEmpty bool     // on failure stdout must be empty
	usesFlags   bool
}

func c14Commands(r *rand.Rand) []c14Cmd {
	to := []string{"--to", "2021-01-01"}
	cmds := []c14Cmd{
		{key: "check", args: []string{"check"}},
		{key: "check-write", args: []string{"check", "--write"}, stdoutEmpty: true},
		{key: "balance", args: append([]string{"balance"}, to...), stdoutEmpty: true},
		{key: "balance-v", args: append([]string{"balance", "-v", "CHF", "--months"}, to...), stdoutEmpty: true},
		{key: "print", args: []string{"print"}, stdoutEmpty: true},
		{key: "transcode", args: []string{"transcode", "-v", "CHF"}, stdoutEmpty: true},
		{key: "transcode-nov", args: []string{"transcode"}, stdoutEmpty: true},
		{key: "infer", args: []string{"infer", "-t", "main.knut"}, stdoutEmpty: true},
		{key: "infer-notrain", args: []string{"infer"}, stdoutEmpty: true},
		{key: "weights", args: append([]string{"portfolio", "weights", "-v", "CHF", "--months"}, to...)},
		{key: "weights-nov", args: append([]string{"portfolio", "weights"}, to...)},
		{key: "returns", args: append([]string{"portfolio", "returns", "-v", "CHF", "--months"}, to...)},
		{key: "returns-nov", args: append([]string{"portfolio", "returns"}, to...)},
		{key: "format", args: []string{"format"}},
		// without --to the window ends today: directives dated in the future lie beyond it
		{key: "balance-default-window", args: []string{"balance"}, stdoutEmpty: true},
		{key: "balance-v-default-window", args: []string{"balance", "-v", "CHF", "--years"}, stdoutEmpty: true},
		{key: "weights-default-window", args: []string{"portfolio", "weights", "-v", "CHF", "--years"}},
	}
	return cmds
}

func (k *c14) RunCase(c *core.Ctx, i int) {
	if c.Counter("confirmed_hangs") >= 6 {
		// the verdict is already "violated"; every further hang costs a minute of watchdog time
		c.NotJudged(1)
		c.Count("cases_skipped_after_repeated_hangs", 1)
		return
	}
	sc := k.scenario(c, i)
	dir := c.CaseDir(i)
	defer func() {
		for _, u := range sc.unread {
			os.Chmod(filepath.Join(dir, u), 0o644)
		}
		os.RemoveAll(dir)
	}()
	core.WriteFiles(dir, sc.files)
	for name, target := range sc.symlinks {
		os.Symlink(target, filepath.Join(dir, name))
	}
	for _, u := range sc.unread {
		os.Chmod(filepath.Join(dir, u), 0o000)
	}
	if sc.uid != 0 {
		os.Chmod(dir, 0o777)
	}
	r := c.Rng(i, "cmds")
	for _, cmd := range c14Commands(r) {
		if len(sc.onlyCmds) > 0 && indexOfStr(sc.onlyCmds, cmd.key) < 0 {
			continue
		}
		if strings.HasPrefix(sc.kind, "flags") {
			if _, ok := sc.flags[cmd.key]; !ok {
				continue
			}
		}
		args := append([]string{}, cmd.args...)
		// hostile flags replace the defaults of the same name
		if hf := sc.flags[cmd.key]; len(hf) > 0 {
			args = mergeFlags(args, hf)
		}
		target := sc.main
		if cmd.key == "format" {
			// format rewrites its argument: work on a copy
			if b, ok := sc.files[sc.main]; ok {
				os.WriteFile(filepath.Join(dir, "fmt-copy.knut"), b, 0o666)
				target = "fmt-copy.knut"
			}
		}
		args = append(args, target)
		if cmd.key == "format" {
			args = append(args, sc.more...)
		}
		// the number of CPUs is part of the configuration: a third of the cases run on one or two
		env := []string{"GOMAXPROCS=" + []string{"1", "2", "16", "16", "16", "4"}[i%6]}
		if sc.procs != "" {
			env = []string{"GOMAXPROCS=" + sc.procs}
		}
		ex := core.Cmd{Argv: append([]string{c.Knut}, args...), Dir: dir, Env: env, Timeout: 20 * time.Second, ASLimit: 4 << 30, Fsize: -1, UID: sc.uid}
		res := execCounted(c, ex)
		c.Eval(1)
		input := sc.files[sc.main]
		why, key := "", ""
		switch {
		case res.Class == "starterror":
			// the harness could not start the process (e.g. the scratch directory is not
			// reachable for the dropped uid in this environment): nothing was observed
			c.Inconclusive(i, fmt.Sprintf("%s %s: could not start: %v", sc.kind, cmd.key, res.Err))
			continue
		case res.Class == "timeout":
			// must reproduce three times to count as a hang
			hangs := 1
			for n := 0; n < 2; n++ {
				if core.Exec(ex).Class == "timeout" {
					hangs++
				}
			}
			if hangs < 3 {
				c.Inconclusive(i, fmt.Sprintf("%s %s: watchdog fired %d of 3 times", sc.kind, cmd.key, hangs))
				continue
			}
			why, key = "the command does not terminate within 20 s (3 of 3 attempts)", "hang"
			c.Count("confirmed_hangs", 1)
		case res.Class == "panic" && (strings.Contains(string(res.Stderr), "out of memory") || strings.Contains(string(res.Stderr), "cannot allocate") || strings.Contains(string(res.Stderr), "failed to create new OS thread")) && res.MaxRSSKB < 512<<10:
			// killed by the address-space limit while using little memory: the limit counts
			// reserved virtual address space (thread stacks, arenas), not memory in use
			c.Inconclusive(i, fmt.Sprintf("%s %s: address-space limit hit at %d MB resident", sc.kind, cmd.key, res.MaxRSSKB>>10))
			continue
		case res.Class == "panic":
			why, key = "the command panics / dies with a runtime error: "+core.Trunc(firstLines(string(res.Stderr), 3), 300), "panic"
			if strings.Contains(string(res.Stderr), "out of memory") || strings.Contains(string(res.Stderr), "cannot allocate") {
				key = "memory"
			}
		case res.Class == "signal":
			why, key = fmt.Sprintf("the command is killed by signal %v", res.Signal), "signal"
		case res.Class != "ok" && res.Class != "error":
			why, key = "unexpected exit status: "+fmtErr(res), "exit-status"
		case res.MaxRSSKB > 1<<20:
			why, key = fmt.Sprintf("the command used %d MB of memory on a %d-byte input", res.MaxRSSKB>>10, len(input)), "memory"
		case res.Class == "error" && len(strings.TrimSpace(string(res.Stderr))) == 0:
			why, key = "non-zero exit without a diagnostic on stderr", "silent-failure"
		case res.Class == "error" && cmd.stdoutEmpty && len(res.Stdout) > 0:
			why, key = "the command fails but has already written to stdout: "+core.Trunc(string(res.Stdout), 200), "stdout-on-failure"
		case res.Class == "ok" && sc.mustFail && strings.HasPrefix(sc.kind, "semantic") && (cmd.key == "infer" || cmd.key == "format"):
			// format and infer work on the syntax tree only; a date or account that is
			// lexically fine but semantically invalid is not their business
		case res.Class == "ok" && sc.mustFail && !(cmd.key == "format" || strings.HasSuffix(cmd.key, "-nov") || cmd.key == "infer-notrain"):
			why, key = "a bad file or directive is planted in the journal's include graph but the command succeeds", "bad-input-accepted"
		case res.Class == "ok" && sc.mustFail && cmd.key == "format" && !strings.HasPrefix(sc.kind, "include") && !strings.HasPrefix(sc.kind, "semantic"):
			why, key = "format succeeds on an input that cannot be read", "bad-input-accepted"
		}
		if why != "" {
			fullKey := c14KindKey(sc.kind) + ":" + cmd.key + ":" + key
			c.Violation(core.Witness{Case: i, Key: fullKey,
				Why:   fmt.Sprintf("scenario %q, `knut %s`: %s", sc.kind, strings.Join(args, " "), why),
				Files: sc.files, Cmd: knutCmd(c, env, args...),
				Extra: map[string]string{"stderr.txt": core.Trunc(string(res.Stderr), 20000), "stdout.txt": core.Trunc(string(res.Stdout), 20000)}})
			if key == "hang" || key == "memory" {
				// the remaining commands load the same journal; do not spend minutes re-finding it
				c.Count("cases_cut_short_after_hang_or_memory", 1)
				return
			}
			continue
		}
		c.Observe("outcomes", c14KindKey(sc.kind)+":"+cmd.key+":"+res.Class)
		if res.Class == "error" || len(res.Stdout) > 0 {
			c.Nontrivial(fmt.Sprintf("%s|%s|%s|%x", sc.kind, cmd.key, res.Class, input))
		}
		if c.WantSample() && res.Class == "error" && i%50 == 3 {
			c.Sample(map[string]any{"scenario": sc.kind, "argv": strings.Join(args, " "), "exit": res.Exit, "stderr": core.Trunc(string(res.Stderr), 300), "input": core.Trunc(string(input), 400)})
		}
	}
}

func c14KindKey(kind string) string {
	if strings.HasPrefix(kind, "flags ") {
		f := strings.Fields(kind)
		return "flags" + f[1]
	}
	return kind
}

func firstLines(s string, n int) string {
	ls := strings.Split(s, "\n")
	if len(ls) > n {
		ls = ls[:n]
	}
	return strings.Join(ls, " / ")
}

func indexOfStr(xs []string, x string) int {
	for i, y := range xs {
		if x == y {
			return i
		}
	}
	return -1
}

// mergeFlags appends hostile flags, dropping defaults they override.
func mergeFlags(args, hostile []string) []string {
	drop := map[string]bool{}
	for _, h := range hostile {
		if strings.HasPrefix(h, "-") {
			drop[h] = true
		}
	}
	interval := map[string]bool{"--days": true, "--weeks": true, "--months": true, "--quarters": true, "--years": true}
	hostileInterval := false
	for _, h := range hostile {
		if interval[h] {
			hostileInterval = true
		}
	}
	var res []string
	for i := 0; i < len(args); i++ {
		a := args[i]
		if drop[a] && (a == "--to" || a == "--from" || a == "-v") {
			i++
			continue
		}
		if hostileInterval && interval[a] {
			continue
		}
		res = append(res, a)
	}
	return append(res, hostile...)
}
