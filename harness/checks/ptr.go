package checks

import "unsafe"

// ptrID turns a pointer into an identity for recorded histories.
func ptrID[T any](p *T) uintptr { return uintptr(unsafe.Pointer(p)) }
