package checks

import (
	"bytes"
	"fmt"
	"math/rand"
	"os"
	"path"
	"path/filepath"
	"regexp"
	"sort"
	"strconv"
	"strings"
	"sync"
	"syscall"
	"time"

	"kverif/core"
	"kverif/gen"
	"kverif/syn"
)

// C18 — in-place rewrites are all-or-nothing.
//
// Boundary: the CLI (`knut format f...`, `knut infer --inplace -t TRAIN f`) on
// scratch files, under faults injected by the OS: a file-size limit of k bytes
// (the write of the new contents is cut after k bytes), a directory the
// process may not write (uid 65534), SIGKILL on entry to the i-th call of the
// system calls of the rewrite (strace), inputs the parser rejects, and several
// files in one invocation. The oracle reads the bytes (and, for the "fails
// before writing" clause, the mode) of the files afterwards and compares them
// with T (what the harness wrote) and F (what an un-faulted run of the same
// command produced on a copy). A syscall-trace monitor corroborates the
// mechanism; it never raises an alarm on its own.
type c18 struct {
	cases    []c18case
	uidOK    bool
	straceOK bool

	mu      sync.Mutex
	sampled map[string]bool
	only    map[string]bool // KV_C18_FAULTS=fsize,perm,kill restricts the fault kinds (sensitivity experiments)
}

func (k *c18) on(kind string) bool { return k.only == nil || k.only[kind] }

// sampleOnce keeps one sample per fault kind.
func (k *c18) sampleOnce(c *core.Ctx, kind string, mk func() any) {
	k.mu.Lock()
	if k.sampled == nil {
		k.sampled = map[string]bool{}
	}
	done := k.sampled[kind]
	k.sampled[kind] = true
	k.mu.Unlock()
	if !done {
		c.Sample(mk())
	}
}

type c18case struct {
	kind   string // format | format-bad | format-multi | infer | infer-pre
	jid    int    // journal id: the PRNG stream of the texts (chunks of one journal share it)
	size   int    // target size of T in bytes
	everyK bool   // enumerate every k of this case's chunk
	chunk  int    // chunk of the k range (thorough; chunk 0 also runs the other faults)
	chunks int
}

func init() { register("C18", func() core.Check { return &c18{} }) }

func (*c18) Level() string { return "fault_enumeration" }
func (*c18) Rule() string {
	return "case = one rewrite scenario: journal text T (gen.Accepted directives concatenated up to a target size of 100 B .. 64 KB, thorough up to 1 MB; rendered with random runs of blanks, canonically, or by the C08 layout generator) whose new contents F (un-faulted `knut format` of a copy; for infer: stdout of `knut infer -t TRAIN TARGET`, two runs that must agree) differ from T, x faults: (1) RLIMIT_FSIZE=k (thorough: every k in [0,len F] for texts up to ~12 KB, boundary + page-boundary + random k for larger ones; quick: 0,1,len/2,len-1,len,len+1,around len T and 12 random k), (2) directory mode 0555 / file mode 0000 under uid 65534, (3) SIGKILL on entry to the i-th call (per thread, i = 1.. until the injection no longer fires) of openat, write, fsync, close, fchmodat, renameat, exit_group, and, combined with a size limit of len/2, of write (crash after a partial write) and unlinkat (crash while cleaning up), (4) texts the parser rejects (garbage line, random bytes, NUL/invalid UTF-8, truncation) with modes 0644/0600/0444/0755, (5) 3-5 files with 1-2 rejected ones in every argv position, two good files under a size limit between their lengths and under kills, (6) the same for `infer --inplace` plus failures before writing (rejected / missing training file, rejected target). Oracle: every target holds T or F byte for byte after every run; F iff exit 0 under a size limit; T with k < len F; F with k >= max(len T, len F); T (bytes and mode) and exit != 0 when the parser rejects it or the directory is unwritable; good files next to a rejected one hold F, and under a size limit between the lengths of two good files the one that fits is rewritten while the other keeps T. Non-trivial = a fault that demonstrably interrupted the rewrite: size limit with k < len F and a failed run, kill delivered after the temporary file's creation was requested (O_CREAT seen in the trace), permission denied reported, parse failure reported; distinct = (case, fault kind, k | syscall#i | variant)"
}

func (k *c18) Setup(c *core.Ctx) (int, error) {
	add := func(cs c18case) { k.cases = append(k.cases, cs) }
	if v := os.Getenv("KV_C18_FAULTS"); v != "" {
		k.only = map[string]bool{}
		for _, f := range strings.Split(v, ",") {
			k.only[f] = true
		}
		c.Extra("restricted_to_fault_kinds", v)
	}
	jid := 0
	if c.Quick() {
		for _, s := range []int{120, 200, 300, 700, 1000, 1500, 3000, 4500, 6000, 12000, 24000, 36000, 48000, 64000} {
			add(c18case{kind: "format", jid: jid, size: s, chunks: 1})
			jid++
		}
		for n := 0; n < 6; n++ {
			add(c18case{kind: "format-bad", jid: jid, size: 400 + 900*n, chunks: 1})
			jid++
		}
		for n := 0; n < 6; n++ {
			add(c18case{kind: "format-multi", jid: jid, size: 300 + 500*n, chunks: 1})
			jid++
		}
		for _, s := range []int{400, 1500, 6000, 30000, 64000} {
			add(c18case{kind: "infer", jid: jid, size: s, chunks: 1})
			jid++
		}
		add(c18case{kind: "infer-pre", jid: jid, size: 800, chunks: 1})
		jid++
		add(c18case{kind: "infer-pre", jid: jid, size: 5000, chunks: 1})
	} else {
		// every k: 20 texts, sizes log-spaced 100 .. 12000, split into chunks of ~300 k
		size := 100.0
		for n := 0; n < 20; n++ {
			s := int(size)
			ch := s/300 + 1
			for x := 0; x < ch; x++ {
				add(c18case{kind: "format", jid: jid, size: s, everyK: true, chunk: x, chunks: ch})
			}
			jid++
			size *= 1.287
		}
		// stratified k: 24 texts 12 KB .. 64 KB, 3 large ones
		size = 12000
		for n := 0; n < 24; n++ {
			add(c18case{kind: "format", jid: jid, size: int(size), chunks: 1})
			jid++
			size *= 1.0755
		}
		for _, s := range []int{256 << 10, 512 << 10, 1 << 20} {
			add(c18case{kind: "format", jid: jid, size: s, chunks: 1})
			jid++
		}
		for n := 0; n < 40; n++ {
			add(c18case{kind: "format-bad", jid: jid, size: 200 + 150*n, chunks: 1})
			jid++
		}
		for n := 0; n < 30; n++ {
			add(c18case{kind: "format-multi", jid: jid, size: 200 + 300*n, chunks: 1})
			jid++
		}
		for _, s := range []int{300, 700, 1400, 2500, 5000} {
			ch := s/300 + 1
			for x := 0; x < ch; x++ {
				add(c18case{kind: "infer", jid: jid, size: s, everyK: true, chunk: x, chunks: ch})
			}
			jid++
		}
		for _, s := range []int{4000, 8000, 16000, 32000, 64000, 128000, 300000, 1 << 20} {
			add(c18case{kind: "infer", jid: jid, size: s, chunks: 1})
			jid++
		}
		for n := 0; n < 8; n++ {
			add(c18case{kind: "infer-pre", jid: jid, size: 300 + 700*n, chunks: 1})
			jid++
		}
	}
	// long cases first would starve nothing: the pool hands out cases in order;
	// put the largest texts first so that they do not form the tail of the run
	sort.SliceStable(k.cases, func(a, b int) bool { return k.cases[a].size > k.cases[b].size })

	// capabilities of this sandbox (a missing capability makes that fault kind
	// "not judged", never a verdict)
	probe := filepath.Join(c.Work, "probe")
	os.MkdirAll(probe, 0o777)
	os.Chmod(probe, 0o777)
	r := core.Exec(core.Cmd{Argv: []string{c.Knut, "--help"}, Dir: probe, Fsize: -1, UID: 65534, Timeout: 20 * time.Second})
	k.uidOK = r.Class == "ok"
	logp := filepath.Join(probe, "probe.log")
	r = core.Exec(core.Cmd{Argv: []string{c.Knut, "--help"}, Dir: probe, Fsize: -1, Timeout: 20 * time.Second,
		Wrap: []string{"strace", "-f", "-o", logp, "-e", "trace=exit_group", "-e", "inject=exit_group:signal=SIGKILL:when=1"}})
	lb, _ := os.ReadFile(logp)
	k.straceOK = bytes.Contains(lb, []byte("killed by SIGKILL"))
	r = core.Exec(core.Cmd{Argv: []string{"true"}, Dir: probe, Fsize: 7, Timeout: 20 * time.Second})
	if r.Class != "ok" {
		return 0, fmt.Errorf("prlimit --fsize does not work here: %s", fmtErr(r))
	}
	os.RemoveAll(probe)
	c.Extra("uid_drop_available", k.uidOK)
	c.Extra("strace_injection_available", k.straceOK)
	return len(k.cases), nil
}

func (k *c18) Finish(c *core.Ctx) {
	c.Extra("garbage_accepted_kinds", c.SetValues("garbage_accepted"))
	c.Extra("write_calls_per_rewrite_seen", c.SetValues("write_calls_per_rewrite"))
	shapes := c.SetValues("crash_point_shapes_in_rewrite_window")
	if len(shapes) > 60 {
		shapes = shapes[:60]
	}
	c.Extra("crash_point_shapes_in_rewrite_window_sample", shapes)
	c.Assume("the 'new contents' F are what the same command produces without a fault (format on a copy; for infer its stdout form) - that F is the right text is C08's / C15's subject")
	c.Assume("exit status: the statement speaks of file contents only; the check additionally demands that a run whose write was cut (k < len F) does not exit 0 and that a run whose limit is at least max(len T, len F) - no write of either text can be cut - succeeds; between len F and len T (when T is longer) only 'T or F, F iff exit 0' is demanded, because a legitimate all-or-nothing mechanism might copy T first")
	c.Assume("file mode, inode and leftover temporary files after a rewrite or a faulted write are recorded, not judged (the statement names contents); mode is judged only for 'fails before writing' (bit-identical)")
	c.Assume("SIGKILL stands for a crash of the process; power loss (page cache not flushed) cannot be injected here - the trace monitor reports whether fsync preceded the rename")
	c.Assume("the syscall-trace monitor (target never opened for writing or truncated; one rename onto it whose source was created O_EXCL and received len F bytes) is corroboration only")
}

// ---------------------------------------------------------------- texts

// c18Text builds a journal text of roughly size bytes.
func c18Text(r *rand.Rand, size int) (text string, style string) {
	j := &gen.Journal{}
	total := 0
	for total < size {
		o := gen.DefaultOpts(r)
		o.Days = 2 + r.Intn(6)
		o.Accruals, o.Perf, o.Assertions = true, true, true
		o.Prices = r.Intn(2) == 0
		o.Lifecycle = r.Intn(2) == 0
		o.Unicode = r.Intn(2) == 0
		if size > 100000 {
			o.Days = 20 + r.Intn(20)
			o.TxnsPerDay = 4
		}
		jj, _ := gen.Accepted(r, o)
		if r.Intn(2) == 0 {
			jj.SortChrono()
		}
		for _, d := range jj.Dirs {
			n := len(gen.RenderDir(d)) + 1
			if total > 0 && total+n > size+size/8 {
				total = size // stop
				break
			}
			j.Dirs = append(j.Dirs, d)
			total += n
			if total >= size {
				break
			}
		}
	}
	switch r.Intn(4) {
	case 0:
		return j.Text(), "canonical"
	case 1:
		return syn.Render(r, syn.Items(r, j)).Text, "layout"
	default:
		return c18Sloppy(r, j.Text()), "sloppy"
	}
}

// c18Sloppy widens blanks between tokens (outside quoted strings).
func c18Sloppy(r *rand.Rand, text string) string {
	maxRun := []int{2, 4, 12, 30}[r.Intn(4)]
	var b strings.Builder
	inQ := false
	for i := 0; i < len(text); i++ {
		ch := text[i]
		switch {
		case ch == '"':
			inQ = !inQ
			b.WriteByte(ch)
		case ch == '\n':
			inQ = false
			if r.Intn(6) == 0 {
				b.WriteString(strings.Repeat(" ", 1+r.Intn(3)))
			}
			b.WriteByte(ch)
		case ch == ' ' && !inQ:
			b.WriteString(strings.Repeat(" ", 1+r.Intn(maxRun)))
		default:
			b.WriteByte(ch)
		}
	}
	return b.String()
}

var c18Garbage = []string{
	")( !! this is not a directive\n",
	"2020-13-45 opne Assets:X ]]]\n",
	"\x00\x01\x02\xff\xfe binary\n",
	"2021-01-01 \"unterminated\nAssets:A Assets:B 1 CHF\n)(\n",
	"}{\n",
}

// c18Break makes a text the parser is expected to reject; byConstruction says
// whether rejection is the intent (a stray line of punctuation) or only likely
// (truncation). Neither is relied upon: a garbage line may land inside a
// multi-line quoted description and be accepted; a run that exits 0 is not
// judged.
var c18Keyword = regexp.MustCompile(`open|close|price|balance|include|@performance|@accrue|daily|weekly|monthly|quarterly|yearly|once`)

func c18Break(r *rand.Rand, text string) (broken, how string, byConstruction bool) {
	switch r.Intn(7) {
	case 6:
		// a multi-line balance assertion whose last line is cut short
		for _, m := range syn.Mutations {
			if m.Name == "cut-balance-subline" {
				if b := m.F(r, text, "", 0); b != text {
					return b, "cut-balance-subline", false
				}
			}
		}
		fallthrough
	case 5:
		// the text ends in the middle of a keyword
		if ms := c18Keyword.FindAllStringIndex(text, -1); len(ms) > 0 {
			m := ms[r.Intn(len(ms))]
			return text[:m[0]+1+r.Intn(m[1]-m[0]-1)], "truncated-in-keyword", false
		}
		fallthrough
	case 0:
		n := 16 + r.Intn(200)
		b := make([]byte, n)
		for i := range b {
			b[i] = byte(r.Intn(256))
		}
		b[0] = ')' // no directive, comment or blank line starts like this
		return string(b), "random-bytes", true
	case 1:
		if len(text) > 10 {
			cut := 1 + r.Intn(len(text)-1)
			return text[:cut] + "\n)(\n", "truncated+garbage", true
		}
		fallthrough
	case 2:
		if len(text) > 10 {
			return text[:1+r.Intn(len(text)-1)], "truncated", false
		}
		fallthrough
	default:
		ls := strings.SplitAfter(text, "\n")
		// insert at a line boundary
		at := r.Intn(len(ls) + 1)
		g := c18Garbage[r.Intn(len(c18Garbage))]
		var b strings.Builder
		for i, l := range ls {
			if i == at {
				b.WriteString("\n" + g + "\n")
			}
			b.WriteString(l)
		}
		if at == len(ls) {
			b.WriteString("\n" + g)
		}
		return b.String(), "garbage-line", true
	}
}

// ---------------------------------------------------------------- scenario

type c18target struct {
	name string
	T    []byte
	F    []byte // nil: no new contents exist (the parser rejects T)
	mode os.FileMode
	how  string
	link string // non-empty: name is a symbolic link to this file (same directory), which holds the contents
}

type c18scn struct {
	k       *c18
	c       *core.Ctx
	i       int
	prefix  string // "" | "infer-inplace-"
	dir     string
	aux     map[string][]byte // other input files (training)
	targets []*c18target
	args    []string // knut arguments
	trace   string   // explanation of the trace monitor
	known   map[string]bool
	tag     string // case tag for signatures
}

func (s *c18scn) reset() {
	for _, t := range s.targets {
		p := filepath.Join(s.dir, t.name)
		os.Remove(p)
		if t.link != "" {
			// the journal is reached through a symbolic link: the contents live in t.link
			os.Remove(filepath.Join(s.dir, t.link))
			if err := os.Symlink(t.link, p); err != nil {
				panic(err)
			}
		}
		if err := os.WriteFile(p, t.T, 0o644); err != nil {
			panic(err)
		}
		if err := os.Chmod(p, t.mode); err != nil {
			panic(err)
		}
	}
}

// sweep counts and removes files the run left behind.
func (s *c18scn) sweep() int {
	ents, _ := os.ReadDir(s.dir)
	n := 0
	for _, e := range ents {
		if !s.known[e.Name()] {
			n++
			os.RemoveAll(filepath.Join(s.dir, e.Name()))
		}
	}
	if n > 0 {
		s.c.Count("leftover_temp_files", n)
	}
	return n
}

type c18state struct {
	class string // T | F | truncated | mixed | other | missing
	data  []byte
	mode  os.FileMode
}

func (s *c18scn) state(t *c18target) c18state {
	p := filepath.Join(s.dir, t.name)
	data, err := os.ReadFile(p)
	if err != nil {
		return c18state{class: "missing"}
	}
	st := c18state{data: data}
	if fi, err := os.Stat(p); err == nil {
		st.mode = fi.Mode().Perm()
	}
	switch {
	case bytes.Equal(data, t.T):
		st.class = "T"
	case t.F != nil && bytes.Equal(data, t.F):
		st.class = "F"
	case t.F != nil && len(data) < len(t.F) && bytes.HasPrefix(t.F, data):
		st.class = "truncated"
	case t.F != nil && c18Mixed(data, t.T, t.F):
		st.class = "mixed"
	default:
		st.class = "other"
	}
	return st
}

// c18Mixed: a prefix of F followed by the tail of T from the same offset (what
// overwriting without truncation leaves behind).
func c18Mixed(data, T, F []byte) bool {
	if len(data) != len(T) {
		return false
	}
	n := 0
	for n < len(data) && n < len(F) && data[n] == F[n] {
		n++
	}
	return n > 0 && bytes.Equal(data[n:], T[n:])
}

type c18fault struct {
	kind   string // fsize | kill | readonly-dir | unreadable-file | none
	fsize  int64  // -1 none
	sc     string // kill: syscall
	idx    int    // kill: when=idx
	uid    int
	logp   string
	desc   string
	subdir string
}

func (s *c18scn) run(f c18fault) core.Result {
	cmd := core.Cmd{Argv: append([]string{s.c.Knut}, s.args...), Dir: s.dir, Timeout: 60 * time.Second, Fsize: f.fsize, UID: f.uid}
	if f.kind == "kill" {
		os.Remove(f.logp)
		cmd.Wrap = []string{"strace", "-f", "-o", f.logp,
			"-e", "trace=openat,write,fsync,close,fchmodat,renameat,renameat2,unlinkat,exit_group",
			"-e", fmt.Sprintf("inject=%s:signal=SIGKILL:when=%d", f.sc, f.idx)}
	}
	return execCounted(s.c, cmd)
}

func (s *c18scn) shell(f c18fault) string {
	var b strings.Builder
	for _, t := range s.targets {
		if t.link != "" {
			fmt.Fprintf(&b, "mv %s %s; ln -s %s %s; ", shQuote(t.name), shQuote(t.link), shQuote(t.link), shQuote(t.name))
		}
		fmt.Fprintf(&b, "cp %s %s.orig; ", shQuote(t.name), shQuote(t.name))
	}
	argv := append([]string{"knut"}, s.args...)
	if f.fsize >= 0 {
		argv = append([]string{"prlimit", fmt.Sprintf("--fsize=%d", f.fsize), "--"}, argv...)
	}
	if f.kind == "kill" {
		argv = append([]string{"strace", "-f", "-o", "/dev/null", "-e", "trace=" + f.sc, "-e", fmt.Sprintf("inject=%s:signal=SIGKILL:when=%d", f.sc, f.idx)}, argv...)
	}
	if f.uid != 0 {
		argv = append([]string{"setpriv", "--reuid=65534", "--regid=65534", "--clear-groups"}, argv...)
		b.WriteString("chmod 0555 . ; ")
	}
	b.WriteString(core.Cmd{Argv: argv}.Shell())
	b.WriteString("; echo exit=$?")
	for _, t := range s.targets {
		fmt.Fprintf(&b, "; cmp %s %s.orig", shQuote(t.name), shQuote(t.name))
	}
	return b.String()
}

func shQuote(s string) string { return core.Cmd{Argv: []string{s}}.Shell() }

func (s *c18scn) violation(key, why string, f c18fault, res core.Result, extra map[string]string) {
	files := map[string][]byte{}
	for n, d := range s.aux {
		files[n] = d
	}
	ex := map[string]string{"stderr.txt": string(res.Stderr), "fault.txt": f.desc + "\n", "trace-monitor.txt": s.trace + "\n"}
	for _, t := range s.targets {
		files[t.name] = t.T
		if t.F != nil && len(t.F) < 1<<20+4096 {
			ex["expected-new-"+t.name] = string(t.F)
		}
		st := s.state(t)
		if st.class != "T" && st.class != "F" && len(st.data) < 1<<20+4096 {
			ex["observed-"+t.name] = string(st.data)
		}
	}
	for k2, v := range extra {
		ex[k2] = v
	}
	s.c.Violation(core.Witness{Case: s.i, Key: s.prefix + key, Why: why, Files: files, Cmd: s.shell(f), Extra: ex})
}

// contentsOK checks "every target holds T or F"; keyFmt receives the state class.
func (s *c18scn) contentsOK(f c18fault, res core.Result, keyFor func(class string) string) (states []c18state, ok bool) {
	ok = true
	for _, t := range s.targets {
		st := s.state(t)
		states = append(states, st)
		if st.class == "T" || st.class == "F" {
			continue
		}
		if ok {
			want := "its previous contents"
			if t.F != nil {
				want = fmt.Sprintf("its previous (%d bytes) or its new contents (%d bytes)", len(t.T), len(t.F))
			}
			s.violation(keyFor(st.class), fmt.Sprintf("after `knut %s` under fault [%s] (%s) file %s holds %d bytes that are neither: %s; state=%s, first difference from the new contents %s",
				strings.Join(s.args, " "), f.desc, fmtErr(res), t.name, len(st.data), want, st.class, c18Diff(st.data, t.F)), f, res, nil)
		}
		ok = false
	}
	return states, ok
}

func c18Diff(got, want []byte) string {
	if want == nil {
		return "(none exist)"
	}
	n := 0
	for n < len(got) && n < len(want) && got[n] == want[n] {
		n++
	}
	return fmt.Sprintf("at byte %d of %d", n, len(got))
}

// ---------------------------------------------------------------- faults

// fsizeRun applies RLIMIT_FSIZE=k and judges. Returns false after a violation.
func (s *c18scn) fsizeRun(kk int) bool {
	c := s.c
	if !s.k.on("fsize") {
		return true
	}
	f := c18fault{kind: "fsize", fsize: int64(kk), desc: fmt.Sprintf("RLIMIT_FSIZE=%d", kk)}
	s.reset()
	res := s.run(f)
	if res.Class == "timeout" || res.Class == "starterror" {
		c.Inconclusive(s.i, "fsize run: "+fmtErr(res))
		s.sweep()
		return true
	}
	c.Eval(1)
	c.Count("crash_points", 1)
	c.Count("crash_points_fsize", 1)
	if res.Class != "ok" && res.Class != "error" {
		c.Count("abnormal_class_"+res.Class, 1) // clean failure is C14's subject
	}
	states, ok := s.contentsOK(f, res, func(class string) string {
		switch class {
		case "truncated":
			return "fsize-truncated-file"
		case "mixed":
			return "fsize-mixed-file"
		case "missing":
			return "fsize-file-missing"
		}
		return "fsize-other-contents"
	})
	left := s.sweep()
	if !ok {
		return false
	}
	cut, allFree, allF, anyOld := false, true, true, false
	for _, t := range s.targets {
		if t.F != nil && kk < len(t.F) {
			cut = true
		}
	}
	for n, t := range s.targets {
		st := states[n]
		need := max(len(t.F), len(t.T))
		if t.F == nil {
			continue
		}
		if kk < len(t.F) {
			cut = true
			allFree = false
			if st.class == "F" {
				c.Count("oddity_new_contents_beyond_limit", 1)
			}
		} else if kk < need {
			allFree = false
		} else if st.class != "F" && cut {
			s.violation("collateral-not-rewritten", fmt.Sprintf("under %s the write of another file was cut, and %s - max(len T=%d, len F=%d) is within the limit - was not rewritten either (%s)", f.desc, t.name, len(t.T), len(t.F), fmtErr(res)), f, res, nil)
			return false
		} else if st.class != "F" {
			s.violation("fsize-spurious-failure", fmt.Sprintf("the size limit %d is at least max(len T=%d, len F=%d) of %s, no write can have been cut, yet the file was not rewritten (%s)", kk, len(t.T), len(t.F), t.name, fmtErr(res)), f, res, nil)
			return false
		}
		if st.class != "F" {
			allF = false
			anyOld = true
		}
	}
	if res.Exit == 0 && anyOld {
		s.violation("fsize-silent-failure", fmt.Sprintf("under %s the command exited 0 although a file still holds its previous contents (the write of the new contents was cut and the failure not reported)", f.desc), f, res, nil)
		return false
	}
	if allFree && allF && res.Exit != 0 {
		s.violation("fsize-spurious-failure", fmt.Sprintf("under %s (no write can have been cut) every file was rewritten but the command failed: %s", f.desc, fmtErr(res)), f, res, nil)
		return false
	}
	if cut && res.Exit != 0 {
		c.Nontrivial(fmt.Sprintf("%s|fsize|%d", s.tag, kk))
		c.Count("nontrivial_fsize", 1)
		if len(res.Stderr) == 0 {
			c.Count("failed_runs_with_empty_stderr", 1)
		}
		if len(s.targets[0].T) < 1500 && kk > 1 {
			s.k.sampleOnce(c, "fsize", func() any {
				return map[string]any{"command": "knut " + strings.Join(s.args, " "), "T": string(s.targets[0].T), "len_T": len(s.targets[0].T), "len_new": len(s.targets[0].F), "fault": f.desc,
					"exit": res.Exit, "stderr": core.Trunc(string(res.Stderr), 300), "file_after": "state " + states[0].class + " (previous contents)", "leftover_temp_files": left}
			})
		}
	}
	return true
}

// symlinkPass repeats a few size-limit faults with every target reached through
// a symbolic link: whatever the command does with the link, the contents read
// through the path (and the link's target file) must be the complete previous or
// the complete new contents.
func (s *c18scn) symlinkPass(r *rand.Rand) bool {
	if !s.k.on("fsize") {
		return true
	}
	for _, t := range s.targets {
		t.link = t.name + ".real"
		s.known[t.link] = true
	}
	defer func() {
		for _, t := range s.targets {
			os.Remove(filepath.Join(s.dir, t.name))
			os.Remove(filepath.Join(s.dir, t.link))
			t.link = ""
		}
	}()
	oldPrefix := s.prefix
	s.prefix += "symlink-"
	defer func() { s.prefix = oldPrefix }()
	lf := 0
	for _, t := range s.targets {
		lf = max(lf, len(t.F), len(t.T))
	}
	ks := []int{0, 1, 1 + r.Intn(max(1, lf-1)), 1 + r.Intn(max(1, lf-1)), lf - 1, lf + 4096}
	for _, kk := range ks {
		if kk < 0 {
			continue
		}
		if !s.fsizeRun(kk) {
			return false
		}
		// the link's target file, if it is still there, is subject to the same rule
		s.c.Count("crash_points_symlink", 1)
	}
	return true
}

func (s *c18scn) fsizeSet(r *rand.Rand, cs c18case) []int {
	lf, lt := 0, 0
	for _, t := range s.targets {
		if t.F != nil {
			lf = max(lf, len(t.F))
			lt = max(lt, len(t.T))
		}
	}
	set := map[int]bool{}
	add := func(v int) {
		if v >= 0 {
			set[v] = true
		}
	}
	tail := func() {
		for _, v := range []int{lf - 1, lf, lf + 1, lt - 1, lt, lt + 1, max(lf, lt) + 4096} {
			add(v)
		}
	}
	switch {
	case cs.everyK:
		lo, hi := cs.chunk*(lf+1)/cs.chunks, (cs.chunk+1)*(lf+1)/cs.chunks
		for v := lo; v < hi; v++ {
			add(v)
		}
		if cs.chunk == cs.chunks-1 {
			tail()
		}
	case s.c.Quick():
		for _, v := range []int{0, 1, lf / 2} {
			add(v)
		}
		tail()
		for n := 0; n < 12; n++ {
			add(r.Intn(lf + 1))
		}
	default:
		for _, v := range []int{0, 1, 2, lf / 2} {
			add(v)
		}
		tail()
		// page and buffer boundaries
		for _, unit := range []int{512, 4096, 32768, 65536} {
			for m, n := unit, 0; m <= lf && n < 12; m, n = m+unit, n+1 {
				add(m - 1)
				add(m)
				add(m + 1)
			}
		}
		for n := 0; n < 200; n++ {
			add(r.Intn(lf + 1))
		}
	}
	var ks []int
	for v := range set {
		ks = append(ks, v)
	}
	sort.Ints(ks)
	return ks
}

// permRuns: unwritable directory / unreadable file under uid 65534.
func (s *c18scn) permRuns() bool {
	c := s.c
	if !s.k.on("perm") {
		return true
	}
	if !s.k.uidOK {
		c.NotJudged(2)
		c.Count("uid_drop_unavailable", 1)
		return true
	}
	for _, variant := range []string{"readonly-dir", "unreadable-file"} {
		s.reset()
		f := c18fault{kind: variant, fsize: -1, uid: 65534}
		if variant == "readonly-dir" {
			f.desc = "directory mode 0555, files mode 0644, uid 65534"
			for _, t := range s.targets {
				os.Chmod(filepath.Join(s.dir, t.name), 0o644)
			}
			os.Chmod(s.dir, 0o555)
		} else {
			f.desc = "file mode 0000, directory mode 0777, uid 65534"
			for _, t := range s.targets {
				os.Chmod(filepath.Join(s.dir, t.name), 0)
			}
		}
		res := s.run(f)
		os.Chmod(s.dir, 0o777)
		modes := map[string]os.FileMode{}
		for _, t := range s.targets {
			p := filepath.Join(s.dir, t.name)
			if fi, err := os.Stat(p); err == nil {
				modes[t.name] = fi.Mode().Perm()
			}
		}
		if res.Class == "timeout" || res.Class == "starterror" {
			c.Inconclusive(s.i, variant+" run: "+fmtErr(res))
			s.sweep()
			continue
		}
		c.Eval(1)
		c.Count("crash_points", 1)
		c.Count("crash_points_"+variant, 1)
		for _, t := range s.targets {
			st := s.state(t)
			if st.class != "T" {
				s.violation(variant+"-modified", fmt.Sprintf("under [%s] the command cannot write, yet %s changed (state %s, %d bytes instead of %d; %s)", f.desc, t.name, st.class, len(st.data), len(t.T), fmtErr(res)), f, res, nil)
				s.sweep()
				return false
			}
			want := os.FileMode(0o644)
			if variant == "unreadable-file" {
				want = 0
			}
			if modes[t.name] != want {
				c.Count("mode_changed_on_failure_recorded", 1)
			}
		}
		s.sweep()
		if res.Exit == 0 {
			s.violation(variant+"-exit0", fmt.Sprintf("under [%s] nothing was rewritten but the command exited 0", f.desc), f, res, nil)
			return false
		}
		if len(bytes.TrimSpace(res.Stderr)) == 0 {
			s.violation(variant+"-silent", fmt.Sprintf("under [%s] the command failed (%s) without saying anything on stderr", f.desc, fmtErr(res)), f, res, nil)
			return false
		}
		if bytes.Contains(bytes.ToLower(res.Stderr), []byte("permission denied")) {
			c.Nontrivial(s.tag + "|" + variant)
			c.Count("nontrivial_"+variant, 1)
			if len(s.targets[0].T) < 3000 {
				v, fd, st := variant, f.desc, string(res.Stderr)
				s.k.sampleOnce(c, v, func() any {
					return map[string]any{"command": "knut " + strings.Join(s.args, " "), "T": string(s.targets[0].T), "fault": fd, "exit": res.Exit, "stderr": core.Trunc(st, 300), "file_after": "state T (previous contents)"}
				})
			}
		}
	}
	// A directory in which no file can be created, but a target the process may
	// write to, combined with a size limit below the new length: whatever
	// mechanism the command uses, the file must end up complete (old or new).
	for _, half := range []bool{false, true} {
		s.reset()
		f := c18fault{kind: "readonly-dir-writable-file", fsize: -1, uid: 65534}
		minF := -1
		for _, t := range s.targets {
			os.Chmod(filepath.Join(s.dir, t.name), 0o666)
			if minF < 0 || len(t.F) < minF {
				minF = len(t.F)
			}
		}
		if half {
			f.fsize = int64(minF / 2)
		}
		f.desc = fmt.Sprintf("directory mode 0555, files mode 0666 (writable), uid 65534, size limit %d", f.fsize)
		os.Chmod(s.dir, 0o555)
		res := s.run(f)
		os.Chmod(s.dir, 0o777)
		if res.Class == "timeout" || res.Class == "starterror" {
			c.Inconclusive(s.i, f.kind+" run: "+fmtErr(res))
			s.sweep()
			continue
		}
		c.Eval(1)
		c.Count("crash_points", 1)
		c.Count("crash_points_"+f.kind, 1)
		for _, t := range s.targets {
			st := s.state(t)
			if st.class != "T" && st.class != "F" {
				s.violation(f.kind+"-corrupt", fmt.Sprintf("under [%s] %s is neither its old nor its complete new contents (state %s, %d bytes; old %d, new %d; %s)", f.desc, t.name, st.class, len(st.data), len(t.T), len(t.F), fmtErr(res)), f, res, nil)
				s.sweep()
				return false
			}
		}
		if res.Exit != 0 {
			c.Nontrivial(fmt.Sprintf("%s|%s|%v", s.tag, f.kind, half))
		}
		s.sweep()
	}
	return true
}

var c18KillPlans = []struct {
	sc    string
	fsize bool // combine with a size limit of len(F)/2
}{
	{"openat", false}, {"write", false}, {"fsync", false}, {"close", false}, {"fchmodat", false}, {"renameat", false}, {"exit_group", false},
	{"write", true}, {"unlinkat", true},
}

var c18Digits = regexp.MustCompile(`[0-9]+`)
var c18Quoted = regexp.MustCompile(`"(?:[^"\\]|\\.)*"(?:\.\.\.)?`)

// c18Shape abstracts a traced call: strings and numbers are dropped, flags kept.
func c18Shape(ln string) string {
	ln = strings.TrimSuffix(strings.TrimSpace(ln), "<unfinished ...>")
	if j := strings.LastIndex(ln, ") "); j >= 0 && strings.Contains(ln[j:], "=") {
		ln = ln[:j]
	}
	ln = c18Quoted.ReplaceAllString(ln, "\"..\"")
	ln = c18Digits.ReplaceAllString(ln, "N")
	return strings.TrimRight(strings.TrimSpace(ln), ",") + ")"
}

// killRuns enumerates SIGKILL at the i-th call of each syscall.
func (s *c18scn) killRuns() bool {
	c := s.c
	if !s.k.on("kill") {
		return true
	}
	if !s.k.straceOK {
		c.NotJudged(len(c18KillPlans))
		c.Count("strace_unavailable", 1)
		return true
	}
	lf := 0
	for _, t := range s.targets {
		if t.F != nil {
			lf = max(lf, len(t.F))
		}
	}
	logp := filepath.Join(s.dir, "strace.log")
	s.known["strace.log"] = true
	for _, pl := range c18KillPlans {
		for idx := 1; idx <= 48; idx++ {
			f := c18fault{kind: "kill", fsize: -1, sc: pl.sc, idx: idx, logp: logp}
			f.desc = fmt.Sprintf("SIGKILL on entry to call #%d (per thread) of %s", idx, pl.sc)
			if pl.fsize {
				f.fsize = int64(lf / 2)
				f.desc += fmt.Sprintf(" with RLIMIT_FSIZE=%d", f.fsize)
			}
			s.reset()
			res := s.run(f)
			lb, _ := os.ReadFile(logp)
			fired := bytes.Contains(lb, []byte("killed by SIGKILL"))
			if res.Class == "timeout" || res.Class == "starterror" {
				c.Inconclusive(s.i, "kill run: "+fmtErr(res))
				s.sweep()
				break
			}
			if !fired && (res.Signal == syscall.SIGKILL || bytes.Contains(res.Stderr, []byte("strace:"))) {
				// strace itself had a problem: not an observation of knut
				c.NotJudged(1)
				c.Count("strace_problem", 1)
				s.sweep()
				break
			}
			c.Eval(1)
			if fired {
				c.Count("crash_points", 1)
				c.Count("crash_points_kill", 1)
				c.Count("crash_points_kill_"+pl.sc, 1)
			} else {
				c.Count("kill_runs_not_fired", 1)
			}
			sc := pl.sc
			states, ok := s.contentsOK(f, res, func(class string) string { return "kill-" + sc + "-corrupt" })
			left := s.sweep()
			if !ok {
				return false
			}
			if !fired {
				break
			}
			// where was the process? the last traced call of the killed syscall
			inWindow := bytes.Contains(lb, []byte("O_CREAT"))
			shape := ""
			for _, ln := range strings.Split(string(lb), "\n") {
				if j := strings.Index(ln, pl.sc+"("); j >= 0 && j < 12 {
					shape = ln[j:]
				}
			}
			shape = c18Shape(shape)
			if inWindow {
				c.Observe("crash_point_shapes_in_rewrite_window", shape)
				sig := fmt.Sprintf("%s|kill|%s|%d|%v", s.tag, pl.sc, idx, pl.fsize)
				c.Nontrivial(sig)
				c.Count("nontrivial_kill", 1)
				c.Count("nontrivial_kill_"+pl.sc, 1)
				if left > 0 {
					c.Count("kills_leaving_temp_files", 1)
				}
				if len(s.targets[0].T) < 1500 && (pl.sc == "renameat" || pl.sc == "fsync") {
					fd, sh := f.desc, shape
					cls := states[0].class
					s.k.sampleOnce(c, "kill", func() any {
						return map[string]any{"command": "knut " + strings.Join(s.args, " "), "T": string(s.targets[0].T), "fault": fd, "killed_in": sh, "file_after": "state " + cls, "leftover_temp_files": left}
					})
				}
			}
		}
	}
	os.Remove(logp)
	return true
}

// ---------------------------------------------------------------- trace monitor

var (
	c18reOpen   = regexp.MustCompile(`^openat\(AT_FDCWD, "((?:[^"\\]|\\.)*)", ([A-Z_|0-9x]+)(?:, 0[0-7]*)?\)\s+= (-?\d+)`)
	c18reOpen2  = regexp.MustCompile(`^(?:open|creat)\("((?:[^"\\]|\\.)*)"(?:, ([A-Z_|0-9x]+))?(?:, 0[0-7]*)?\)\s+= (-?\d+)`)
	c18reWrite  = regexp.MustCompile(`^(?:write|pwrite64|writev|pwritev|pwritev2)\((\d+), .*\)\s+= (-?\d+)`)
	c18reClose  = regexp.MustCompile(`^close\((\d+)\)\s+= 0`)
	c18reRen    = regexp.MustCompile(`^renameat2?\(AT_FDCWD, "((?:[^"\\]|\\.)*)", AT_FDCWD, "((?:[^"\\]|\\.)*)"(?:, [A-Z_|0-9]+)?\)\s+= (-?\d+)`)
	c18reRen2   = regexp.MustCompile(`^rename\("((?:[^"\\]|\\.)*)", "((?:[^"\\]|\\.)*)"\)\s+= (-?\d+)`)
	c18reTrunc  = regexp.MustCompile(`^truncate\("((?:[^"\\]|\\.)*)", (\d+)\)\s+= (-?\d+)`)
	c18reFtrunc = regexp.MustCompile(`^ftruncate\((\d+), (\d+)\)\s+= (-?\d+)`)
	c18reSync   = regexp.MustCompile(`^(?:fsync|fdatasync)\((\d+)\)\s+= 0`)
	c18reLink   = regexp.MustCompile(`^(?:linkat\(AT_FDCWD, "(?:[^"\\]|\\.)*", AT_FDCWD|link\("(?:[^"\\]|\\.)*"), "((?:[^"\\]|\\.)*)"`)
	c18reDup    = regexp.MustCompile(`^(?:dup|dup2|dup3|fcntl)\((\d+)(?:, [^)]*)?\)\s+= (\d+)`)
	c18rePid    = regexp.MustCompile(`^(\d+)\s+(.*)$`)
	c18reResume = regexp.MustCompile(`^<\.\.\. \w+ resumed>\s?(.*)$`)
)

func c18Unquote(s string) string {
	var b []byte
	for i := 0; i < len(s); i++ {
		if s[i] != '\\' || i+1 >= len(s) {
			b = append(b, s[i])
			continue
		}
		i++
		switch s[i] {
		case 'n':
			b = append(b, '\n')
		case 't':
			b = append(b, '\t')
		case 'r':
			b = append(b, '\r')
		case 'v':
			b = append(b, '\v')
		case 'f':
			b = append(b, '\f')
		case 'x':
			if i+2 < len(s) {
				if v, err := strconv.ParseUint(s[i+1:i+3], 16, 8); err == nil {
					b = append(b, byte(v))
					i += 2
					continue
				}
			}
			b = append(b, 'x')
		default:
			if s[i] >= '0' && s[i] <= '7' {
				j := i
				for j < len(s) && j < i+3 && s[j] >= '0' && s[j] <= '7' {
					j++
				}
				v, _ := strconv.ParseUint(s[i:j], 8, 16)
				b = append(b, byte(v))
				i = j - 1
			} else {
				b = append(b, s[i])
			}
		}
	}
	return string(b)
}

type c18file struct {
	path    string
	flags   string
	written int64
	writes  int
	synced  bool
}

// traceMonitor runs the command once without a fault under strace and checks
// the offline spec. It returns an explanation; conforming says whether the
// expected mechanism was seen for every target.
func (s *c18scn) traceMonitor() (explain string, conforming bool) {
	c := s.c
	if !s.k.straceOK {
		return "strace not available", false
	}
	logp := filepath.Join(s.dir, "trace.log")
	s.known["trace.log"] = true
	s.reset()
	cmd := core.Cmd{Argv: append([]string{c.Knut}, s.args...), Dir: s.dir, Timeout: 120 * time.Second, Fsize: -1,
		Wrap: []string{"strace", "-f", "-s", "0", "-o", logp, "-e",
			"trace=openat,?open,?creat,write,pwrite64,writev,?pwritev,?pwritev2,close,?rename,renameat,renameat2,truncate,ftruncate,fsync,fdatasync,?unlink,unlinkat,?link,linkat,fchmodat,fchmod,?chmod,dup,?dup2,dup3"}}
	res := core.Exec(cmd)
	lb, _ := os.ReadFile(logp)
	os.Remove(logp)
	defer s.sweep()
	anyBad := false
	for _, t := range s.targets {
		anyBad = anyBad || t.F == nil
	}
	if res.Class != "ok" && !(anyBad && res.Class == "error") {
		return "un-faulted traced run did not succeed: " + fmtErr(res), false
	}
	for _, t := range s.targets {
		if t.F != nil && s.state(t).class != "F" {
			return "un-faulted traced run did not produce the new contents of " + t.name, false
		}
	}
	// join unfinished / resumed lines per thread
	pending := map[string]string{}
	var calls []string
	for _, ln := range strings.Split(string(lb), "\n") {
		m := c18rePid.FindStringSubmatch(ln)
		if m == nil {
			continue
		}
		pid, rest := m[1], m[2]
		if strings.HasSuffix(rest, "<unfinished ...>") {
			pending[pid] = strings.TrimSuffix(rest, "<unfinished ...>")
			continue
		}
		if r := c18reResume.FindStringSubmatch(rest); r != nil {
			rest = strings.TrimRight(pending[pid], " ") + r[1]
			delete(pending, pid)
		}
		calls = append(calls, rest)
	}
	fds := map[string]*c18file{}
	byPath := map[string]*c18file{}
	type tinfo struct {
		writeOpens, truncs, links int
		renames                   []string
	}
	info := map[string]*tinfo{}
	for _, t := range s.targets {
		info[t.name] = &tinfo{}
	}
	norm := func(p string) string { return path.Clean(c18Unquote(p)) }
	matched := 0
	for _, cl := range calls {
		var pth, flags, fd string
		if m := c18reOpen.FindStringSubmatch(cl); m != nil {
			pth, flags, fd = norm(m[1]), m[2], m[3]
		} else if m := c18reOpen2.FindStringSubmatch(cl); m != nil {
			pth, flags, fd = norm(m[1]), m[2], m[3]
			if strings.HasPrefix(cl, "creat") {
				flags = "O_CREAT|O_WRONLY|O_TRUNC"
			}
		}
		if pth != "" {
			if ti := info[pth]; ti != nil {
				matched++
				if strings.Contains(flags, "O_WRONLY") || strings.Contains(flags, "O_RDWR") || strings.Contains(flags, "O_TRUNC") || strings.Contains(flags, "O_CREAT") {
					ti.writeOpens++
				}
			}
			if !strings.HasPrefix(fd, "-") {
				f := &c18file{path: pth, flags: flags}
				fds[fd] = f
				if strings.Contains(flags, "O_CREAT") {
					byPath[pth] = f
				}
			}
			continue
		}
		if m := c18reWrite.FindStringSubmatch(cl); m != nil {
			if f := fds[m[1]]; f != nil && !strings.HasPrefix(m[2], "-") {
				n, _ := strconv.ParseInt(m[2], 10, 64)
				f.written += n
				f.writes++
				matched++
				if info[f.path] != nil {
					info[f.path].writeOpens++ // a write reached the target itself
				}
			}
			continue
		}
		if m := c18reSync.FindStringSubmatch(cl); m != nil {
			if f := fds[m[1]]; f != nil {
				f.synced = true
				matched++
			}
			continue
		}
		if m := c18reClose.FindStringSubmatch(cl); m != nil {
			delete(fds, m[1])
			continue
		}
		if m := c18reDup.FindStringSubmatch(cl); m != nil && !strings.HasPrefix(cl, "fcntl") {
			if f := fds[m[1]]; f != nil {
				fds[m[2]] = f
			}
			continue
		}
		if m := c18reTrunc.FindStringSubmatch(cl); m != nil {
			if ti := info[norm(m[1])]; ti != nil {
				ti.truncs++
				matched++
			}
			continue
		}
		if m := c18reFtrunc.FindStringSubmatch(cl); m != nil {
			if f := fds[m[1]]; f != nil && info[f.path] != nil {
				info[f.path].truncs++
				matched++
			}
			continue
		}
		m := c18reRen.FindStringSubmatch(cl)
		if m == nil {
			m = c18reRen2.FindStringSubmatch(cl)
		}
		if m != nil && m[3] == "0" {
			if ti := info[norm(m[2])]; ti != nil {
				ti.renames = append(ti.renames, norm(m[1]))
				matched++
			}
			continue
		}
		if m := c18reLink.FindStringSubmatch(cl); m != nil {
			if ti := info[norm(m[1])]; ti != nil {
				ti.links++
				matched++
			}
		}
	}
	c.Count("trace_syscalls_matched", matched)
	conforming = true
	var ex []string
	for _, t := range s.targets {
		ti := info[t.name]
		if t.F == nil {
			ok := ti.writeOpens == 0 && ti.truncs == 0 && len(ti.renames) == 0 && ti.links == 0
			ex = append(ex, fmt.Sprintf("%s (rejected by the parser): opened-for-writing/written %d times, truncated %d times, renamed onto %d times -> %s", t.name, ti.writeOpens, ti.truncs, len(ti.renames), map[bool]string{true: "untouched", false: "TOUCHED"}[ok]))
			conforming = conforming && ok
			continue
		}
		line := fmt.Sprintf("%s: opened for writing / written in place %d times, truncated %d times, hard-linked onto %d times, renamed onto %d times", t.name, ti.writeOpens, ti.truncs, ti.links, len(ti.renames))
		ok := ti.writeOpens == 0 && ti.truncs == 0 && ti.links == 0 && len(ti.renames) == 1
		if len(ti.renames) >= 1 {
			src := byPath[ti.renames[len(ti.renames)-1]]
			if src == nil {
				line += "; the rename source was not created by this process"
				ok = false
			} else {
				line += fmt.Sprintf("; source %s opened with %s received %d bytes in %d write calls (new contents: %d bytes), fsync before rename: %v", c18Digits.ReplaceAllString(src.path, "N"), src.flags, src.written, src.writes, len(t.F), src.synced)
				ok = ok && src.written == int64(len(t.F)) && strings.Contains(src.flags, "O_EXCL")
				c.Observe("write_calls_per_rewrite", fmt.Sprintf("%d calls for %s bytes", src.writes, c18Magnitude(len(t.F))))
				if !src.synced {
					c.Count("trace_rename_without_fsync", 1)
				}
			}
		}
		if ok {
			line += " -> write-to-temporary-then-rename"
		} else {
			line += " -> NOT the temporary-file-and-rename mechanism"
		}
		ex = append(ex, line)
		conforming = conforming && ok
	}
	if conforming {
		c.Count("trace_runs_conforming", 1)
	} else {
		c.Count("trace_runs_not_conforming", 1)
	}
	return strings.Join(ex, "\n"), conforming
}

func c18Magnitude(n int) string {
	switch {
	case n < 4096:
		return "<4K"
	case n < 65536:
		return "4K..64K"
	case n < 1<<20:
		return "64K..1M"
	}
	return ">=1M"
}

// ---------------------------------------------------------------- cases

func (k *c18) newScn(c *core.Ctx, i int, prefix string) *c18scn {
	dir := c.CaseDir(i)
	os.Chmod(dir, 0o777)
	return &c18scn{k: k, c: c, i: i, prefix: prefix, dir: dir, aux: map[string][]byte{}, known: map[string]bool{}}
}

// baseFormat formats a copy without a fault; ok=false when knut rejects it.
func c18BaseFormat(c *core.Ctx, dir string, text []byte) (F []byte, res core.Result, ok bool) {
	p := filepath.Join(dir, "base-copy.knut")
	if err := os.WriteFile(p, text, 0o644); err != nil {
		panic(err)
	}
	defer os.Remove(p)
	res = knut(c, dir, nil, "format", "base-copy.knut")
	if res.Class != "ok" {
		return nil, res, false
	}
	F, _ = os.ReadFile(p)
	return F, res, true
}

var c18Names = []string{"journal.knut", "b b.knut", "Zürich.knut", "d.prices", "x-y_z.txt"}
var c18Modes = []os.FileMode{0o644, 0o600, 0o640, 0o755, 0o444, 0o664}

func (k *c18) RunCase(c *core.Ctx, i int) {
	cs := k.cases[i]
	switch cs.kind {
	case "format":
		k.runFormat(c, i, cs)
	case "format-bad":
		k.runBad(c, i, cs)
	case "format-multi":
		k.runMulti(c, i, cs)
	case "infer":
		k.runInfer(c, i, cs)
	case "infer-pre":
		k.runInferPre(c, i, cs)
	}
}

func (k *c18) runFormat(c *core.Ctx, i int, cs c18case) {
	r := c.Rng(cs.jid, "journal")
	text, style := c18Text(r, cs.size)
	s := k.newScn(c, i, "")
	defer os.RemoveAll(s.dir)
	F, res, ok := c18BaseFormat(c, s.dir, []byte(text))
	if res.Class == "timeout" {
		c.Inconclusive(i, "un-faulted format: "+fmtErr(res))
		return
	}
	if !ok {
		c.NotJudged(1)
		c.Count("generated_text_rejected", 1)
		c.Observe("generated_text_rejected_reason", core.Trunc(string(res.Stderr), 200))
		return
	}
	if bytes.Equal(F, []byte(text)) {
		// the text is already in its formatted form: widen its first blank so that a rewrite changes something
		text = strings.Replace(text, " ", "    ", 1)
		style += "+widened"
		F, res, ok = c18BaseFormat(c, s.dir, []byte(text))
		if !ok || bytes.Equal(F, []byte(text)) {
			c.NotJudged(1)
			c.Count("already_formatted_skipped", 1)
			return
		}
	}
	name := c18Names[r.Intn(len(c18Names))]
	mode := c18Modes[r.Intn(len(c18Modes))]
	s.targets = []*c18target{{name: name, T: []byte(text), F: F, mode: mode}}
	s.known[name] = true
	s.args = []string{"format", name}
	s.tag = fmt.Sprintf("format|j%d", cs.jid)
	c.Observe("text_style", style)
	c.Observe("len_relation", map[bool]string{true: "F longer than T", false: "F shorter than T"}[len(F) > len(text)])
	if cs.chunk == 0 {
		c.Count("texts", 1)
		c.Count("text_bytes", len(text))
		s.trace, _ = s.traceMonitor()
	}
	for _, kk := range s.fsizeSet(c.Rng(i, "ks"), cs) {
		if !s.fsizeRun(kk) {
			return
		}
	}
	if cs.chunk != 0 {
		return
	}
	if !s.permRuns() {
		return
	}
	if !s.killRuns() {
		return
	}
	s.symlinkPass(c.Rng(i, "symlink"))
}

func (k *c18) runBad(c *core.Ctx, i int, cs c18case) {
	r := c.Rng(cs.jid, "journal")
	text, _ := c18Text(r, cs.size)
	s := k.newScn(c, i, "")
	defer os.RemoveAll(s.dir)
	for v := 0; v < 5; v++ {
		broken, how, sure := c18Break(r, text)
		name := c18Names[r.Intn(len(c18Names))]
		mode := c18Modes[r.Intn(len(c18Modes))]
		s.targets = []*c18target{{name: name, T: []byte(broken), mode: mode, how: how}}
		s.known = map[string]bool{name: true}
		s.args = []string{"format", name}
		s.tag = fmt.Sprintf("bad|j%d|%d", cs.jid, v)
		if !s.rejectedRun(how, sure, "unparseable") {
			return
		}
		os.Remove(filepath.Join(s.dir, name))
	}
}

// rejectedRun: the command is expected to fail before writing; every target
// without F must keep bytes and mode.
func (s *c18scn) rejectedRun(how string, sure bool, keyStem string) bool {
	c := s.c
	f := c18fault{kind: "none", fsize: -1, desc: "input rejected before writing: " + how}
	s.reset()
	res := s.run(f)
	if res.Class == "timeout" || res.Class == "starterror" {
		c.Inconclusive(s.i, "rejected-input run: "+fmtErr(res))
		s.sweep()
		return true
	}
	if res.Exit == 0 {
		// the text was accepted after all: nothing failed, nothing to judge here
		c.NotJudged(1)
		if sure {
			c.Count("garbage_accepted_not_judged", 1)
			c.Observe("garbage_accepted", fmt.Sprintf("case %d: %s", s.i, how))
		} else {
			c.Count("truncation_still_parses_not_judged", 1)
		}
		s.sweep()
		return true
	}
	c.Eval(1)
	c.Count("crash_points", 1)
	c.Count("crash_points_rejected_input", 1)
	for _, t := range s.targets {
		st := s.state(t)
		if t.F != nil {
			continue
		}
		if st.class != "T" {
			s.violation(keyStem+"-modified", fmt.Sprintf("the command failed (%s) on input [%s] but %s is not bit-identical to before: %d bytes instead of %d, state %s", fmtErr(res), how, t.name, len(st.data), len(t.T), st.class), f, res, nil)
			s.sweep()
			return false
		}
		if st.mode != t.mode {
			s.violation(keyStem+"-mode-changed", fmt.Sprintf("the command failed (%s) on input [%s] but the mode of %s changed from %o to %o", fmtErr(res), how, t.name, t.mode, st.mode), f, res, nil)
			s.sweep()
			return false
		}
	}
	s.sweep()
	c.Nontrivial(s.tag + "|rejected|" + how)
	c.Count("nontrivial_rejected_input", 1)
	c.Observe("rejected_input_kind", how)
	return true
}

func (k *c18) runMulti(c *core.Ctx, i int, cs c18case) {
	r := c.Rng(cs.jid, "journal")
	s := k.newScn(c, i, "")
	defer os.RemoveAll(s.dir)
	names := append([]string{}, c18Names...)
	r.Shuffle(len(names), func(a, b int) { names[a], names[b] = names[b], names[a] })
	mk := func(name string, size int, bad bool) (*c18target, bool) {
		text, _ := c18Text(r, size)
		t := &c18target{name: name, mode: c18Modes[r.Intn(len(c18Modes))]}
		if bad {
			// only texts that are unparseable by construction: a cut (anywhere, inside a keyword,
			// inside a balance line) may fall into a comment or a description and still parse
			broken, how, sure := c18Break(r, text)
			for !sure {
				broken, how, sure = c18Break(r, text)
			}
			t.T, t.how = []byte(broken), how
			return t, true
		}
		F, res, ok := c18BaseFormat(c, s.dir, []byte(text))
		if !ok || bytes.Equal(F, []byte(text)) {
			c.NotJudged(1)
			c.Count("generated_text_rejected_or_formatted", 1)
			_ = res
			return nil, false
		}
		t.T, t.F = []byte(text), F
		return t, true
	}
	// (a) good files with 1-2 rejected ones in some position
	nf := 3 + r.Intn(3)
	nbad := 1 + r.Intn(2)
	badAt := map[int]bool{}
	switch cs.jid % 3 {
	case 0:
		badAt[0] = true
	case 1:
		badAt[nf-1] = true
	default:
		badAt[1+r.Intn(nf-2)] = true
	}
	for len(badAt) < nbad {
		badAt[r.Intn(nf)] = true
	}
	s.args = []string{"format"}
	var hows []string
	for n := 0; n < nf; n++ {
		t, ok := mk(names[n], cs.size/2+r.Intn(cs.size+1), badAt[n])
		if !ok {
			return
		}
		s.targets = append(s.targets, t)
		s.known[t.name] = true
		s.args = append(s.args, t.name)
		if badAt[n] {
			hows = append(hows, fmt.Sprintf("argv[%d]=%s", n+1, t.how))
		}
	}
	s.tag = fmt.Sprintf("multi|j%d", cs.jid)
	s.trace, _ = s.traceMonitor()
	{
		f := c18fault{kind: "none", fsize: -1, desc: fmt.Sprintf("%d files, rejected: %s", nf, strings.Join(hows, ", "))}
		s.reset()
		res := s.run(f)
		if res.Class == "timeout" || res.Class == "starterror" {
			c.Inconclusive(i, "multi-file run: "+fmtErr(res))
			return
		}
		if res.Exit == 0 {
			c.NotJudged(1)
			c.Count("garbage_accepted_not_judged", 1)
		} else {
			c.Eval(1)
			c.Count("crash_points", 1)
			c.Count("crash_points_multi_file_rejected", 1)
			for _, t := range s.targets {
				st := s.state(t)
				switch {
				case t.F == nil && (st.class != "T" || st.mode != t.mode):
					s.violation("multi-file-rejected-file-modified", fmt.Sprintf("%s was rejected (%s) but is not bit-identical afterwards (state %s, mode %o was %o)", t.name, t.how, st.class, st.mode, t.mode), f, res, nil)
					return
				case t.F != nil && st.class == "T":
					s.violation("multi-file-collateral-not-rewritten", fmt.Sprintf("the failure on another file (%s) prevented the rewrite of %s: it still holds its previous contents", strings.Join(hows, ", "), t.name), f, res, nil)
					return
				case t.F != nil && st.class != "F":
					s.violation("multi-file-collateral-corrupt", fmt.Sprintf("the failure on another file (%s) left %s neither old nor new: state %s, %d bytes", strings.Join(hows, ", "), t.name, st.class, len(st.data)), f, res, nil)
					return
				}
			}
			c.Nontrivial(s.tag + "|rejected-among-good")
			c.Count("nontrivial_multi_file", 1)
			c.Observe("multi_file_shape", fmt.Sprintf("%d files, bad at %v", nf, sortedKeys(badAt)))
		}
		s.sweep()
	}
	// (b) the good files alone under a size limit between their lengths, and under kills
	var good []*c18target
	for _, t := range s.targets {
		os.Remove(filepath.Join(s.dir, t.name))
		if t.F != nil {
			good = append(good, t)
		}
	}
	if len(good) < 2 {
		return
	}
	s.targets = good
	s.known = map[string]bool{}
	s.args = []string{"format"}
	var lens []int
	for _, t := range good {
		s.known[t.name] = true
		s.args = append(s.args, t.name)
		lens = append(lens, len(t.F), len(t.T))
	}
	sort.Ints(lens)
	ks := map[int]bool{0: true, lens[0] / 2: true, lens[len(lens)-1]: true}
	for n := 0; n+1 < len(lens); n++ {
		ks[(lens[n]+lens[n+1])/2] = true
		ks[lens[n]] = true
	}
	s.tag = fmt.Sprintf("multi-good|j%d", cs.jid)
	s.prefix = "multi-file-"
	for _, kk := range sortedKeys(ks) {
		if !s.fsizeRun(kk) {
			return
		}
	}
	s.killRuns()
}

func sortedKeys(m map[int]bool) []int {
	var ks []int
	for v := range m {
		ks = append(ks, v)
	}
	sort.Ints(ks)
	return ks
}

// ---------------------------------------------------------------- infer

type c18inferCase struct {
	train, target string
	ph            string
	flagA         bool
	sameFile      bool
}

var c18Shops = []string{"migros", "coop", "sbb", "swisscom", "landlord", "pharmacy", "kiosk", "bakery", "garage", "cinema", "bookshop", "dentist"}

// c18InferTexts builds a training file and a target of about size bytes whose
// placeholder bookings can be inferred.
func c18InferTexts(r *rand.Rand, size int) c18inferCase {
	ic := c18inferCase{ph: "Expenses:TBD"}
	if r.Intn(3) == 0 {
		ic.ph = []string{"Expenses:Unknown", "Equity:TBD", "Expenses:TBD:Later"}[r.Intn(3)]
		ic.flagA = true
	}
	ic.sameFile = r.Intn(4) == 0
	nacc := 1 + r.Intn(4)
	accs := []string{"Expenses:Food", "Expenses:Transport", "Expenses:Rent", "Expenses:Health:Dentist"}[:nacc]
	shops := append([]string{}, c18Shops...)
	r.Shuffle(len(shops), func(a, b int) { shops[a], shops[b] = shops[b], shops[a] })
	shopAcc := map[string]string{}
	for n, sh := range shops {
		shopAcc[sh] = accs[n%nacc]
	}
	var tr strings.Builder
	tr.WriteString("2020-01-01 open Assets:Bank\n")
	for _, a := range accs {
		fmt.Fprintf(&tr, "2020-01-01 open %s\n", a)
	}
	tr.WriteString("\n")
	day := 0
	date := func() string {
		day++
		return fmt.Sprintf("2020-%02d-%02d", 1+(day/28)%12, 1+day%28)
	}
	for n := 0; n < 12+r.Intn(30); n++ {
		sh := shops[r.Intn(len(shops))]
		fmt.Fprintf(&tr, "%s \"%s %s\"\nAssets:Bank %s %d.%02d CHF\n\n", date(), sh, gen.Desc(r), shopAcc[sh], 1+r.Intn(500), r.Intn(100))
	}
	var tg strings.Builder
	fmt.Fprintf(&tg, "2021-01-01 open %s\n\n", ic.ph)
	for tg.Len() < size {
		sh := shops[r.Intn(len(shops))]
		acc := ic.ph
		if r.Intn(5) == 0 {
			acc = shopAcc[sh]
		}
		if r.Intn(4) == 0 {
			fmt.Fprintf(&tg, "%s \"%s refund\"\n%s Assets:Bank %d CHF\n\n", date(), sh, acc, 1+r.Intn(90))
		} else {
			fmt.Fprintf(&tg, "%s \"%s %s\"\nAssets:Bank %s %d.%02d CHF\n\n", date(), sh, gen.Desc(r), acc, 1+r.Intn(500), r.Intn(100))
		}
	}
	ic.train = tr.String()
	ic.target = tg.String()
	if ic.sameFile {
		ic.target = ic.train + ic.target
	}
	if r.Intn(3) > 0 {
		ic.target = c18Sloppy(r, ic.target)
	}
	return ic
}

func (ic c18inferCase) args(inplace bool, train, target string) []string {
	a := []string{"infer"}
	if inplace {
		a = append(a, "--inplace")
	}
	if ic.sameFile {
		train = target
	}
	a = append(a, "-t", train)
	if ic.flagA {
		a = append(a, "-a", ic.ph)
	}
	return append(a, target)
}

func (k *c18) runInfer(c *core.Ctx, i int, cs c18case) {
	r := c.Rng(cs.jid, "infer")
	ic := c18InferTexts(r, cs.size)
	s := k.newScn(c, i, "infer-inplace-")
	defer os.RemoveAll(s.dir)
	writeFile(s.dir, "train.knut", ic.train)
	s.aux["train.knut"] = []byte(ic.train)
	s.known["train.knut"] = true
	// new contents: what infer prints without --inplace (two runs must agree)
	writeFile(s.dir, "copy.knut", ic.target)
	var outs [][]byte
	for n := 0; n < 2; n++ {
		res := knut(c, s.dir, nil, ic.args(false, "train.knut", "copy.knut")...)
		if res.Class == "timeout" {
			c.Inconclusive(i, "un-faulted infer: "+fmtErr(res))
			return
		}
		if res.Class != "ok" {
			c.NotJudged(1)
			c.Count("generated_infer_case_rejected", 1)
			c.Observe("generated_text_rejected_reason", core.Trunc(string(res.Stderr), 200))
			return
		}
		outs = append(outs, res.Stdout)
	}
	os.Remove(filepath.Join(s.dir, "copy.knut"))
	if !bytes.Equal(outs[0], outs[1]) {
		c.NotJudged(1)
		c.Count("infer_output_not_deterministic_not_judged", 1) // C15's subject
		return
	}
	N := outs[0]
	if bytes.Equal(N, []byte(ic.target)) {
		c.Count("already_formatted_skipped", 1)
		return
	}
	if !bytes.Contains([]byte(ic.target), []byte(ic.ph)) {
		panic("c18: infer target without placeholder")
	}
	name := []string{"target.knut", "my target.knut", "büro.knut"}[r.Intn(3)]
	s.targets = []*c18target{{name: name, T: []byte(ic.target), F: N, mode: c18Modes[r.Intn(len(c18Modes))]}}
	s.known[name] = true
	s.args = ic.args(true, "train.knut", name)
	s.tag = fmt.Sprintf("infer|j%d", cs.jid)
	c.Observe("infer_shape", fmt.Sprintf("same-file=%v custom-placeholder=%v", ic.sameFile, ic.flagA))
	if cs.chunk == 0 {
		c.Count("infer_cases", 1)
		if bytes.Count(N, []byte(ic.ph)) < bytes.Count([]byte(ic.target), []byte(ic.ph)) {
			c.Count("infer_cases_with_replaced_placeholders", 1)
		}
		s.trace, _ = s.traceMonitor()
	}
	for _, kk := range s.fsizeSet(c.Rng(i, "ks"), cs) {
		if !s.fsizeRun(kk) {
			return
		}
	}
	if cs.chunk != 0 {
		return
	}
	if !s.permRuns() {
		return
	}
	if !s.killRuns() {
		return
	}
	s.symlinkPass(c.Rng(i, "symlink"))
}

// runInferPre: infer --inplace fails before writing (rejected target,
// rejected / missing training file): the target is bit-identical.
func (k *c18) runInferPre(c *core.Ctx, i int, cs c18case) {
	r := c.Rng(cs.jid, "infer")
	ic := c18InferTexts(r, cs.size)
	ic.sameFile = false
	s := k.newScn(c, i, "infer-inplace-")
	defer os.RemoveAll(s.dir)
	for v, variant := range []string{"rejected-target", "rejected-training-file", "missing-training-file", "training-file-is-directory"} {
		train, target := ic.train, ic.target
		how := variant
		sure := true
		switch variant {
		case "rejected-target":
			var h string
			target, h, sure = c18Break(r, target)
			how += ":" + h
		case "rejected-training-file":
			var h string
			train, h, sure = c18Break(r, train)
			how += ":" + h
		}
		os.RemoveAll(filepath.Join(s.dir, "train.knut"))
		s.aux = map[string][]byte{}
		switch variant {
		case "missing-training-file":
		case "training-file-is-directory":
			os.Mkdir(filepath.Join(s.dir, "train.knut"), 0o755)
		default:
			writeFile(s.dir, "train.knut", train)
			s.aux["train.knut"] = []byte(train)
		}
		mode := c18Modes[r.Intn(len(c18Modes))]
		s.targets = []*c18target{{name: "target.knut", T: []byte(target), mode: mode, how: how}}
		s.known = map[string]bool{"target.knut": true, "train.knut": true}
		s.args = ic.args(true, "train.knut", "target.knut")
		s.tag = fmt.Sprintf("infer-pre|j%d|%d", cs.jid, v)
		if !s.rejectedRun(how, sure, "fails-before-writing") {
			return
		}
	}
}
