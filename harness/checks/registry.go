// Package checks holds one file per property.
package checks

import "kverif/core"

// Registry maps property ids to check constructors.
var Registry = map[string]func() core.Check{}

func register(id string, mk func() core.Check) { Registry[id] = mk }
