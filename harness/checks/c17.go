package checks

import (
	"fmt"
	"math/big"
	"math/rand"
	"os"
	"regexp"
	"sort"
	"strings"
	"unicode/utf8"

	"kverif/cal"
	"kverif/core"
	"kverif/gen"
	"kverif/ref"
	"kverif/tab"
)

// C17 — rendered balance tables are rectangular and numerically faithful.
//
// Every report is rendered twice from the same journal and flags: as text
// (`--color=false [--digits n] [-k]`) and as `--csv`. The oracle demands
//
//   - all text lines have the same rune count and carry '|' / '+' at the same
//     rune columns;
//   - the non-separator, non-blank text rows correspond 1:1, in order, to the
//     CSV records, cell (i,j) to cell (i,j);
//   - every numeric text cell equals an independent big.Rat formatter applied
//     to the CSV amount (÷1000 with -k, round half away from zero to n digits,
//     fixed notation, groups of three in the integer part), a zero amount is a
//     blank cell, a negative rounded value has a leading '-';
//   - the CSV carries the exact amounts: account rows are cross-checked
//     against the reference ledger (unvalued reports without accruals).
//
// Always with -a: row order among equal weights is another property's business.
type c17 struct {
	combos int
	minDig int
	// deep adds balances with 16 decimals (as valuation produces them: 8-decimal
	// quantity x 8-decimal price) that sit 4e-16 below a rounding boundary of
	// the -k rendering. Set to false to keep amounts at <= 14 decimals.
	deep bool
}

var ansiRe = regexp.MustCompile("\x1b\\[[0-9;]*m")

func init() { register("C17", func() core.Check { return &c17{} }) }

func (*c17) Level() string { return "exploration" }
func (*c17) Rule() string {
	return "case = journal from one of two generators (gen.Accepted with boundary-rich amounts, optionally prices/accruals; or a dedicated generator whose running *balances* per (account, commodity) are drawn from the rounding-boundary list scaled to the case's focus (--digits, -k), names up to 60 runes incl. multi-byte; with -k focus also 16-decimal balances 4e-16 below a boundary) x flag combinations (--digits -2..10 or omitted, -k/--thousands, window/interval/last/diff/close, -v with a price tree, -s), each rendered as text and as --csv with -a (the CSV run sometimes carries -k and --digits too: its amounts must stay exact), a third of the text tables with colours switched on (escape sequences removed, the remainder must equal the --color=false table byte for byte); oracle = equal rune width of all lines, '|'/'+' at the same rune columns in every line, text rows (minus separator/blank rows) 1:1 with CSV records cell by cell, every numeric text cell == independent big.Rat formatter(CSV amount, n, k) incl. digit grouping, zero => blank, and CSV account cells == reference ledger; non-trivial = report with >=4 numeric cells, >=1 of them on a rounding boundary or with a thousands separator or negative, and (multi-byte names or >=2 date columns); distinct = hash of journal text + flags"
}

func (k *c17) Setup(c *core.Ctx) (int, error) {
	k.combos = c.N(6, 8)
	// Negative --digits (rounding to tens/hundreds) are not mentioned by the
	// statement; the pinned tree agrees with the reference formatter on all
	// boundary amounts for n in {-2,-1} (checked on seeds 1-3 quick and 1
	// thorough), so they are part of the domain.
	k.minDig = -2
	k.deep = true
	return c.N(700, 6000), nil
}

func (*c17) Finish(c *core.Ctx) {
	c.Assume("a non-zero amount whose rounded value is zero may be printed as zero with n decimals, with or without a minus sign, or left blank: the statement does not pin the spelling")
	c.Assume("--digits in {-2,-1} is read as rounding half away from zero to tens/hundreds, printed without decimals (the statement only says 'requested number of digits')")
	c.Assume("reports are compared with -a so that the text and the CSV run list rows in the same order; valued reports use a price tree (unique price paths)")
	c.Assume("the exact-amount cross-check of the CSV against the reference ledger covers account rows of unvalued reports of journals without accruals; under --close rows below Equity are not cross-checked (C02 owns closing)")
}

// ---------------------------------------------------------------- independent formatter

var c17Ten = big.NewInt(10)

func c17Pow10(n int) *big.Int { return new(big.Int).Exp(c17Ten, big.NewInt(int64(n)), nil) }

// c17Round returns the amount (divided by 1000 with k) scaled by 10^n and
// rounded half away from zero, and whether it sat exactly on a rounding
// boundary (fraction .5).
func c17Round(v *big.Rat, n int, k bool) (N *big.Int, boundary bool) {
	x := new(big.Rat).Set(v)
	if k {
		x.Quo(x, big.NewRat(1000, 1))
	}
	if n >= 0 {
		x.Mul(x, new(big.Rat).SetInt(c17Pow10(n)))
	} else {
		x.Quo(x, new(big.Rat).SetInt(c17Pow10(-n)))
	}
	neg := x.Sign() < 0
	x.Abs(x)
	// floor(x + 1/2)
	y := new(big.Rat).Add(x, big.NewRat(1, 2))
	q := new(big.Int).Quo(y.Num(), y.Denom())
	boundary = y.IsInt()
	if neg {
		q.Neg(q)
	}
	return q, boundary
}

// c17Fixed renders N * 10^-n in fixed notation with exactly max(n,0) decimals,
// no sign.
func c17Fixed(N *big.Int, n int) (intPart, frac string) {
	s := new(big.Int).Abs(N).String()
	if n <= 0 {
		if s != "0" {
			s += strings.Repeat("0", -n)
		}
		return s, ""
	}
	for len(s) < n+1 {
		s = "0" + s
	}
	return s[:len(s)-n], s[len(s)-n:]
}

func c17Group(intPart string) string {
	var b strings.Builder
	for i, ch := range intPart {
		if i > 0 && (len(intPart)-i)%3 == 0 {
			b.WriteByte(',')
		}
		b.WriteRune(ch)
	}
	return b.String()
}

// c17Expect gives the accepted spellings of a cell: want is the canonical one;
// alts are other accepted spellings (silent zone).
func c17Expect(v *big.Rat, n int, k bool) (want string, alts []string, boundary bool) {
	if v.Sign() == 0 {
		return "", nil, false
	}
	N, boundary := c17Round(v, n, k)
	ip, fr := c17Fixed(N, n)
	s := c17Group(ip)
	if fr != "" {
		s += "." + fr
	}
	if N.Sign() == 0 {
		// non-zero amount that rounds to zero
		if v.Sign() < 0 {
			return s, []string{"-" + s, ""}, boundary
		}
		return s, []string{""}, boundary
	}
	if N.Sign() < 0 {
		s = "-" + s
	}
	return s, nil, boundary
}

// ---------------------------------------------------------------- text/CSV oracle

type c17Stats struct {
	numeric, boundary, grouped, negative, roundZero, zeroBlank int
	cols                                                       int
	multibyte                                                  bool
	maxName                                                    int
}

func (s c17Stats) nontrivial() bool {
	return s.numeric >= 4 && (s.boundary+s.grouped+s.negative) > 0 && (s.multibyte || s.cols >= 2)
}

// c17Geometry checks the rectangle.
func c17Geometry(out string) (lines []string, why, key string) {
	if !strings.HasSuffix(out, "\n") {
		return nil, "text report does not end with a newline", "shape"
	}
	body := strings.TrimRight(out, "\n")
	if body == "" {
		return nil, "text report is empty", "shape"
	}
	lines = strings.Split(body, "\n")
	first := []rune(lines[0])
	if len(first) < 3 || first[0] != '+' {
		return nil, fmt.Sprintf("first line is not a separator line: %q", lines[0]), "shape"
	}
	var cols []int
	for i, r := range first {
		switch r {
		case '+':
			cols = append(cols, i)
		case '-':
		default:
			return nil, fmt.Sprintf("separator line contains %q: %q", string(r), lines[0]), "shape"
		}
	}
	isCol := map[int]bool{}
	for _, p := range cols {
		isCol[p] = true
	}
	for li, line := range lines {
		rs := []rune(line)
		if len(rs) != len(first) {
			return nil, fmt.Sprintf("line %d is %d runes wide, line 1 is %d: %q vs %q", li+1, len(rs), len(first), line, lines[0]), "ragged"
		}
		sep := rs[0] == '+'
		for p, r := range rs {
			switch {
			case isCol[p]:
				if r != '|' && r != '+' {
					return nil, fmt.Sprintf("line %d has %q at rune column %d where line 1 has a column separator: %q", li+1, string(r), p, line), "misaligned"
				}
			case r == '|':
				return nil, fmt.Sprintf("line %d has '|' at rune column %d, line 1 has no column separator there: %q", li+1, p, line), "misaligned"
			case sep && r != '-':
				return nil, fmt.Sprintf("separator line %d has %q at rune column %d: %q", li+1, string(r), p, line), "misaligned"
			}
		}
	}
	return lines, "", ""
}

func c17Compare(text, csvOut string, n int, k bool) (why, key string, st c17Stats, b *tab.Balance) {
	if _, why, key = c17Geometry(text); why != "" {
		return why, key, st, nil
	}
	tt, err := tab.ParseText(text)
	if err != nil {
		return "text report cannot be cut into cells: " + err.Error(), "shape", st, nil
	}
	recs, err := tab.ParseCSV(csvOut)
	if err != nil {
		return "CSV report unreadable: " + err.Error(), "csv-shape", st, nil
	}
	var rows []tab.TextRow
	for _, r := range tt.Rows {
		if !r.Blank() {
			rows = append(rows, r)
		}
	}
	if len(rows) != len(recs) {
		return fmt.Sprintf("text report has %d non-blank rows, CSV has %d records", len(rows), len(recs)), "row-count", st, nil
	}
	if len(recs) == 0 {
		return "report without header", "shape", st, nil
	}
	hdr := recs[0]
	if len(hdr) == 0 || hdr[0] != "Account" {
		return fmt.Sprintf("CSV header %v", hdr), "csv-shape", st, nil
	}
	first := 1
	if len(hdr) > 1 && hdr[1] == "Comm" {
		first = 2
	}
	st.cols = len(hdr) - first
	for i, rec := range recs {
		tr := rows[i]
		if len(rec) != len(hdr) {
			return fmt.Sprintf("CSV record %d has %d fields, header has %d", i+1, len(rec), len(hdr)), "csv-shape", st, nil
		}
		if len(tr.Cells) != len(hdr) {
			return fmt.Sprintf("text row %d has %d cells, CSV has %d", i+1, len(tr.Cells), len(hdr)), "column-count", st, nil
		}
		for j := range rec {
			cell := strings.TrimSpace(tr.Cells[j])
			if i == 0 || j < first {
				if cell != rec[j] {
					return fmt.Sprintf("row %d column %d: text %q, CSV %q", i+1, j+1, cell, rec[j]), "label-cell", st, nil
				}
				if j == 0 && i > 0 {
					if len(rec[j]) != utf8.RuneCountInString(rec[j]) {
						st.multibyte = true
					}
					if l := utf8.RuneCountInString(rec[j]); l > st.maxName {
						st.maxName = l
					}
				}
				continue
			}
			if rec[j] == "" {
				if cell != "" {
					return fmt.Sprintf("row %d (%s) column %s: CSV cell is empty, text cell is %q", i+1, c17RowName(recs, i), hdr[j], cell), "extra-number", st, nil
				}
				continue
			}
			v, ok := new(big.Rat).SetString(rec[j])
			if !ok || strings.ContainsAny(rec[j], "eE/ ") {
				return fmt.Sprintf("row %d column %s: CSV cell %q is not a plain decimal", i+1, hdr[j], rec[j]), "csv-number", st, nil
			}
			st.numeric++
			want, alts, boundary := c17Expect(v, n, k)
			if boundary {
				st.boundary++
			}
			if strings.Contains(want, ",") {
				st.grouped++
			}
			if strings.HasPrefix(want, "-") {
				st.negative++
			}
			if v.Sign() == 0 {
				st.zeroBlank++
			}
			if v.Sign() != 0 && len(alts) > 0 {
				st.roundZero++
			}
			if cell == want {
				continue
			}
			okAlt := false
			for _, a := range alts {
				if cell == a {
					okAlt = true
				}
			}
			if okAlt {
				continue
			}
			where := fmt.Sprintf("row %d (%s %s) column %s, --digits %d, thousands=%v: amount %s", i+1, c17RowName(recs, i), c17CommOf(rec, first), hdr[j], n, k, rec[j])
			switch {
			case v.Sign() == 0:
				return fmt.Sprintf("%s: a zero amount must be a blank cell, text shows %q", where, cell), "zero-not-blank", st, nil
			case cell == "":
				return fmt.Sprintf("%s: text cell is blank, expected %q", where, want), "blank-nonzero", st, nil
			case strings.ReplaceAll(cell, ",", "") == strings.ReplaceAll(want, ",", ""):
				return fmt.Sprintf("%s: text shows %q, digit grouping must be %q", where, cell, want), "grouping", st, nil
			case strings.TrimPrefix(cell, "-") == strings.TrimPrefix(want, "-"):
				return fmt.Sprintf("%s: text shows %q, expected %q (sign)", where, cell, want), "sign", st, nil
			default:
				if k {
					// is it the amount/1000 rounded to 16 decimals first, then to n?
					N16, _ := c17Round(v, 16, true)
					x16 := new(big.Rat).SetFrac(N16, c17Pow10(16))
					if w16, _, _ := c17Expect(x16, n, false); cell == w16 {
						return fmt.Sprintf("%s: text shows %q, the amount divided by 1000 and rounded half away from zero gives %q (the shown value is what results from rounding the quotient to 16 decimals first)", where, cell, want), "thousands-double-rounding", st, nil
					}
				}
				return fmt.Sprintf("%s: text shows %q, rounding half away from zero gives %q", where, cell, want), "rounding", st, nil
			}
		}
	}
	b, _ = tab.ParseBalance(text, csvOut)
	return "", "", st, b
}

func c17RowName(recs [][]string, i int) string {
	for ; i > 0; i-- {
		if recs[i][0] != "" {
			return recs[i][0]
		}
	}
	return ""
}

func c17CommOf(rec []string, first int) string {
	if first == 2 {
		return rec[1]
	}
	return ""
}

// c17Exact cross-checks the CSV's account rows against the reference ledger.
func c17Exact(f ref.BalFlags, exp *ref.Expected, b *tab.Balance) (why string, checked int) {
	if b == nil || !b.HasComm {
		return "", 0
	}
	if len(b.Dates) != len(exp.Periods) {
		return "", 0 // column structure is C11's business
	}
	seen := map[ref.CellKey]bool{}
	for _, row := range b.Rows {
		if (row.Section != "AL" && row.Section != "EIE") || row.Comm == "" {
			continue
		}
		acc := row.Account()
		if f.Close && strings.HasPrefix(acc, "Equity") {
			continue
		}
		key := ref.CellKey{Account: acc, Com: row.Comm}
		seen[key] = true
		buckets, ok := exp.Buckets[key]
		if !ok {
			return fmt.Sprintf("CSV has a row %s %s %v, the reference ledger has no such position", acc, row.Comm, row.Cells), checked
		}
		want := ref.Cells(buckets, f.Diff, !ref.IsAL(acc))
		for ci, w := range want {
			got, ok := ratOrZero(row.Cells[ci])
			if !ok || got.Cmp(w) != 0 {
				return fmt.Sprintf("CSV cell %s %s column %s is %q, the exact amount is %s", acc, row.Comm, b.Dates[ci], row.Cells[ci], gen.DecString(w)), checked
			}
			checked++
		}
	}
	for key, buckets := range exp.Buckets {
		if seen[key] || ref.AllZero(buckets) || (f.Close && strings.HasPrefix(key.Account, "Equity")) {
			continue
		}
		return fmt.Sprintf("the reference ledger has amounts %s for %s %s, the CSV has no such row", fmtRats(ref.Cells(buckets, f.Diff, !ref.IsAL(key.Account))), key.Account, key.Com), checked
	}
	return "", checked
}

// ---------------------------------------------------------------- dedicated generator

var c17Alpha = [][]rune{
	[]rune("abcdefghijklmnopqrstuvwxyzABCDEFGHIJKLMNOPQRSTUVWXYZ0123456789"),
	[]rune("ÄÖÜäöüéèàçñßøÅ"),
	[]rune("現金銀行口座資産負債収益費用"),
	[]rune("ЯБГДЖЗИЛПФЦЧШЩЭЮ"),
	[]rune("αβγδεζηθλμπσω"),
}

var c17Words = []string{"Ärzte", "現金", "Bank", "Cash", "Zürich", "Öl", "Я", "a", "X9", "Wertschriften", "ÉtéÜber"}

func c17Segment(r *rand.Rand) string {
	switch r.Intn(6) {
	case 0, 1:
		return c17Pick(r, c17Words)
	case 2:
		// long, up to 60 runes, one alphabet
		al := c17Alpha[r.Intn(len(c17Alpha))]
		n := 20 + r.Intn(41)
		if r.Intn(3) == 0 {
			n = 60
		}
		return c17Runes(r, n, al)
	case 3:
		// mixed alphabets
		n := 1 + r.Intn(30)
		var b strings.Builder
		for i := 0; i < n; i++ {
			al := c17Alpha[r.Intn(len(c17Alpha))]
			b.WriteRune(al[r.Intn(len(al))])
		}
		return b.String()
	default:
		return c17Runes(r, 1+r.Intn(12), c17Alpha[0])
	}
}

func c17Runes(r *rand.Rand, n int, al []rune) string {
	var b strings.Builder
	for i := 0; i < n; i++ {
		b.WriteRune(al[r.Intn(len(al))])
	}
	return b.String()
}

func c17Pick(r *rand.Rand, xs []string) string { return xs[r.Intn(len(xs))] }

// mantissas placed at the rounding digit of the focus (n, k).
var c17Mant = []string{
	"0.5", "1.5", "2.5", "-0.5", "-1.5", "-2.5", "0.4999", "0.5001", "-0.4999", "-0.5001",
	"0.05", "0.005", "0.49", "0.51", "9.5", "99.5", "999.5", "-999.5", "9999.5", "999999.5", "-999999.5",
	"999.4999", "999.9995", "1000", "999", "999999", "1000000", "-1000", "999999999.5", "0.1", "-0.1",
	"0.04", "-0.04", "123456.5", "1234567.5", "12.5", "100", "1",
}

// absolute amounts from the statement's list.
var c17Abs = []string{
	"0.5", "-0.5", "999.5", "-999.5", "999999.5", "0.05", "0.005", "-0.005", "0.00000001", "-0.00000001",
	"1000000000000000", "-1000000000000000", "999999999999999.5", "1000", "999.9995", "999999.5", "1000000",
	"0.004", "-0.004", "0.0049", "123456789.123456789", "-1234.5678", "1", "-1", "999", "1000.5", "99999.995",
	"0.49999999", "0.50000001", "12345678.9", "100", "-100000",
}

func c17Value(r *rand.Rand, n int, k, deep bool) *big.Rat {
	if deep && k && n >= 0 && r.Intn(16) == 0 {
		// (x.5 at the rounding digit) * 1000 - 4e-16: 16 decimals; exact division
		// by 1000 stays below the boundary
		v := gen.Rat(c17Pick(r, []string{"0.5", "1.5", "999.5", "-0.5", "-2.5", "12.5"}))
		v.Quo(v, new(big.Rat).SetInt(c17Pow10(n)))
		v.Mul(v, big.NewRat(1000, 1))
		eps := new(big.Rat).SetFrac(big.NewInt(4), c17Pow10(16))
		if v.Sign() < 0 {
			return v.Add(v, eps)
		}
		return v.Sub(v, eps)
	}
	switch r.Intn(10) {
	case 0, 1, 2, 3, 4:
		v := gen.Rat(c17Pick(r, c17Mant))
		if n >= 0 {
			v.Quo(v, new(big.Rat).SetInt(c17Pow10(n)))
		} else {
			v.Mul(v, new(big.Rat).SetInt(c17Pow10(-n)))
		}
		if k {
			v.Mul(v, big.NewRat(1000, 1))
		}
		return v
	case 5, 6, 7:
		return gen.Rat(c17Pick(r, c17Abs))
	case 8:
		return new(big.Rat)
	default:
		return gen.Rat(gen.Amount(r, false, true))
	}
}

type c17Focus struct {
	n int
	k bool
}

// c17Journal builds a journal whose running balances hit boundary values.
func c17Journal(r *rand.Rand, fo c17Focus, valued, deep bool) (*gen.Journal, *gen.Info) {
	lo := cal.FromYMD(2019, 11, 1) + cal.Day(r.Intn(200))
	hi := lo + cal.Day(20+r.Intn(300))
	dates := gen.DatePool(r, lo, hi, 2+r.Intn(7))
	counter := "Equity:" + c17Pick(r, []string{"Opening", "Eröffnung", "開始"})
	seen := map[string]bool{counter: true}
	var leaves []string
	nacc := 2 + r.Intn(6)
	for tries := 0; len(leaves) < nacc && tries < 100; tries++ {
		var segs []string
		if len(leaves) > 0 && r.Intn(3) == 0 {
			// sibling / child of an existing account
			base := strings.Split(leaves[r.Intn(len(leaves))], ":")
			segs = append(segs, base[:1+r.Intn(len(base))]...)
		} else {
			segs = []string{gen.TypeNames[r.Intn(len(gen.TypeNames))]}
		}
		for extra := 1 + r.Intn(3); extra > 0 && len(segs) < 5; extra-- {
			segs = append(segs, c17Segment(r))
		}
		name := strings.Join(segs, ":")
		if seen[name] || len(segs) < 2 {
			continue
		}
		seen[name] = true
		leaves = append(leaves, name)
	}
	comPool := []string{"CHF", "USD", "EUR", "AAPL", "BTC", "Ünit", "JPY", "X1", "LONGCOMMODITYNAME123"}
	r.Shuffle(len(comPool), func(a, b int) { comPool[a], comPool[b] = comPool[b], comPool[a] })
	coms := comPool[:1+r.Intn(4)]
	info := &gen.Info{Accounts: append([]string{counter}, leaves...), Commodities: coms, Dates: dates, Permanent: map[string]bool{}}
	j := &gen.Journal{}
	if valued {
		// star of direct prices into coms[0]: unique price paths
		for _, cm := range coms[1:] {
			p := c17Pick(r, []string{"1", "0.5", "2", "1000", "0.001", "1.005", "0.3333", "1234.5", gen.PriceStr(r)})
			j.Dirs = append(j.Dirs, gen.Dir{Kind: gen.KPrice, Date: dates[0], Com: cm, Tgt: coms[0], Price: p})
			if len(dates) > 2 && r.Intn(2) == 0 {
				j.Dirs = append(j.Dirs, gen.Dir{Kind: gen.KPrice, Date: dates[1+r.Intn(len(dates)-1)], Com: cm, Tgt: coms[0], Price: gen.PriceStr(r)})
			}
		}
	}
	for _, a := range info.Accounts {
		j.Dirs = append(j.Dirs, gen.Dir{Kind: gen.KOpen, Date: dates[0], Acc: a})
		info.Permanent[a] = true
	}
	txns := map[cal.Day]*gen.Dir{}
	for _, a := range leaves {
		ncom := 1 + r.Intn(len(coms))
		perm := r.Perm(len(coms))
		for ci := 0; ci < ncom; ci++ {
			com := coms[perm[ci]]
			// balances at an ascending subset of the dates
			bal := new(big.Rat)
			for _, d := range dates {
				if r.Intn(2) == 0 && d != dates[0] {
					continue
				}
				target := c17Value(r, fo.n, fo.k, deep)
				if !ref.IsAL(a) {
					// non-A/L rows are displayed negated: aim the displayed value
					target.Neg(target)
				}
				delta := new(big.Rat).Sub(target, bal)
				if delta.Sign() == 0 {
					continue
				}
				bal = target
				t := txns[d]
				if t == nil {
					t = &gen.Dir{Kind: gen.KTxn, Date: d, Desc: gen.Desc(r)}
					txns[d] = t
				}
				t.Bookings = append(t.Bookings, gen.Booking{Credit: counter, Debit: a, Qty: gen.DecString(delta), Com: com})
			}
		}
	}
	var ds []cal.Day
	for d := range txns {
		ds = append(ds, d)
	}
	sort.Slice(ds, func(a, b int) bool { return ds[a] < ds[b] })
	for _, d := range ds {
		j.Dirs = append(j.Dirs, *txns[d])
	}
	if len(ds) == 0 {
		j.Dirs = append(j.Dirs, gen.Dir{Kind: gen.KTxn, Date: dates[0], Desc: "x", Bookings: []gen.Booking{{Credit: counter, Debit: leaves[0], Qty: "999.5", Com: coms[0]}}})
	}
	return j, info
}

// ---------------------------------------------------------------- case

func (k *c17) RunCase(c *core.Ctx, i int) {
	r := c.Rng(i, "journal")
	fo := c17Focus{n: r.Intn(11), k: r.Intn(3) == 0}
	if r.Intn(8) == 0 {
		fo.n = k.minDig + r.Intn(-k.minDig)
	}
	var (
		j      *gen.Journal
		info   *gen.Info
		prices bool
		kind   string
	)
	if i%2 == 0 {
		kind = "balances"
		prices = r.Intn(3) == 0
		j, info = c17Journal(r, fo, prices, k.deep)
	} else {
		kind = "accepted"
		o := gen.DefaultOpts(r)
		o.Unicode = r.Intn(2) == 0
		o.MaxDepth = 5
		o.Accruals = r.Intn(4) == 0
		o.Prices = r.Intn(2) == 0
		o.Lifecycle = r.Intn(3) == 0
		o.Assertions = r.Intn(3) == 0
		o.EquityEquity = r.Intn(2) == 0
		prices = o.Prices
		j, info = gen.Accepted(r, o)
	}
	text := j.Text()
	dir := c.CaseDir(i)
	defer os.RemoveAll(dir)
	writeFile(dir, "j.knut", text)
	fr := c.Rng(i, "flags")
	for cn := 0; cn < k.combos; cn++ {
		f := randPeriodFlags(fr, info.Dates)
		if kind == "balances" && fr.Intn(4) != 0 {
			f.Close = false // running balances of all account types stay on the boundaries
			if fr.Intn(3) != 0 {
				f.Diff = false
			}
		}
		n, kk := fo.n, fo.k
		if fr.Intn(2) == 0 {
			n = fr.Intn(11)
			if fr.Intn(8) == 0 {
				n = k.minDig + fr.Intn(-k.minDig)
			}
		}
		if fr.Intn(3) == 0 {
			kk = fr.Intn(2) == 0
		}
		base := append([]string{"balance", "--color=false", "-a"}, f.Argv()...)
		valued := false
		if prices && len(info.Commodities) > 0 && fr.Intn(2) == 0 {
			valued = true
			v := info.Commodities[0]
			if kind == "accepted" {
				v = info.Commodities[fr.Intn(len(info.Commodities))]
			}
			base = append(base, "-v", v)
			if fr.Intn(3) == 0 {
				base = append(base, "-s", []string{".", "Assets", "^Income", "Equity"}[fr.Intn(4)])
			}
		}
		argsT := append([]string{}, base...)
		if n != 0 || fr.Intn(2) == 0 {
			argsT = append(argsT, fmt.Sprintf("--digits=%d", n))
		}
		if kk {
			argsT = append(argsT, []string{"-k", "--thousands"}[fr.Intn(2)])
		}
		argsT = append(argsT, "j.knut")
		argsC := append(append([]string{}, base...), "--csv")
		if kk && fr.Intn(2) == 0 {
			// the CSV carries the exact amounts whatever the display flags say
			argsC = append(argsC, []string{"-k", "--thousands"}[fr.Intn(2)], fmt.Sprintf("--digits=%d", fr.Intn(6)))
		}
		argsC = append(argsC, "j.knut")
		// a third of the text tables are rendered with colours on (the flag's default): the
		// escape sequences are not part of the table, what remains must be the same table
		colored := fr.Intn(3) == 0
		var plain core.Result
		if colored {
			plain = knut(c, dir, nil, argsT...)
			for ai, a := range argsT {
				if a == "--color=false" {
					argsT[ai] = []string{"--color=true", "--color"}[fr.Intn(2)]
				}
			}
		}
		var envT []string
		if colored {
			envT = []string{"NO_COLOR="} // the harness' fixed environment switches colours off otherwise
		}
		rt := knut(c, dir, envT, argsT...)
		if colored {
			raw := string(rt.Stdout)
			rt.Stdout = ansiRe.ReplaceAll(rt.Stdout, nil)
			if rt.Class == "ok" && plain.Class == "ok" {
				c.Count("coloured_tables", 1)
				c.Count("colour_sequences", strings.Count(raw, "\x1b["))
				if string(rt.Stdout) != string(plain.Stdout) {
					c.Violation(core.Witness{Case: i, Key: "colour-changes-table", Why: "with colours on, the text table differs from the table rendered with --color=false after the escape sequences are removed: " + firstDiff(string(plain.Stdout), string(rt.Stdout)),
						Files: map[string][]byte{"j.knut": []byte(text)}, Cmd: knutCmd(c, envT, argsT...), Extra: map[string]string{"coloured.txt": raw, "plain.txt": string(plain.Stdout)}})
					return
				}
			}
		}
		rc := knut(c, dir, nil, argsC...)
		c.Eval(1)
		if rt.Class == "timeout" || rc.Class == "timeout" {
			c.Inconclusive(i, "timeout: "+knutCmd(c, nil, argsT...))
			continue
		}
		if (rt.Class == "ok") != (rc.Class == "ok") && rt.Class != "timeout" && rc.Class != "timeout" {
			// the two renderers are given the same report: one of them producing a table
			// and the other failing is a difference between the renderings
			c.Violation(core.Witness{Case: i, Key: "one-rendering-fails", Why: fmt.Sprintf("the text rendering ends with class %s, the CSV rendering of the same report with class %s: %s%s", rt.Class, rc.Class, firstLine(string(rt.Stderr)), firstLine(string(rc.Stderr))),
				Files: map[string][]byte{"j.knut": []byte(text)}, Cmd: knutCmd(c, envT, argsT...) + "\n" + knutCmd(c, nil, argsC...)})
			return
		}
		if rt.Class != "ok" || rc.Class != "ok" {
			// missing prices, empty windows: other properties judge failures
			c.NotJudged(1)
			c.Observe("not_judged_reason", firstLine(string(rt.Stderr))+firstLine(string(rc.Stderr)))
			continue
		}
		files := map[string][]byte{"j.knut": []byte(text)}
		cmd := knutCmd(c, nil, argsT...) + "\n" + knutCmd(c, nil, argsC...)
		extra := map[string]string{"observed.txt": string(rt.Stdout), "observed.csv": string(rc.Stdout)}
		why, key, st, b := c17Compare(string(rt.Stdout), string(rc.Stdout), n, kk)
		if why != "" && key != "ragged" && key != "misaligned" && key != "shape" {
			// the two renderings come from two runs: make sure the report itself is
			// reproducible before blaming the renderer
			rc2 := knut(c, dir, nil, argsC...)
			if string(rc2.Stdout) != string(rc.Stdout) {
				c.NotJudged(1)
				c.Count("report_not_reproducible", 1)
				continue
			}
		}
		if why != "" {
			c.Violation(core.Witness{Case: i, Key: key, Why: why, Files: files, Cmd: cmd, Extra: extra})
			if key == "thousands-double-rounding" {
				continue // the other flag combinations of this journal are still judged
			}
			return
		}
		c.Count("numeric_cells", st.numeric)
		c.Count("cells_on_rounding_boundary", st.boundary)
		c.Count("cells_with_thousands_separator", st.grouped)
		c.Count("negative_cells", st.negative)
		c.Count("nonzero_cells_rounding_to_zero", st.roundZero)
		c.Count("zero_cells_blank", st.zeroBlank)
		c.Observe("digits", fmt.Sprint(n))
		c.Observe("columns", fmt.Sprint(st.cols))
		c.Observe("max_name_runes", fmt.Sprint(st.maxName))
		if valued {
			c.Count("valued_reports", 1)
		}
		if kk {
			c.Count("thousands_reports", 1)
		}
		if !valued {
			if exp, err := ref.Report(j, f); err == nil {
				why, checked := c17Exact(f, exp, b)
				if why != "" {
					c.Violation(core.Witness{Case: i, Key: "csv-not-exact", Why: why, Files: files, Cmd: cmd, Extra: extra})
					return
				}
				c.Count("csv_cells_checked_against_ledger", checked)
			}
		}
		if st.nontrivial() {
			c.Nontrivial(text + "|" + strings.Join(argsT, " "))
			if c.WantSample() {
				c.Sample(map[string]any{"generator": kind, "journal": sampleJournal(text), "argv": strings.Join(argsT, " "),
					"stdout": core.Trunc(string(rt.Stdout), 1500), "csv": core.Trunc(string(rc.Stdout), 800)})
			}
		}
	}
}
