package checks

import (
	"fmt"
	"os"
	"sort"
	"strings"

	"kverif/core"
	"kverif/gen"
	"kverif/jr"
)

// C09 — print emits a normal form that round-trips.
type c09 struct{}

func init() { register("C09", func() core.Check { return &c09{} }) }

func (*c09) Level() string { return "exploration" }
func (*c09) Rule() string {
	return "case = generated accepted journal (negative/zero amounts, trailing zeros, accruals, @performance with 0..3 targets, several same-day assertions incl. multi-balance ones, Unicode names, multi-line descriptions), optionally spread over an include tree; oracle = P1=print(J) succeeds, check(P1) accepts, print(P1)==P1 byte for byte, balance(P1)==balance(J) under 5 flag sets, and the harness's own reader finds in P1 exactly the non-accrued directives of the abstract model (multiset on date, kind, fields); non-trivial = journal with >=10 directives incl. >=1 assertion and (an accrual or a negative amount or a multi-balance assertion); distinct = hash of journal text"
}

func (k *c09) Setup(c *core.Ctx) (int, error) { return c.N(1500, 15000), nil }

func (*c09) Finish(c *core.Ctx) {
	c.Assume("how an accrued leg is split into per-period amounts is not judged here (C10); accrued transactions are only required to round-trip (print∘print, equal balances)")
}

func genToJr(d gen.Dir) jr.Dir {
	x := jr.Dir{Date: d.Date.String(), Com: d.Com, Tgt: d.Tgt, Price: d.Price, Acc: d.Acc, Desc: d.Desc, HasPerf: d.HasPerf, Perf: d.Perf}
	switch d.Kind {
	case gen.KPrice:
		x.Kind = "price"
	case gen.KOpen:
		x.Kind = "open"
	case gen.KClose:
		x.Kind = "close"
	case gen.KAssert:
		x.Kind = "balance"
		for _, b := range d.Bals {
			x.Bals = append(x.Bals, jr.Bal{Acc: b.Acc, Qty: b.Qty, Com: b.Com})
		}
	case gen.KTxn:
		x.Kind = "txn"
		for _, b := range d.Bookings {
			x.Bookings = append(x.Bookings, jr.Booking{Credit: b.Credit, Debit: b.Debit, Qty: b.Qty, Com: b.Com})
		}
	}
	return x
}

func (k *c09) RunCase(c *core.Ctx, i int) {
	r := c.Rng(i, "journal")
	o := gen.DefaultOpts(r)
	o.Prices = r.Intn(2) == 0
	o.Small = o.Prices && r.Intn(2) == 0
	o.Lifecycle = r.Intn(2) == 0
	o.Assertions = true
	o.AssertFresh = r.Intn(3) == 0
	o.Accruals = r.Intn(2) == 0
	o.Perf = r.Intn(2) == 0
	o.SelfBook = r.Intn(5) == 0
	o.Unicode = r.Intn(2) == 0
	o.Depth1 = r.Intn(4) == 0
	j, info := gen.Accepted(r, o)
	lastDate := info.Dates[len(info.Dates)-1]
	if r.Intn(12) == 0 {
		gen.ShiftFar(r, j, 1) // period reports over the gap: keep it to 280 years
		for _, d := range j.Dirs {
			if d.Date > lastDate {
				lastDate = d.Date
			}
		}
	}
	// two contradictory prices of one pair on one day, declared in opposite directions and in a
	// random order of appearance: the later one in the source wins, before and after printing
	if o.Prices && r.Intn(4) == 0 {
		var ps []int
		for di, d := range j.Dirs {
			if d.Kind == gen.KPrice {
				ps = append(ps, di)
			}
		}
		if len(ps) > 0 {
			d0 := j.Dirs[ps[r.Intn(len(ps))]]
			a := gen.Dir{Kind: gen.KPrice, Date: d0.Date, Com: d0.Com, Tgt: d0.Tgt, Price: gen.PriceStr(r)}
			b := gen.Dir{Kind: gen.KPrice, Date: d0.Date, Com: d0.Tgt, Tgt: d0.Com, Price: gen.PriceStr(r)}
			if r.Intn(2) == 0 {
				a, b = b, a
			}
			for _, x := range []gen.Dir{a, b} {
				at := r.Intn(len(j.Dirs) + 1)
				j.Dirs = append(j.Dirs[:at], append([]gen.Dir{x}, j.Dirs[at:]...)...)
			}
		}
	}
	// tag accrued transactions, add multi-line descriptions
	acr := 0
	features := map[string]bool{}
	for di := range j.Dirs {
		d := &j.Dirs[di]
		if d.Kind != gen.KTxn {
			if d.Kind == gen.KAssert && len(d.Bals) > 1 {
				features["multi-balance"] = true
			}
			continue
		}
		if d.Accrual != nil {
			d.Desc = fmt.Sprintf("ACR%d %s", acr, d.Desc)
			acr++
			features["accrual"] = true
		} else if r.Intn(8) == 0 {
			d.Desc = d.Desc + "\n  second line " + gen.Desc(r)
			features["multiline-desc"] = true
		}
		for _, b := range d.Bookings {
			if strings.HasPrefix(b.Qty, "-") {
				features["negative"] = true
			}
		}
	}
	if r.Intn(2) == 0 {
		j.Shuffle(r)
	}
	var files map[string][]byte
	if r.Intn(3) == 0 {
		files = j.SplitTree(r, 2, 3)
	} else {
		files = map[string][]byte{"main.knut": []byte(j.Text())}
	}
	dir := c.CaseDir(i)
	defer os.RemoveAll(dir)
	core.WriteFiles(dir, files)
	fail := func(key, why string, extra map[string]string) {
		c.Violation(core.Witness{Case: i, Key: key, Why: why, Files: files, Cmd: "knut print main.knut > p1.knut && knut check p1.knut && knut print p1.knut | diff - p1.knut", Extra: extra})
	}
	p1 := knut(c, dir, nil, "print", "main.knut")
	c.Eval(1)
	if p1.Class != "ok" {
		fail("print-failed", "print fails on an accepted journal: "+fmtErr(p1), nil)
		return
	}
	writeFile(dir, "p1.knut", string(p1.Stdout))
	ex := map[string]string{"p1.knut": string(p1.Stdout)}
	chk := knut(c, dir, nil, "check", "p1.knut")
	c.Eval(1)
	if chk.Class != "ok" {
		key := "printed-journal-rejected"
		if strings.Contains(string(chk.Stderr), "parsing") || strings.Contains(string(chk.Stderr), "unexpected") {
			key = "printed-journal-unparseable"
		}
		fail(key, "the output of print is not an accepted journal: "+fmtErr(chk), ex)
		return
	}
	p2 := knut(c, dir, nil, "print", "p1.knut")
	c.Eval(1)
	if p2.Class != "ok" || string(p2.Stdout) != string(p1.Stdout) {
		ex["p2.knut"] = string(p2.Stdout)
		fail("print-not-idempotent", "print(print(J)) differs from print(J): "+firstDiff(string(p1.Stdout), string(p2.Stdout)), ex)
		return
	}
	to := (lastDate + 200).String()
	flagSets := [][]string{
		{"balance", "-a", "--to", to},
		{"balance", "-a", "--to", to, "--months", "--csv"},
		{"balance", "-a", "--to", to, "--quarters", "--diff", "--close=false", "--csv"},
		{"balance", "-a", "--to", to, "--years", "--digits", "4"},
	}
	if o.Prices {
		v := info.Commodities[r.Intn(len(info.Commodities))]
		flagSets = append(flagSets, []string{"balance", "-a", "--to", to, "-v", v, "--months", "--csv", "-s", "."})
	}
	for _, fs := range flagSets {
		a := knut(c, dir, nil, append(append([]string{}, fs...), "main.knut")...)
		b := knut(c, dir, nil, append(append([]string{}, fs...), "p1.knut")...)
		c.Eval(2)
		if a.Class != b.Class || string(a.Stdout) != string(b.Stdout) {
			ex["balance_original.txt"] = string(a.Stdout)
			ex["balance_printed.txt"] = string(b.Stdout)
			fail("balance-differs", fmt.Sprintf("`knut %s` of the printed journal differs from the original's (class %s vs %s): %s", strings.Join(fs, " "), b.Class, a.Class, firstDiff(string(a.Stdout), string(b.Stdout))), ex)
			return
		}
	}
	// census with the harness's own reader
	ds, err := jr.Read(string(p1.Stdout))
	if err != nil {
		fail("printed-journal-unreadable", "the harness's reader cannot read the printed journal: "+err.Error(), ex)
		return
	}
	want := map[string]int{}
	for _, d := range j.Dirs {
		if d.Kind == gen.KTxn && d.Accrual != nil {
			continue
		}
		want[genToJr(d).Key()]++
	}
	got := map[string]int{}
	for _, d := range ds {
		if d.Kind == "txn" && strings.HasPrefix(d.Desc, "ACR") {
			continue
		}
		got[d.Key()]++
	}
	var keys []string
	for kk := range want {
		keys = append(keys, kk)
	}
	for kk := range got {
		if _, ok := want[kk]; !ok {
			keys = append(keys, kk)
		}
	}
	sort.Strings(keys)
	for _, kk := range keys {
		if want[kk] != got[kk] {
			fail("census", fmt.Sprintf("directive %s occurs %d times in the journal but %d times in its printed form", kk, want[kk], got[kk]), ex)
			return
		}
	}
	c.Count("directives_matched", len(ds))
	for f := range features {
		c.Observe("features", f)
	}
	nAssert := 0
	for _, d := range j.Dirs {
		if d.Kind == gen.KAssert {
			nAssert++
		}
	}
	if len(j.Dirs) >= 10 && nAssert >= 1 && (features["accrual"] || features["negative"] || features["multi-balance"]) {
		c.Nontrivial(j.Text())
		if c.WantSample() {
			c.Sample(map[string]any{"journal": sampleJournal(j.Text()), "printed": core.Trunc(string(p1.Stdout), 1500)})
		}
	}
}
