//go:build nolib

package checks

import "kverif/core"

// runLib is unavailable: the harness was built without the in-process boundary.
func (k *c11) runLib(c *core.Ctx, i int) {
	c.Count("lib_boundary_unavailable", 1)
}
