//go:build !nolib

package checks

// The in-process (LIB) boundary of C12. It is compiled out with the build tag
// `nolib`, which ./run falls back to when the harness does not compile against
// the tree under test (an internal API changed); the CLI boundary still runs.

import (
	"fmt"
	"sort"
	"strings"

	"github.com/sboehler/knut/lib/model/commodity"
	"github.com/sboehler/knut/lib/model/price"
	"github.com/shopspring/decimal"

	"kverif/core"
)

func (k *c12) runLib(c *core.Ctx, i int, h c12Hist) bool {
	c.Eval(1)
	c.Observe("shape", h.Shape)
	reg := commodity.NewCommodities()
	coms := map[string]*commodity.Commodity{}
	for _, n := range h.Pool {
		cm, err := reg.Get(n)
		if err != nil {
			panic(err)
		}
		coms[n] = cm
	}
	prc := make(price.Prices)
	reported := map[string]bool{}
	nontrivial := false
	witness := func(day int, key, why string) bool {
		if reported[key] {
			return true
		}
		reported[key] = true
		c.Violation(core.Witness{Case: i, Key: key, Why: why + fmt.Sprintf(" [LIB, after the declarations of %s, V=%s]", h.Dates[day], h.V),
			Files: map[string][]byte{"prices.knut": []byte(h.pricesText(day))},
			Extra: map[string]string{"repro.go": h.repro(day)}})
		return key == "direct-price-not-preferred" || key == "nondeterministic-price"
	}
	for day := range h.Days {
		for di, d := range h.Days[day] {
			p, err := decimal.NewFromString(d.Price)
			if err != nil {
				panic(err)
			}
			if pv := guard(func() { err = prc.Insert(coms[d.Com], p, coms[d.Tgt]) }); pv != nil {
				return witness(day, "panic-insert", fmt.Sprintf("Insert(%s, %s, %s) panics: %v", d.Com, d.Price, d.Tgt, pv))
			}
			isZero := h.Zero && day == len(h.Days)-1 && di == len(h.Days[day])-1
			if isZero {
				c.Count("zero_prices", 1)
				if err == nil {
					return witness(day, "zero-price-accepted", fmt.Sprintf("Insert(%s, %s, %s) returns no error", d.Com, d.Price, d.Tgt))
				}
				return true // the history ends at the rejected price
			}
			if err != nil {
				return witness(day, "price-rejected", fmt.Sprintf("Insert(%s, %s, %s) fails: %v", d.Com, d.Price, d.Tgt, err))
			}
		}
		st := c12Replay(h, day)
		outcomes := map[string]map[string]bool{}
		for rep := 0; rep < c12Reps; rep++ {
			var np price.NormalizedPrices
			if pv := guard(func() { np = prc.Normalize(coms[h.V]) }); pv != nil {
				return witness(day, "panic-normalize", fmt.Sprintf("Normalize(%s) panics: %v", h.V, pv))
			}
			for _, n := range h.Pool {
				obs := ""
				if p, err := np.Price(coms[n]); err == nil {
					obs = p.String()
					v, err := np.Valuate(coms[n], decimal.NewFromInt(1))
					if err != nil || !v.Equal(p) {
						if !witness(day, "valuate-differs-from-price", fmt.Sprintf("Price(%s) = %s but Valuate(%s, 1) = %s, %v", n, p, n, v, err)) {
							return false
						}
					}
				} else if _, err := np.Valuate(coms[n], decimal.NewFromInt(1)); err == nil {
					if !witness(day, "unreachable-valued", fmt.Sprintf("Price(%s) fails but Valuate(%s, 1) succeeds", n, n)) {
						return false
					}
				}
				if outcomes[n] == nil {
					outcomes[n] = map[string]bool{}
				}
				outcomes[n][obs] = true
			}
		}
		derived, priced := 0, 0
		for _, n := range h.Pool {
			var vals []string
			for o := range outcomes[n] {
				vals = append(vals, o)
			}
			sort.Strings(vals)
			if len(vals) > 1 {
				if st.latest[pairKey(n, h.V)] != nil {
					c.Count("nondeterministic_directly_declared_pair", 1)
				} else {
					c.Count("nondeterministic_derived_only", 1)
				}
				if !witness(day, "nondeterministic-price", fmt.Sprintf("%d normalisations of the same declarations give different prices of %s in %s: %s", c12Reps, n, h.V, strings.Join(vals, " / "))) {
					return false
				}
			}
			for _, o := range vals {
				if key, why := st.judge(h.V, n, o); key != "" {
					if !witness(day, key, why) {
						return false
					}
				}
			}
			if n != h.V && st.reachable(h.V, n) {
				priced++
				if st.latest[pairKey(n, h.V)] == nil {
					derived++
				}
			} else if n != h.V {
				nontrivial = true // unreachable commodity
			}
		}
		if priced >= 2 && derived >= 1 {
			nontrivial = true
		}
		for _, l := range st.latest {
			if len(l.older) > 0 {
				nontrivial = true
			}
		}
	}
	if nontrivial && len(reported) == 0 {
		c.Nontrivial(h.pricesText(len(h.Days)) + "|" + h.V)
		if c.WantSample() && len(h.Days) >= 2 {
			c.Sample(map[string]any{"prices": h.pricesText(len(h.Days)), "V": h.V, "shape": h.Shape})
		}
	}
	return true
}
