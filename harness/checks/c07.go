package checks

import (
	"fmt"
	"go/ast"
	goparser "go/parser"
	"go/token"
	"os"
	"os/exec"
	"path/filepath"
	"regexp"
	"sort"
	"strconv"
	"strings"
	"sync/atomic"
	"time"

	"kverif/core"
	"kverif/gen"
	"kverif/syn"
)

// C07 — the parser is total and its tree is a lossless cover of the text.
//
// Boundary: the library, with the exact call sequence of syntax.ParseFile
// (parser.New, Advance, ParseFile), every call under recover and a watchdog.
// The monitor (package syn) knows the input text and judges what comes back.
type c07 struct {
	corpus  []c07entry
	cases   []c07case
	maxLong int
	hangs   int32
}

type c07entry struct {
	name     string
	text     string
	verbatim bool // a file of the repository, byte for byte
}

type c07case struct {
	family string
	entry  int
	lo, hi int // truncation offsets [lo,hi)
	n      int // inputs in the case
}

func init() { register("C07", func() core.Check { return &c07{} }) }

func (*c07) Level() string { return "exploration" }
func (*c07) Rule() string {
	return "inputs, deterministic from the seed: seed corpus (every .knut/.prices file of the repository, the string literals of the parser/scanner/printer tests, hand-written snippets, generated journals in canonical and in random layouts) x {verbatim, truncation at every byte offset, 1-3 stacked mutations out of: delete/duplicate/swap line or token, join tokens, indent, comment insertion, bit flip, insertion/replacement of invalid UTF-8 (lone, overlong, surrogate, truncated, >U+10FFFF), U+FFFD, NUL, BOM, CR, FF, exotic blanks and digits, line-end rewrites (CRLF, CR, LFCR), long tokens (64 KB quick, 1 MB thorough), unterminated quotes, '@' addon stacks, splices, repetition}, random token and directive sequences, random byte strings of length 0-64; each input is parsed in-process with the call sequence of syntax.ParseFile under recover and a watchdog, and the monitor judges the returned error chain (ranges inside the text, renderable; the rendered line:column recomputed from the end offset - newlines before it, characters since the last one - and present in Error()) or tree (ranges, nesting, order, Extract, lexical classes, gaps, re-concatenation); non-trivial = input that is not a verbatim corpus file and either parses to >=1 directive or fails with a positioned error after >=1 non-blank byte; distinct = hash of the input bytes"
}

func repoRoot() string {
	if r := os.Getenv("KV_REPO"); r != "" {
		return r
	}
	return "/repo"
}

func (k *c07) Setup(c *core.Ctx) (int, error) {
	k.maxLong = c.N(64<<10, 1<<20)
	seen := map[string]bool{}
	add := func(name, text string, verbatim bool) {
		if seen[text] && !verbatim {
			return
		}
		seen[text] = true
		k.corpus = append(k.corpus, c07entry{name, text, verbatim})
	}
	// (1) every journal / price file of the repository
	root := repoRoot()
	var files []string
	filepath.WalkDir(root, func(p string, d os.DirEntry, err error) error {
		if err != nil {
			return nil
		}
		if d.IsDir() && (d.Name() == ".git" || d.Name() == "node_modules") {
			return filepath.SkipDir
		}
		if !d.IsDir() && (strings.HasSuffix(p, ".knut") || strings.HasSuffix(p, ".prices")) {
			files = append(files, p)
		}
		return nil
	})
	sort.Strings(files)
	for _, f := range files {
		b, err := os.ReadFile(f)
		if err != nil {
			return 0, err
		}
		rel, _ := filepath.Rel(root, f)
		add("file:"+rel, string(b), true)
	}
	if len(files) == 0 {
		return 0, fmt.Errorf("no .knut/.prices files below %s", root)
	}
	c.Extra("corpus_files", len(files))
	// (2) string literals of the syntax tests
	lits := 0
	for _, tf := range []string{"lib/syntax/parser/parser_test.go", "lib/syntax/scanner/scanner_test.go", "lib/syntax/printer/printer_test.go"} {
		for _, s := range testLiterals(filepath.Join(root, tf)) {
			if len(s) <= 4096 {
				add("testlit:"+filepath.Base(tf), s, false)
				lits++
			}
		}
	}
	c.Extra("corpus_test_literals", lits)
	// (3) hand-written snippets
	for _, s := range syn.Snippets {
		add("snippet", s, false)
	}
	// (4) generated journals, canonical and in random layouts
	ng := c.N(10, 40)
	for g := 0; g < ng; g++ {
		r := c.Rng(-1-g, "corpus")
		o := gen.DefaultOpts(r)
		o.Days = 2 + r.Intn(5)
		o.Accruals, o.Perf, o.Assertions, o.Prices, o.Lifecycle = true, true, true, r.Intn(2) == 0, true
		o.Unicode = g%2 == 0
		j, _ := gen.Accepted(r, o)
		if len(j.Dirs) > 40 {
			j.Dirs = j.Dirs[:40]
		}
		add(fmt.Sprintf("gen:%d", g), j.Text(), false)
		lay := syn.Render(r, syn.Items(r, j))
		add(fmt.Sprintf("layout:%d", g), lay.Text, false)
	}
	c.Extra("corpus_entries", len(k.corpus))
	total := 0
	for _, e := range k.corpus {
		total += len(e.text)
	}
	c.Extra("corpus_bytes", total)

	// cases
	for ei, e := range k.corpus {
		// verbatim + truncation at every byte offset, in chunks
		const chunk = 1024
		for lo := 0; lo <= len(e.text); lo += chunk {
			hi := lo + chunk
			if hi > len(e.text)+1 {
				hi = len(e.text) + 1
			}
			k.cases = append(k.cases, c07case{family: "truncate-every-offset", entry: ei, lo: lo, hi: hi})
		}
	}
	for n := c.N(700, 14000); n > 0; n-- {
		k.cases = append(k.cases, c07case{family: "mutate", n: c.N(50, 150)})
	}
	for n := c.N(60, 1600); n > 0; n-- {
		k.cases = append(k.cases, c07case{family: "random-bytes", n: 250})
	}
	for n := c.N(150, 3000); n > 0; n-- {
		k.cases = append(k.cases, c07case{family: "token-soup", n: 100})
	}
	for n := c.N(100, 2000); n > 0; n-- {
		k.cases = append(k.cases, c07case{family: "directive-soup", n: 100})
	}
	return len(k.cases), nil
}

// testLiterals collects the string literals of a Go test file; the elements
// of a []string{...} literal are additionally joined with newlines (the tests
// build their inputs with strings.Join(..., "\n")).
func testLiterals(path string) []string {
	fset := token.NewFileSet()
	f, err := goparser.ParseFile(fset, path, nil, 0)
	if err != nil {
		return nil
	}
	var res []string
	ast.Inspect(f, func(n ast.Node) bool {
		switch x := n.(type) {
		case *ast.BasicLit:
			if x.Kind == token.STRING {
				if s, err := strconv.Unquote(x.Value); err == nil {
					res = append(res, s)
				}
			}
		case *ast.CompositeLit:
			if at, ok := x.Type.(*ast.ArrayType); ok {
				if id, ok := at.Elt.(*ast.Ident); ok && id.Name == "string" {
					var parts []string
					for _, el := range x.Elts {
						if bl, ok := el.(*ast.BasicLit); ok && bl.Kind == token.STRING {
							if s, err := strconv.Unquote(bl.Value); err == nil {
								parts = append(parts, s)
							}
						}
					}
					if len(parts) > 1 {
						res = append(res, strings.Join(parts, "\n"))
					}
				}
			}
		}
		return true
	})
	return res
}

// c07local aggregates observations of one case (flushed once, to keep the
// shared context out of the hot path).
type c07local struct {
	cur    *os.File // the input being judged, on disk before the parser sees it
	counts map[string]int
	sets   map[string]map[string]struct{}
}

func (l *c07local) count(name string, n int) { l.counts[name] += n }
func (l *c07local) observe(set, v string) {
	m := l.sets[set]
	if m == nil {
		m = map[string]struct{}{}
		l.sets[set] = m
	}
	m[v] = struct{}{}
}
func (l *c07local) flush(c *core.Ctx) {
	for k, v := range l.counts {
		c.Count(k, v)
	}
	for s, m := range l.sets {
		for v := range m {
			c.Observe(s, v)
		}
	}
}

func (k *c07) Finish(c *core.Ctx) {
	if !c.Quick() && !c.Replay && os.Getenv("KV_C07_CHILD") == "" {
		k.fuzz(c)
		k.raceChild(c)
	}
	c.Extra("error_classes", c.SetValues("error_class"))
	c.Extra("directive_kinds", c.SetValues("directive_kind"))
	c.Extra("mutators_applied", c.SetValues("mutator"))
	c.Assume("letters and digits are the Unicode classes (the statement does not restrict identifiers or numbers to ASCII); dates and decimals with non-ASCII digits that the parser accepts are counted (accepted_leaf_with_non_ascii_digits), not judged")
	c.Assume("whitespace in gaps is any Unicode space; comment lines start in column 0 with '#', '*' or '//' (README: lines starting with # or * are ignored; '//' from the parser tests)")
	c.Assume("Addons, Performance and Accrual elements that are entirely zero are absent annotations and carry no range to judge")
}

func (k *c07) RunCase(c *core.Ctx, i int) {
	if i < 0 || i >= len(k.cases) {
		fmt.Printf("C07: case %d is not a generated case (a finding of the fuzz target or of the -race run); use the cmd.sh of the replay directory\n", i)
		return
	}
	cs := k.cases[i]
	if atomic.LoadInt32(&k.hangs) >= 5 {
		// every confirmed hang leaves three spinning goroutines behind; the verdict is in
		c.NotJudged(1)
		return
	}
	dir := c.CaseDir(i)
	loc := &c07local{counts: map[string]int{}, sets: map[string]map[string]struct{}{}}
	defer loc.flush(c)
	loc.cur, _ = os.Create(filepath.Join(dir, "current-input"))
	if loc.cur != nil {
		defer loc.cur.Close()
	}
	ok := true
	switch cs.family {
	case "truncate-every-offset":
		e := k.corpus[cs.entry]
		for off := cs.lo; off < cs.hi && ok; off++ {
			verb := e.verbatim && off == len(e.text)
			mut := "truncate-every-offset"
			if off == len(e.text) {
				mut = "verbatim"
			}
			ok = k.one(c, i, dir, loc, e.text[:off], mut, verb, e.name)
		}
	case "mutate":
		r := c.Rng(i, "mutate")
		for n := 0; n < cs.n && ok; n++ {
			e := k.corpus[r.Intn(len(k.corpus))]
			// large files: mutate a window so that the mutation is not always far from the start
			text := e.text
			if len(text) > 8192 && r.Intn(4) != 0 {
				ls := strings.SplitAfter(text, "\n")
				a := r.Intn(len(ls))
				b := a + 1 + r.Intn(60)
				if b > len(ls) {
					b = len(ls)
				}
				text = strings.Join(ls[a:b], "")
			}
			other := k.corpus[r.Intn(len(k.corpus))].text
			depth := 1 + r.Intn(3)
			var names []string
			for d := 0; d < depth; d++ {
				m := syn.Mutations[r.Intn(len(syn.Mutations))]
				text = m.F(r, text, other, k.maxLong)
				names = append(names, m.Name)
				loc.observe("mutator", m.Name)
			}
			ok = k.one(c, i, dir, loc, text, strings.Join(names, "+"), false, e.name)
		}
	case "random-bytes":
		r := c.Rng(i, "random")
		loc.observe("mutator", "random-bytes")
		for n := 0; n < cs.n && ok; n++ {
			ok = k.one(c, i, dir, loc, syn.RandomBytes(r), "random-bytes", false, "-")
		}
	case "token-soup":
		r := c.Rng(i, "soup")
		loc.observe("mutator", "token-soup")
		for n := 0; n < cs.n && ok; n++ {
			ok = k.one(c, i, dir, loc, syn.TokenSoup(r), "token-soup", false, "-")
		}
	case "directive-soup":
		r := c.Rng(i, "dsoup")
		loc.observe("mutator", "directive-soup")
		for n := 0; n < cs.n && ok; n++ {
			text := syn.DirectiveSoup(r)
			mut := "directive-soup"
			if r.Intn(3) == 0 {
				m := syn.Mutations[r.Intn(len(syn.Mutations))]
				text = m.F(r, text, "", 4096)
				mut += "+" + m.Name
				loc.observe("mutator", m.Name)
			}
			ok = k.one(c, i, dir, loc, text, mut, false, "-")
		}
	}
	if ok {
		os.RemoveAll(dir)
	}
}

// one judges one input; false stops the case (a violation was reported).
func (k *c07) one(c *core.Ctx, i int, dir string, loc *c07local, text, mut string, verbatim bool, origin string) bool {
	// the input is on disk before the parser sees it (a fatal crash of the
	// process leaves it behind)
	if loc.cur != nil {
		loc.cur.WriteAt([]byte(text), 0)
		loc.cur.Truncate(int64(len(text)))
	}
	timeout := 30*time.Second + time.Duration(len(text)/20000)*time.Second
	var (
		out syn.Outcome
		f   *syn.Finding
		st  syn.Stats
	)
	run := func() bool {
		var o syn.Outcome
		var ff *syn.Finding
		var s syn.Stats
		done := syn.Watchdog(timeout, func() {
			o = syn.Parse(text, "input.knut")
			ff, s = syn.Judge(text, o)
		})
		if done {
			out, f, st = o, ff, s
		}
		return done
	}
	if !run() {
		// a firing watchdog is inconclusive unless it reproduces
		fired := 1
		for fired < 3 && !run() {
			fired++
		}
		if fired < 3 {
			c.Inconclusive(i, fmt.Sprintf("the watchdog (%s) fired %d time(s) on an input of %d bytes (%s) but a retry returned", timeout, fired, len(text), mut))
			return true
		}
		c.Eval(1)
		atomic.AddInt32(&k.hangs, 1)
		c.Violation(core.Witness{Case: i, Key: "hang", Why: fmt.Sprintf("the parser did not return within %s on an input of %d bytes, three times in a row (%s)", timeout, len(text), mut),
			Files: map[string][]byte{"input.knut": []byte(text)}, Cmd: "knut format input.knut   # goes through syntax.ParseFile, the judged call sequence"})
		return false
	}
	c.Eval(1)
	if f != nil {
		extra := map[string]string{"finding.txt": f.Key + "\n" + f.Why + "\nmutation: " + mut + "\norigin: " + origin + "\n"}
		if out.Panic != "" {
			extra["panic.txt"] = out.Panic
		}
		if out.Err != nil {
			if s, p := safeErrorString(out.Err); p == "" {
				extra["error.txt"] = s
			}
		}
		c.Violation(core.Witness{Case: i, Key: f.Key, Why: f.Why + fmt.Sprintf(" (input of %d bytes, %s)", len(text), mut),
			Files: map[string][]byte{"input.knut": []byte(text)},
			Cmd:   "knut format input.knut   # goes through syntax.ParseFile, the judged call sequence (parser.New, Advance, ParseFile)",
			Extra: extra})
		return false
	}
	if st.Accepted {
		loc.count("accepted", 1)
		loc.count("ranges_judged", st.Ranges)
		loc.count("gaps_judged", len(st.Gaps))
		loc.count("directives_judged", st.Directives)
		for _, kd := range st.Kinds {
			loc.observe("directive_kind", kd)
		}
		if st.NonASCIIDigit {
			loc.count("accepted_leaf_with_non_ascii_digits", 1)
		}
	} else {
		loc.count("rejected", 1)
		loc.count("error_positions_recomputed", st.LocChecked)
		var cl []string
		for _, m := range st.ErrChain {
			cl = append(cl, syn.ErrorClass(m))
		}
		loc.observe("error_class", cl[len(cl)-1])
		loc.observe("error_chain", strings.Join(cl, " < "))
	}
	loc.count("inputs_"+strings.SplitN(mut, "+", 2)[0], 1)
	// non-triviality
	if !verbatim {
		nt := false
		if st.Accepted && st.Directives >= 1 {
			nt = true
			loc.count("nontrivial_accepted", 1)
		} else if !st.Accepted && st.ErrDepth >= 1 && st.ErrEnd >= 1 && st.ErrEnd <= len(text) && strings.TrimSpace(text[:st.ErrEnd]) != "" {
			nt = true
			loc.count("nontrivial_rejected", 1)
		}
		if nt {
			c.Nontrivial(text)
			if c.WantSample() && len(text) < 400 && strings.Contains(mut, "+") {
				smp := map[string]any{"mutation": mut, "origin": origin, "input": text, "accepted": st.Accepted, "directive_kinds": st.Kinds}
				if out.Err != nil {
					s, _ := safeErrorString(out.Err)
					smp["error"] = s
				}
				c.Sample(smp)
			}
		}
	}
	return true
}

func safeErrorString(err error) (s string, panicked string) {
	defer func() {
		if r := recover(); r != nil {
			panicked = fmt.Sprint(r)
		}
	}()
	return err.Error(), ""
}

// ---------------------------------------------------------------- thorough extras

func c07env() []string {
	env := os.Environ()
	return append(env, "GOFLAGS=-mod=mod", "GOPROXY=off", "GOSUMDB=off", "GOTOOLCHAIN=local")
}

var (
	fuzzExecsRe = regexp.MustCompile(`execs: (\d+)`)
	fuzzFileRe  = regexp.MustCompile(`Failing input written to (\S+)`)
	fuzzWhyRe   = regexp.MustCompile(`(C0[78]) ([a-zA-Z0-9_.:-]+): (.*)`)
	childViolRe = regexp.MustCompile(`(?m)^VIOLATION property=C07 replay=(\S+) key=(\S+) (.*)$`)
	childSumRe  = regexp.MustCompile(`(?m)^SUMMARY .*$`)
)

// fuzz runs the coverage-guided target of package syn with an execution-count
// budget. It is supplementary: its inputs are not a function of the seed, so
// its executions are reported apart from the evaluations; a crasher is a
// violation with the failing input as witness. A missing toolchain or source
// tree is recorded, not judged.
func (k *c07) fuzz(c *core.Ctx) {
	src := filepath.Join(core.VerifRoot, "harness")
	if _, err := os.Stat(filepath.Join(src, "syn", "fuzz_test.go")); err != nil {
		c.Extra("fuzz", "not run: "+err.Error())
		return
	}
	goBin, err := exec.LookPath("go")
	if err != nil {
		c.Extra("fuzz", "not run: no go toolchain")
		return
	}
	const budget = 2000000
	cmd := exec.Command(goBin, "test", "-tags", "verif", "-run", "^$", "-fuzz", "^FuzzParse$", fmt.Sprintf("-fuzztime=%dx", budget), "./syn")
	cmd.Dir = src
	cmd.Env = c07env()
	out, err := cmd.CombinedOutput()
	text := string(out)
	execs := 0
	for _, m := range fuzzExecsRe.FindAllStringSubmatch(text, -1) {
		if n, _ := strconv.Atoi(m[1]); n > execs {
			execs = n
		}
	}
	c.Extra("fuzz_execs", execs)
	if err == nil {
		c.Extra("fuzz", fmt.Sprintf("go test -fuzz=FuzzParse -fuzztime=%dx: PASS", budget))
		return
	}
	m := fuzzFileRe.FindStringSubmatch(text)
	if m == nil {
		c.Extra("fuzz", "not judged: go test failed without a failing input: "+core.Trunc(text, 600))
		return
	}
	input := ""
	if b, err := os.ReadFile(filepath.Join(src, "syn", m[1])); err == nil {
		// corpus file: "go test fuzz v1\nstring(\"...\")\n"
		for _, ln := range strings.Split(string(b), "\n") {
			if strings.HasPrefix(ln, "string(") && strings.HasSuffix(ln, ")") {
				if s, err := strconv.Unquote(ln[len("string(") : len(ln)-1]); err == nil {
					input = s
				}
			}
		}
	}
	key, why := "fuzz-crasher", core.Trunc(text, 600)
	if w := fuzzWhyRe.FindStringSubmatch(text); w != nil {
		key, why = w[2], w[1]+": "+w[3]
	}
	c.Extra("fuzz", "FAIL: "+m[1])
	c.Violation(core.Witness{Case: -1, Key: key, Why: "found by go test -fuzz=FuzzParse: " + why,
		Files: map[string][]byte{"input.knut": []byte(input)},
		Cmd:   "knut format input.knut   # or: cd harness && go test -run 'FuzzParse/" + filepath.Base(m[1]) + "' ./syn",
		Extra: map[string]string{"go-test-output.txt": text}})
}

// raceChild runs the quick tier of this check once more through the harness
// binary built with -race (checkptr instrumentation active, parser and
// renderers under the race detector), on another seed.
func (k *c07) raceChild(c *core.Ctx) {
	build := os.Getenv("KV_BUILD")
	if build == "" {
		build = filepath.Join(core.VerifRoot, ".build")
	}
	bin := filepath.Join(build, "kv-race")
	if _, err := os.Stat(bin); err != nil {
		c.Extra("race_build_run", "not run: "+err.Error())
		return
	}
	root := filepath.Join(build, "c07-race-child")
	os.RemoveAll(root)
	os.MkdirAll(root, 0o755)
	cmd := exec.Command(bin, "C07", "quick")
	cmd.Env = append(os.Environ(), "KV_ROOT="+root, "KV_BUILD="+build, "KV_C07_CHILD=1", fmt.Sprintf("VERIF_SEED=%d", c.Seed+1000), "GORACE=halt_on_error=0")
	var so, se strings.Builder
	cmd.Stdout, cmd.Stderr = &so, &se
	err := cmd.Run()
	sum := childSumRe.FindString(so.String())
	c.Extra("race_build_run", sum)
	if strings.Contains(se.String(), "DATA RACE") || strings.Contains(se.String(), "checkptr") || strings.Contains(se.String(), "fatal error") {
		c.Violation(core.Witness{Case: -2, Key: "race-build-runtime-report", Why: "the -race build of the harness reported: " + core.Trunc(se.String(), 400),
			Extra: map[string]string{"stderr.txt": se.String()}})
	}
	for _, m := range childViolRe.FindAllStringSubmatch(so.String(), -1) {
		in, _ := os.ReadFile(filepath.Join(m[1], "files", "input.knut"))
		c.Violation(core.Witness{Case: -2, Key: m[2], Why: "in the -race build of the harness: " + m[3],
			Files: map[string][]byte{"input.knut": in}, Cmd: "knut format input.knut"})
	}
	if err != nil && sum == "" {
		c.Extra("race_build_run", "not judged: "+err.Error()+" "+core.Trunc(se.String(), 300))
	}
	if c.Violations() == 0 {
		os.RemoveAll(root)
	}
}
