package checks

import (
	"fmt"
	"math/rand"
	"os"
	"path/filepath"
	"sort"
	"strings"

	"kverif/core"
	"kverif/gen"
	"kverif/syn"
)

// C08 — format preserves meaning and comments and is idempotent.
//
// Boundary: the library (parser + syntax.FormatFile on the parsed text) for
// volume, and the CLI (`knut format f1 f2 ...` on scratch files) for the
// command path. Texts are renderings of abstract journals in random layouts;
// the abstract journal is the ground truth for what the text means.
type c08 struct {
	libCases int
	perCase  int
	cliCases int
}

func init() { register("C08", func() core.Check { return &c08{} }) }

func (*c08) Level() string { return "exploration" }
func (*c08) Rule() string {
	return "abstract journals (gen.Accepted with prices, lifecycle, assertions, accruals, @performance with 0..3 targets; includes added; descriptions made multi-line / comment-like / empty; account segments replaced by names of other rune and byte lengths; random prefixes and orders) are rendered by a layout generator (blanks, tabs, LF/CRLF/mixed, trailing blanks, addon order, blanks inside @performance(...), one-balance assertions on one or several lines, comment / heading / blank / whitespace-only lines between directives, comments directly before and after directives, missing final newline); mutants of these texts (1-2 mutations of the C07 mutator list) that still parse are judged too, the tree of T taking the place of the model; for text T of model A and F = format(T): F parses; tuples(parse F) = tuples(parse T) = tuples(A); gaps(T) = gaps(F) byte for byte, and the generator's own between-directive lines are found at the end of each gap of F; format(F) = F. CLI: `knut format f1..fk` (k = 1..4, some files broken by one mutation): a file the parser rejects keeps bytes and mode and the exit status is non-zero; when all files parse the exit status is 0 and every file holds exactly the in-process result; in mixed invocations a parseable file holds T or F. Non-trivial = F differs from T, >= 3 directives and >= 1 non-empty gap; distinct = hash of T"
}

func (k *c08) Setup(c *core.Ctx) (int, error) {
	k.perCase = 25
	k.libCases = c.N(20000, 400000) / k.perCase
	k.cliCases = c.N(800, 8000)
	return k.libCases + k.cliCases, nil
}

func (k *c08) Finish(c *core.Ctx) {
	c.Assume("the directive/gap boundary is the parser's (the statement speaks of 'text between directives'); independently of it, every whole line the generator put between two directives must be found, in order and byte for byte, at the end of the corresponding gap of the formatted text")
	c.Assume("annotations in front of a directive that is not a transaction are not generated: the parser accepts them and format drops them, but the statement is silent on what they mean")
	c.Assume("in an invocation where some other file fails, a parseable file may be left as it was or formatted (the statement does not say whether one failure stops the others); the mode of a rewritten file is not judged here (C18)")
}

// c08model draws an abstract journal and lays it out.
func c08model(r *rand.Rand) *syn.Layout {
	o := gen.DefaultOpts(r)
	o.Days = 2 + r.Intn(4)
	o.Accounts = 6 + r.Intn(5)
	o.TxnsPerDay = 1 + r.Intn(3)
	o.Accruals, o.Perf, o.Assertions = true, true, true
	o.AssertFresh = true
	o.Prices = r.Intn(2) == 0
	o.Lifecycle = r.Intn(2) == 0
	o.SelfBook = r.Intn(4) == 0
	o.Unicode = r.Intn(2) == 0
	j, _ := gen.Accepted(r, o)
	switch r.Intn(4) {
	case 0:
		j.Shuffle(r)
	case 1:
		j.SortChrono()
	}
	// sizes from one directive upwards
	if n := len(j.Dirs); r.Intn(3) == 0 && n > 1 {
		a := r.Intn(n)
		b := a + 1 + r.Intn(min(n-a, 12))
		j.Dirs = j.Dirs[a:b]
	} else if n > 30 {
		a := r.Intn(n - 30)
		j.Dirs = j.Dirs[a : a+30]
	}
	return syn.Render(r, syn.Items(r, j))
}

type c08verdict struct {
	F       string
	parses  bool
	judged  bool
	nontriv bool
	dirs    int
}

// judgeText applies the library oracle to one layout. ok=false: a violation
// was reported.
func (k *c08) judgeText(c *core.Ctx, i int, lay *syn.Layout) (v c08verdict, ok bool) {
	return k.judge(c, i, lay.Text, lay, "")
}

// judge: lay == nil means a text without a model (a mutant of a layout): the
// tree of T takes the model's place and the generator's gap lines are not
// available.
func (k *c08) judge(c *core.Ctx, i int, T string, lay *syn.Layout, mutation string) (v c08verdict, ok bool) {
	viol := func(key, why string, extra map[string]string) (c08verdict, bool) {
		if extra == nil {
			extra = map[string]string{}
		}
		if lay != nil {
			var mt []string
			for _, it := range lay.Items {
				mt = append(mt, it.Tuple())
			}
			extra["model-tuples.txt"] = strings.Join(mt, "\n") + "\n"
		} else {
			extra["mutation.txt"] = mutation + "\n"
		}
		c.Violation(core.Witness{Case: i, Key: key, Why: why,
			Files: map[string][]byte{"t.knut": []byte(T)},
			Cmd:   "cp t.knut f.knut && knut format f.knut && cp f.knut f2.knut && knut format f2.knut && diff t.knut f.knut; diff f.knut f2.knut",
			Extra: extra})
		return v, false
	}
	outT := syn.Parse(T, "t.knut")
	if outT.Panic != "" {
		// parser totality is C07's subject
		c.NotJudged(1)
		c.Count("parser_panic_not_judged_here", 1)
		return v, true
	}
	if outT.Err != nil && lay == nil {
		c.Count("mutants_rejected_by_parser", 1) // nothing to format
		return v, true
	}
	if outT.Err != nil {
		// the layout generator and the grammar disagree: no verdict on format
		c.Inconclusive(i, fmt.Sprintf("the parser rejects a layout the generator holds valid: %v / text: %q", outT.Err, core.Trunc(T, 200)))
		c.Count("layout_rejected_by_parser", 1)
		return v, true
	}
	v.parses = true
	if f, _ := syn.Judge(T, outT); f != nil {
		c.NotJudged(1)
		c.Count("tree_deviation_not_judged_here", 1) // C07 reports it
		return v, true
	}
	c.Eval(1)
	v.judged = true
	tupT := syn.TreeTuples(outT.File)
	model := tupT
	if lay != nil {
		model = nil
		for _, it := range lay.Items {
			model = append(model, it.Tuple())
		}
	} else {
		c.Count("mutants_judged", 1)
		c.Observe("mutant_kind", mutation)
	}
	v.dirs = len(model)
	if d := c08FirstDiff(model, tupT); d != "" {
		return viol("parse-differs-from-model-"+tupleKind(d), "the parsed text does not mean what the generator rendered: "+d, map[string]string{"parsed-tuples.txt": strings.Join(tupT, "\n") + "\n"})
	}
	F, err, pan := syn.Format(outT.File)
	v.F = F
	if pan != "" {
		return viol("format-panic", "syntax.FormatFile panicked: "+strings.SplitN(pan, "\n", 2)[0], map[string]string{"panic.txt": pan})
	}
	if err != nil {
		return viol("format-error", fmt.Sprintf("syntax.FormatFile failed on a parsed file: %v", err), nil)
	}
	outF := syn.Parse(F, "f.knut")
	if outF.Panic != "" || outF.Err != nil {
		why := outF.Panic
		if outF.Err != nil {
			why, _ = safeErrorString(outF.Err)
		}
		return viol("formatted-text-does-not-parse", "the formatted text does not parse: "+core.Trunc(why, 300), map[string]string{"formatted.knut": F})
	}
	if f, _ := syn.Judge(F, outF); f != nil {
		c.NotJudged(1)
		c.Count("tree_deviation_not_judged_here", 1)
		return v, true
	}
	tupF := syn.TreeTuples(outF.File)
	if d := c08FirstDiff(model, tupF); d != "" {
		return viol("format-changes-"+tupleKind(d), "formatting changed the directives: "+d, map[string]string{"formatted.knut": F, "formatted-tuples.txt": strings.Join(tupF, "\n") + "\n"})
	}
	gT, gF := syn.TreeGaps(T, outT.File), syn.TreeGaps(F, outF.File)
	for n := range gT {
		if n >= len(gF) || gT[n] != gF[n] {
			got := "<missing>"
			if n < len(gF) {
				got = gF[n]
			}
			return viol("format-changes-gap", fmt.Sprintf("the text between directives changed: gap %d was %q, is %q", n, core.Trunc(gT[n], 120), core.Trunc(got, 120)), map[string]string{"formatted.knut": F})
		}
	}
	// the generator's own whole-line material, independent of the parser's ranges
	var modelGaps []string
	if lay != nil {
		modelGaps = lay.Gaps
	}
	for n, m := range modelGaps {
		g := gF[n]
		if !strings.HasSuffix(g, m) {
			return viol("gap-material-lost", fmt.Sprintf("the lines the generator put before directive %d (%q) are not at the end of gap %d of the formatted text (%q)", n, core.Trunc(m, 120), n, core.Trunc(g, 120)), map[string]string{"formatted.knut": F})
		}
		rest := g[:len(g)-len(m)]
		if strings.TrimSpace(rest) != "" || strings.Count(rest, "\n") > 1 || (n == 0 && rest != "") {
			return viol("gap-material-grew", fmt.Sprintf("gap %d of the formatted text holds %q in front of the generator's lines", n, core.Trunc(rest, 120)), map[string]string{"formatted.knut": F})
		}
	}
	F2, err, pan := syn.Format(outF.File)
	if pan != "" || err != nil {
		return viol("format-fails-on-formatted-text", fmt.Sprintf("formatting the formatted text failed: %v %s", err, strings.SplitN(pan, "\n", 2)[0]), map[string]string{"formatted.knut": F})
	}
	if F2 != F {
		return viol("format-not-idempotent", "formatting the formatted text changes it again: "+firstTextDiff(F, F2), map[string]string{"formatted.knut": F, "formatted-twice.knut": F2})
	}
	nonEmptyGap := false
	for _, m := range gT {
		if strings.Contains(m, "\n") && strings.Trim(m, " \t\r") != "\n" {
			nonEmptyGap = true // more than the end of the directive's own line
		}
	}
	for _, m := range modelGaps {
		if m != "" {
			nonEmptyGap = true
		}
	}
	if F != T && len(model) >= 3 && nonEmptyGap {
		v.nontriv = true
		c.Nontrivial(T)
		if lay == nil {
			c.Count("nontrivial_mutants", 1)
			return v, true
		}
		for f := range lay.Features {
			c.Count("layout_"+f, 1)
		}
		if c.WantSample() && len(T) < 1200 && len(lay.Features) >= 6 {
			c.Sample(map[string]any{"text": T, "formatted": F, "features": featureList(lay), "directives": len(model)})
		}
	} else {
		c.Count("trivial_texts", 1)
	}
	return v, true
}

func featureList(lay *syn.Layout) []string {
	var fs []string
	for f := range lay.Features {
		fs = append(fs, f)
	}
	sort.Strings(fs)
	return fs
}

func tupleKind(diff string) string {
	// diff starts with "directive N: want <kind>|..."
	if i := strings.Index(diff, "want "); i >= 0 {
		rest := diff[i+5:]
		if j := strings.IndexAny(rest, "|< "); j > 0 {
			return rest[:j]
		}
	}
	return "sequence"
}

func c08FirstDiff(want, got []string) string {
	for n := range want {
		if n >= len(got) {
			return fmt.Sprintf("directive %d: want %s, got nothing (%d directives instead of %d)", n, core.Trunc(want[n], 200), len(got), len(want))
		}
		if want[n] != got[n] {
			return fmt.Sprintf("directive %d: want %s, got %s", n, core.Trunc(want[n], 200), core.Trunc(got[n], 200))
		}
	}
	if len(got) > len(want) {
		return fmt.Sprintf("directive %d: want <end>, got %s (%d directives instead of %d)", len(want), core.Trunc(got[len(want)], 200), len(got), len(want))
	}
	return ""
}

func firstTextDiff(a, b string) string {
	n := 0
	for n < len(a) && n < len(b) && a[n] == b[n] {
		n++
	}
	lo := max(0, n-30)
	return fmt.Sprintf("first difference at byte %d: %q vs %q", n, core.Trunc(a[lo:], 80), core.Trunc(b[lo:], 80))
}

// breakers are the mutations used to make a layout unparseable for the CLI
// branch (whether the mutant really is unparseable is decided by the parser:
// "a file that does not parse" is the statement's own premise).
var c08breakers = map[string]bool{
	"truncate": true, "delete-blank-lines": true, "indent-line": true, "join-tokens": true, "insert-hostile": true,
	"unterminated-quote": true, "delete-token": true, "swap-tokens": true, "bit-flip": true, "insert-comment-line": true, "line-ends": true,
}

func (k *c08) RunCase(c *core.Ctx, i int) {
	if i < k.libCases {
		for n := 0; n < k.perCase; n++ {
			r := c.Rng(i, fmt.Sprintf("text%d", n))
			lay := c08model(r)
			if _, ok := k.judgeText(c, i, lay); !ok {
				return
			}
			// texts outside the generator's layouts: mutants of the layout that still parse
			for m := 0; m < 2; m++ {
				T := lay.Text
				var names []string
				for d := 1 + r.Intn(2); d > 0; d-- {
					mu := syn.Mutations[r.Intn(len(syn.Mutations))]
					T = mu.F(r, T, lay.Text, 2048)
					names = append(names, mu.Name)
				}
				if _, ok := k.judge(c, i, T, nil, strings.Join(names, "+")); !ok {
					return
				}
			}
		}
		return
	}
	k.runCLI(c, i)
}

type c08file struct {
	name   string
	text   string
	mode   os.FileMode
	parses bool
	want   string // in-process result when it parses
	broken string
}

func (k *c08) runCLI(c *core.Ctx, i int) {
	r := c.Rng(i, "cli")
	dir := c.CaseDir(i)
	names := []string{"a.knut", "b b.knut", "Zürich.knut", "sub/c.knut", "d.prices"}
	r.Shuffle(len(names), func(a, b int) { names[a], names[b] = names[b], names[a] })
	nf := 1 + r.Intn(4)
	var muts []syn.Mutation
	for _, m := range syn.Mutations {
		if c08breakers[m.Name] {
			muts = append(muts, m)
		}
	}
	var files []c08file
	for n := 0; n < nf; n++ {
		lay := c08model(r)
		f := c08file{name: names[n], text: lay.Text, mode: []os.FileMode{0o644, 0o600, 0o640, 0o755, 0o444, 0o664}[r.Intn(6)]}
		switch {
		case r.Intn(10) < 3:
			m := muts[r.Intn(len(muts))]
			f.text = m.F(r, lay.Text, "", 4096)
			f.broken = m.Name
			out := syn.Parse(f.text, f.name)
			if out.Panic != "" {
				c.NotJudged(1)
				os.RemoveAll(dir)
				return
			}
			f.parses = out.Err == nil
			if f.parses {
				if fd, _ := syn.Judge(f.text, out); fd != nil {
					c.NotJudged(1) // C07's subject
					os.RemoveAll(dir)
					return
				}
				w, err, pan := syn.Format(out.File)
				if err != nil || pan != "" {
					c.Violation(core.Witness{Case: i, Key: "format-error", Why: fmt.Sprintf("syntax.FormatFile failed on a parsed file: %v %s", err, strings.SplitN(pan, "\n", 2)[0]),
						Files: map[string][]byte{"t.knut": []byte(f.text)}, Cmd: "knut format t.knut"})
					return
				}
				f.want = w
			}
		case r.Intn(25) == 0:
			f.text, f.parses, f.want = "", true, ""
		default:
			v, ok := k.judgeText(c, i, lay)
			if !ok {
				return
			}
			if !v.judged {
				os.RemoveAll(dir)
				return
			}
			f.parses, f.want = true, v.F
		}
		files = append(files, f)
	}
	args := []string{"format"}
	allParse := true
	for _, f := range files {
		p := writeFile(dir, f.name, f.text)
		if err := os.Chmod(p, f.mode); err != nil {
			panic(err)
		}
		args = append(args, f.name)
		if !f.parses {
			allParse = false
		}
	}
	res := knut(c, dir, nil, args...)
	if res.Class == "timeout" || res.Class == "starterror" {
		c.Inconclusive(i, "knut format: "+fmtErr(res))
		return
	}
	c.Eval(1)
	c.Count("cli_runs", 1)
	c.Count(fmt.Sprintf("cli_runs_with_%d_files", nf), 1)
	witness := func(key, why string) {
		fm := map[string][]byte{}
		var notes []string
		for _, f := range files {
			fm[f.name] = []byte(f.text)
			notes = append(notes, fmt.Sprintf("%s mode=%o parses=%v broken-by=%q", f.name, f.mode, f.parses, f.broken))
		}
		c.Violation(core.Witness{Case: i, Key: key, Why: why, Files: fm, Cmd: knutCmd(c, nil, args...),
			Extra: map[string]string{"files.txt": strings.Join(notes, "\n") + "\n", "stderr.txt": string(res.Stderr), "stdout.txt": string(res.Stdout)}})
	}
	if res.Class != "ok" && res.Class != "error" {
		c.Count("cli_abnormal_class_"+res.Class, 1) // clean failure is C14's subject
	}
	if allParse && res.Exit != 0 {
		witness("cli-fails-on-parseable-files", "all files parse but `knut format` fails: "+fmtErr(res))
		return
	}
	if !allParse && res.Exit == 0 {
		witness("cli-exit-0-with-unparseable-file", "a file does not parse but `knut format` exits 0")
		return
	}
	if allParse {
		c.Count("cli_runs_all_parseable", 1)
	} else {
		c.Count("cli_runs_with_unparseable", 1)
	}
	for _, f := range files {
		p := filepath.Join(dir, f.name)
		got, err := os.ReadFile(p)
		if err != nil {
			witness("cli-file-gone", fmt.Sprintf("%s cannot be read after `knut format`: %v", f.name, err))
			return
		}
		fi, err := os.Stat(p)
		if err != nil {
			witness("cli-file-gone", fmt.Sprintf("%s: %v", f.name, err))
			return
		}
		switch {
		case !f.parses:
			c.Count("cli_unparseable_files", 1)
			c.Observe("cli_breaker", f.broken)
			if string(got) != f.text {
				witness("cli-unparseable-file-modified", fmt.Sprintf("%s does not parse (broken by %s) but its bytes changed: %s", f.name, f.broken, firstTextDiff(f.text, string(got))))
				return
			}
			if fi.Mode().Perm() != f.mode {
				witness("cli-unparseable-file-mode-changed", fmt.Sprintf("%s does not parse but its mode changed from %o to %o", f.name, f.mode, fi.Mode().Perm()))
				return
			}
		case allParse:
			c.Count("cli_formatted_files", 1)
			if string(got) != f.want {
				witness("cli-differs-from-library-format", fmt.Sprintf("%s after `knut format` is not the in-process result: %s", f.name, firstTextDiff(f.want, string(got))))
				return
			}
		default:
			if string(got) == f.want {
				c.Count("cli_mixed_parseable_formatted", 1)
			} else if string(got) == f.text {
				c.Count("cli_mixed_parseable_untouched", 1)
			} else {
				witness("cli-mixed-file-corrupted", fmt.Sprintf("%s parses, another file does not; after `knut format` it is neither the original nor the formatted text: %s", f.name, firstTextDiff(f.want, string(got))))
				return
			}
		}
	}
	os.RemoveAll(dir)
}
