package checks

import (
	"fmt"
	"math/big"
	"math/rand"
	"os"
	"path/filepath"
	"strings"
	"time"

	"kverif/cal"
	"kverif/core"
	"kverif/gen"
	"kverif/ref"
)

// knut runs the plain binary in dir.
func knut(c *core.Ctx, dir string, env []string, args ...string) core.Result {
	return execCounted(c, core.Cmd{
		Argv: append([]string{c.Knut}, args...), Dir: dir, Env: env,
		Timeout: 40 * time.Second, Fsize: -1,
	})
}

// execCounted runs a command and charges a watchdog firing to the run's budget.
func execCounted(c *core.Ctx, cmd core.Cmd) core.Result {
	res := core.Exec(cmd)
	if res.Class == "timeout" {
		c.Timeout()
	}
	return res
}

func knutCmd(c *core.Ctx, env []string, args ...string) string {
	return core.Cmd{Argv: append([]string{"knut"}, args...), Env: env}.Shell()
}

func writeFile(dir, name, content string) string {
	p := filepath.Join(dir, name)
	os.MkdirAll(filepath.Dir(p), 0o755)
	if err := os.WriteFile(p, []byte(content), 0o644); err != nil {
		panic(err)
	}
	return p
}

func ratOrZero(s string) (*big.Rat, bool) {
	s = strings.TrimSpace(s)
	if s == "" {
		return new(big.Rat), true
	}
	r, ok := new(big.Rat).SetString(s)
	return r, ok
}

// randWindow draws --from/--to around the journal's dates.
func randWindow(r *rand.Rand, dates []cal.Day) (from, to *cal.Day) {
	lo, hi := dates[0], dates[len(dates)-1]
	t := hi + cal.Day(400)
	switch r.Intn(6) {
	case 0:
		t = hi + cal.Day(r.Intn(40))
	case 1:
		t = lo + cal.Day(r.Intn(int(hi-lo)+1))
	case 2:
		t = dates[r.Intn(len(dates))]
	case 3:
		t = hi
	}
	to = &t
	switch r.Intn(5) {
	case 0:
		f := lo - cal.Day(r.Intn(40))
		from = &f
	case 1:
		f := lo + cal.Day(r.Intn(int(hi-lo)+1))
		from = &f
	case 2:
		f := dates[r.Intn(len(dates))]
		from = &f
	}
	if from != nil && *from > *to {
		from, to = to, from
	}
	return
}

// randPeriodFlags draws window / interval / last / diff / close.
func randPeriodFlags(r *rand.Rand, dates []cal.Day) ref.BalFlags {
	var f ref.BalFlags
	f.From, f.To = randWindow(r, dates)
	f.Interval = cal.Interval(r.Intn(6))
	if f.Interval == cal.Daily {
		// keep daily reports small
		lo, hi := dates[0], dates[len(dates)-1]
		if f.To != nil && *f.To > hi {
			hi = *f.To
		}
		if int(hi-lo) > 60 {
			if r.Intn(2) == 0 {
				f.Last = 1 + r.Intn(10)
			} else {
				fr := *f.To - cal.Day(r.Intn(40))
				f.From = &fr
			}
		}
	}
	if f.Last == 0 {
		f.Last = []int{0, 0, 0, 1, 2, 5}[r.Intn(6)]
	}
	f.Diff = r.Intn(3) == 0
	f.Close = r.Intn(2) == 0
	return f
}

func flagsSig(f ref.BalFlags, extra ...string) string {
	return strings.Join(append(f.Argv(), extra...), " ")
}

func sampleJournal(text string) string { return core.Trunc(text, 1500) }

func fmtRats(rs []*big.Rat) string {
	var ss []string
	for _, r := range rs {
		ss = append(ss, gen.DecString(r))
	}
	return "[" + strings.Join(ss, " ") + "]"
}

func fmtErr(res core.Result) string {
	return fmt.Sprintf("class=%s exit=%d stderr=%q", res.Class, res.Exit, core.Trunc(string(res.Stderr), 400))
}

// guard runs a call into the code under test in-process and turns a panic of
// that code into a value (a panic of the code under test is a verdict, not a
// harness failure).
func guard(f func()) (panicked any) {
	defer func() {
		if r := recover(); r != nil {
			panicked = fmt.Sprint(r)
		}
	}()
	f()
	return nil
}
