package checks

import (
	"bytes"
	"fmt"
	"math/big"
	"os"
	"sort"
	"strings"
	"sync"

	"kverif/cal"
	"kverif/core"
	"kverif/stmt"
)

// C13 — importers turn every statement row into a valid, faithful journal entry.
//
// Per importer, package stmt generates well-formed statements (shape taken from
// the importer's golden input) together with the row model. The oracle reads
// the importer's stdout O with the harness's own journal reader and judges:
//
//	(1) exit 0 and O is accepted by knut's parser (`knut format` on a copy);
//	(2) opens + O is accepted by `knut check`, `knut print` of it is idempotent
//	    and carries exactly the directives of opens + O;
//	(3) transactions <-> booking rows is a bijection on (date, per-currency
//	    effect on the import account); the only other directives are the
//	    balance assertions / prices the statement carries; only the accounts
//	    given on the command line (plus Expenses:TBD, and the valuation mirror
//	    for revolut) occur and every booking touches the import account;
//	(4) half of the statements carry hostile free text.
type c13 struct {
	gens []stmt.Generator
	per  int

	mu     sync.Mutex
	perKey map[string]int // violations seen per key (all are counted, the first two are reported as witnesses)
}

func init() { register("C13", func() core.Check { return &c13{} }) }

func (*c13) Level() string { return "exploration" }
func (*c13) Rule() string {
	return "per importer (11), statements are generated from a grammar derived from the importer's golden input: 0..40 booking rows, month/year-end and leap-day dates, debit/credit rows, amounts over six magnitudes with the format's group separators, the non-booking lines of the real format (headers, totals, carried balances, cancelled/pending rows), LF or CRLF; every second statement has hostile free text (double quotes, `;` `,` `'` `#` `*` `@`, addon / directive look-alikes, non-ASCII, 500-2000 character fields, CR/LF inside quoted cells where the format quotes cells). Oracle: exit 0; stdout parses (knut format); opens+stdout passes knut check, knut print of it is idempotent and carries the same directives; the harness's own reader matches transactions to rows 1:1 on (date, currency, signed amount on the import account) and finds nothing else than the assertions/prices the statement carries. non-trivial = a statement with >=3 booking rows whose transactions, assertions and prices were all matched; distinct = hash of importer + statement bytes"
}

func (k *c13) Setup(c *core.Ctx) (int, error) {
	k.gens = stmt.All()
	k.perKey = map[string]int{}
	if len(k.gens) != 11 {
		return 0, fmt.Errorf("expected 11 statement generators, have %d", len(k.gens))
	}
	k.per = c.N(150, 3000)
	dev := map[string]string{}
	for _, g := range k.gens {
		dev[g.Name()] = g.Deviations()
	}
	c.Extra("deviations_from_one_transaction_per_row", dev)
	c.Extra("statements_per_importer", k.per)
	c.Extra("witness_policy", "every violation is counted under violations[<key>]; only the first two of each key are written as witnesses (core keeps 40 per run in arrival order, frequent kinds would crowd out rare ones)")
	return k.per * len(k.gens), nil
}

func (*c13) Finish(c *core.Ctx) {
	c.Assume("a well-formed statement is one the generator grammar produces: the golden input's header lines, encodings, delimiters, date and amount formats; cells are quoted per RFC 4180 when (and only when, unless the golden input quotes them always) they contain the delimiter, a double quote or a line break")
	c.Assume("statement balances are generated consistent with a zero opening balance, so the balance assertions an importer derives from them hold under knut check")
	c.Assume("interactivebrokers: cash amounts and quantities have <=2 decimals (the importer rounds several columns to 2 decimals; the property statement is silent on rounding); viac: daily values are never exact rounding ties")
	c.Assume("cumulus: the 4-column payment row `Ihre LSV-Zahlung` is treated as a non-booking row because the importer's golden file pins that it is dropped; wise: cross-currency IN rows are not generated; swisscard2: credits are generated with a negative Betrag")
}

type c13case struct {
	k        *c13
	c        *core.Ctx
	i        int
	dir      string
	g        stmt.Generator
	st       *stmt.Statement
	o        stmt.Opts
	res      core.Result
	violated bool
	out      string // stdout under judgement (garbage lines removed once reported)
}

func (k *c13) RunCase(c *core.Ctx, i int) {
	g := k.gens[i%len(k.gens)]
	n := i / len(k.gens)
	o := stmt.Opts{Hostile: n%2 == 1}
	st := g.Generate(c.Rng(i, "stmt"), o)
	dir := c.CaseDir(i)
	defer os.RemoveAll(dir)
	cs := &c13case{k: k, c: c, i: i, dir: dir, g: g, st: st, o: o}
	sh := st.Short
	c.Count(sh+"_statements", 1)
	c.Count(sh+"_rows", st.BookingRows)
	c.Count(sh+"_expected_transactions", len(st.Txns))
	if len(st.Assertions) > 0 {
		c.Count(sh+"_expected_assertions", len(st.Assertions))
	}
	if len(st.Prices) > 0 {
		c.Count(sh+"_expected_prices", len(st.Prices))
	}
	if o.Hostile {
		c.Count(sh+"_hostile_statements", 1)
	}
	for _, f := range st.FeatureList() {
		c.Observe("feature", sh+":"+f)
	}
	cs.run()
	if cs.violated {
		c.Count(sh+"_statements_with_violation", 1)
	}
}

func (cs *c13case) violation(kind, why string, extra map[string]string) {
	st := cs.st
	cs.violated = true
	ex := map[string]string{
		"stdout.txt":   string(cs.res.Stdout),
		"stderr.txt":   string(cs.res.Stderr),
		"expected.txt": cs.expectedText(),
	}
	for k, v := range extra {
		ex[k] = v
	}
	// core keeps at most 40 witnesses per run in arrival order; so that rare
	// kinds are not crowded out by frequent ones, only the first two
	// violations of a key become witnesses, all are counted in the evidence
	key := st.Short + "-" + kind
	cs.c.Count("violations["+key+"]", 1)
	cs.k.mu.Lock()
	cs.k.perKey[key]++
	nth := cs.k.perKey[key]
	cs.k.mu.Unlock()
	if nth > 2 {
		return
	}
	cs.c.Violation(core.Witness{Case: cs.i, Key: key,
		Why:   fmt.Sprintf("%s (hostile=%v, %d booking rows): %s", st.Importer, cs.o.Hostile, st.BookingRows, why),
		Files: map[string][]byte{st.FileName: st.File},
		Cmd:   knutCmd(cs.c, nil, st.Argv()...) + " > out.knut", Extra: ex})
}

func (cs *c13case) expectedText() string {
	var b strings.Builder
	st := cs.st
	fmt.Fprintf(&b, "import account: %s\nbooking rows: %d, other rows: %d\n\nrows:\n", st.Account, st.BookingRows, st.OtherRows)
	for i, n := range st.RowNotes {
		fmt.Fprintf(&b, "  %3d  %s\n", i, n)
	}
	b.WriteString("\nexpected transactions (date, effect on the import account):\n")
	for _, t := range st.Txns {
		fmt.Fprintf(&b, "  row %3d  %-28s %s\n", t.Row, t.Note, stmt.EffectKey(t.Date, dropZero(t.Import)))
	}
	b.WriteString("\nexpected assertions:\n")
	for _, a := range st.Assertions {
		fmt.Fprintf(&b, "  %s %s %s %s\n", a.Date, a.Account, stmt.RatDec(a.Amount), a.Commodity)
	}
	b.WriteString("\nexpected prices:\n")
	for _, p := range st.Prices {
		fmt.Fprintf(&b, "  %s %s %s %s\n", p.Date, p.Commodity, stmt.RatDec(p.Price), p.Target)
	}
	return b.String()
}

// importAgain runs the importer on a counterfactual statement (same random
// draws, one knob changed). It reports the importer's result, whether its
// output (stray lines removed) parses, and whether a watchdog fired.
func (cs *c13case) importAgain(o stmt.Opts) (res core.Result, parseOK, timedOut bool) {
	st2 := cs.g.Generate(cs.c.Rng(cs.i, "stmt"), o)
	sub := cs.dir + "/cf"
	os.MkdirAll(sub, 0o755)
	writeFile(sub, st2.FileName, string(st2.File))
	res = knut(cs.c, sub, nil, st2.Argv()...)
	cs.c.Eval(1)
	if res.Class != "ok" {
		return res, false, flaky(res.Class)
	}
	// stray lines are a separate finding: judge the rest
	text := string(res.Stdout)
	if jr, _ := stmt.ReadJournal(text); len(jr.Garbage) > 0 {
		text = dropLines(text, jr.Garbage)
	}
	writeFile(sub, "cf.knut", text)
	f := knut(cs.c, sub, nil, "format", "cf.knut")
	return res, f.Class == "ok", flaky(f.Class)
}

func stderrSlug(res core.Result) string {
	se := string(res.Stderr)
	switch {
	case res.Class == "panic":
		return "panic"
	case strings.Contains(se, "invalid commodity name"):
		return "invalid-commodity"
	case strings.Contains(se, "can't convert") && strings.Contains(se, ","):
		return "number-with-separator"
	case strings.Contains(se, "can't convert"):
		return "number"
	case strings.Contains(se, "bare \"") || strings.Contains(se, "extraneous or missing \""):
		return "csv-quote"
	case strings.Contains(se, "wrong number of fields"):
		return "csv-field-count"
	case strings.Contains(se, "parsing time"):
		return "date"
	}
	return "other"
}

func (cs *c13case) run() {
	c, st := cs.c, cs.st
	sh := st.Short
	writeFile(cs.dir, st.FileName, string(st.File))
	cs.res = knut(c, cs.dir, nil, st.Argv()...)
	c.Eval(1)
	res := cs.res
	if flaky(res.Class) {
		c.Inconclusive(cs.i, "import timed out")
		return
	}
	// ---- (1a) exit status
	if res.Class != "ok" {
		slug := stderrSlug(res)
		switch {
		case st.HasOddSymbol && slug == "invalid-commodity":
			o2 := cs.o
			o2.NoOddSymbols = true
			r2, _, to := cs.importAgain(o2)
			if to {
				c.Inconclusive(cs.i, "counterfactual import timed out")
				return
			}
			// without the odd ticker the importer gets past this error
			if r2.Class == "ok" || stderrSlug(r2) != "invalid-commodity" {
				slug = "symbol-not-alphanumeric"
			}
		case st.HasQuote:
			o2 := cs.o
			o2.NoQuote = true
			r2, _, to := cs.importAgain(o2)
			if to {
				c.Inconclusive(cs.i, "counterfactual import timed out")
				return
			}
			if r2.Class == "ok" {
				slug = "double-quote-in-text"
			}
		}
		cs.violation("import-fails-"+slug, "the importer rejects a well-formed statement: "+fmtErr(res), nil)
		return
	}
	cs.out = string(res.Stdout)

	// ---- (1b) stdout parses with knut's parser; the harness's reader agrees
	jr, rerr := stmt.ReadJournal(cs.out)
	parses, to, diag := cs.knutParses(cs.out)
	if to {
		c.Inconclusive(cs.i, "knut format timed out")
		return
	}
	if !parses && len(jr.Garbage) > 0 {
		var gl []string
		for _, g := range jr.Garbage {
			gl = append(gl, fmt.Sprintf("line %d: %q", g.Line, core.Trunc(g.Text, 120)))
		}
		cs.violation("stdout-garbage", fmt.Sprintf("stdout contains %d line(s) that are no journal syntax, so the output does not parse: %s", len(gl), strings.Join(gl[:min(len(gl), 3)], "; ")), nil)
		// keep judging what remains once the stray lines are removed
		cs.out = dropLines(cs.out, jr.Garbage)
		jr, rerr = stmt.ReadJournal(cs.out)
		if parses, to, diag = cs.knutParses(cs.out); to {
			c.Inconclusive(cs.i, "knut format timed out")
			return
		}
	}
	if !parses {
		kind := "unparseable"
		if st.HasQuote {
			o2 := cs.o
			o2.NoQuote = true
			r2, pok, to := cs.importAgain(o2)
			if to {
				c.Inconclusive(cs.i, "counterfactual import timed out")
				return
			}
			if r2.Class == "ok" && pok {
				kind = "unparseable-quote"
			}
		}
		why := "knut's own parser rejects the importer's output"
		if kind == "unparseable-quote" {
			why = "a double quote in a free-text cell is copied unescaped into the description, knut's own parser rejects the output (the same statement with ' instead of \" parses)"
		}
		perr := ""
		if rerr != nil {
			perr = "; harness reader: " + rerr.Error()
		}
		cs.violation(kind, why+": "+core.Trunc(diag, 300)+perr, map[string]string{"judged-output.txt": cs.out})
		return
	}
	if rerr != nil || len(jr.Garbage) > 0 {
		// knut accepts it, the harness's reader does not: a limitation of the
		// reader, never a verdict
		c.Inconclusive(cs.i, fmt.Sprintf("%s: harness reader disagrees with knut's parser: %v garbage=%d", st.Importer, rerr, len(jr.Garbage)))
		c.Count("reader_disagreements", 1)
		return
	}

	// ---- (3) rows <-> transactions, nothing else
	okRows := cs.judgeRows(jr)

	// ---- (2) check accepts opens + O; print is idempotent and loss-free
	okPrint := cs.judgeCheckPrint(jr)

	if okRows {
		c.Count(sh+"_statements_fully_matched", 1)
		if st.BookingRows >= 3 {
			c.Nontrivial(st.Importer + "\x00" + string(st.File))
			c.Count(sh+"_nontrivial", 1)
			if okPrint && c.WantSample() && st.BookingRows <= 8 && len(st.File) < 1800 && cs.o.Hostile {
				c.Sample(map[string]any{"importer": st.Importer, "argv": st.Argv(), "statement": core.Trunc(string(st.File), 3000),
					"stdout": core.Trunc(string(res.Stdout), 3000), "row_model": strings.Split(cs.expectedText(), "\n")})
			}
		}
	}
}

// flaky classes say nothing about knut: the watchdog fired or the process could
// not be started.
func flaky(class string) bool { return class == "timeout" || class == "starterror" }

func dropLines(text string, gs []stmt.Garbage) string {
	drop := map[int]bool{}
	for _, g := range gs {
		drop[g.Line] = true
	}
	var kept []string
	for n, l := range strings.SplitAfter(text, "\n") {
		if !drop[n+1] {
			kept = append(kept, l)
		}
	}
	return strings.Join(kept, "")
}

// knutParses runs knut's parser (knut format on a scratch copy). A watchdog
// firing is reported separately: it is never "does not parse".
func (cs *c13case) knutParses(text string) (ok, timedOut bool, diag string) {
	writeFile(cs.dir, "parse.knut", text)
	f := knut(cs.c, cs.dir, nil, "format", "parse.knut")
	cs.c.Eval(1)
	if flaky(f.Class) || f.Class == "signal" {
		return false, true, ""
	}
	return f.Class == "ok", false, strings.TrimSpace(string(f.Stderr))
}

func dropZero(m map[string]*big.Rat) map[string]*big.Rat {
	res := map[string]*big.Rat{}
	for k, v := range m {
		if v.Sign() != 0 {
			res[k] = v
		}
	}
	return res
}

// judgeRows is oracle (3). It reports whether everything matched.
func (cs *c13case) judgeRows(jr *stmt.Journal) bool {
	st := cs.st
	ok := true
	fail := func(kind, why string, extra map[string]string) {
		ok = false
		cs.violation(kind, why, extra)
	}
	allowed := map[string]bool{}
	for _, a := range st.Accounts {
		allowed[a] = true
	}
	// expected multisets
	expT := map[string][]int{} // key -> indexes into st.Txns
	for i, t := range st.Txns {
		k := stmt.EffectKey(t.Date, dropZero(t.Import))
		expT[k] = append(expT[k], i)
	}
	expA := map[string]int{}
	for _, a := range st.Assertions {
		expA[fmt.Sprintf("%s %s %s %s", a.Date, a.Account, stmt.RatDec(a.Amount), a.Commodity)]++
	}
	expP := map[string]int{}
	for _, p := range st.Prices {
		expP[fmt.Sprintf("%s %s %s %s", p.Date, p.Commodity, stmt.RatDec(p.Price), p.Target)]++
	}
	mT, mA, mP := 0, 0, 0
	var extraT []*stmt.JDir
	var extraA, extraP []string
	matchedPairs := map[int]*stmt.JDir{}
	for di := range jr.Dirs {
		d := &jr.Dirs[di]
		switch d.Kind {
		case "txn":
			for _, b := range d.Bookings {
				for _, a := range []string{b.Credit, b.Debit} {
					if !allowed[a] && ok {
						fail("unknown-account", fmt.Sprintf("the transaction at output line %d books on %s, which is neither given on the command line nor Expenses:TBD", d.Line, a), nil)
					}
				}
				if (b.Credit == st.Account) == (b.Debit == st.Account) && ok {
					fail("foreign-booking", fmt.Sprintf("the booking %s -> %s of the transaction at output line %d does not move anything on or off the import account %s", b.Credit, b.Debit, d.Line, st.Account), nil)
				}
			}
			k := stmt.EffectKey(d.Date, dropZero(d.Effects(st.Account)))
			if idx := expT[k]; len(idx) > 0 {
				matchedPairs[idx[0]] = d
				expT[k] = idx[1:]
				mT++
			} else {
				extraT = append(extraT, d)
			}
		case "balance":
			for _, b := range d.Balances {
				k := fmt.Sprintf("%s %s %s %s", d.Date, b.Account, stmt.RatDec(b.Qty), b.Commodity)
				if expA[k] > 0 {
					expA[k]--
					mA++
				} else {
					extraA = append(extraA, k)
				}
			}
		case "price":
			k := fmt.Sprintf("%s %s %s %s", d.Date, d.Commodity, stmt.RatDec(d.Price), d.Target)
			if expP[k] > 0 {
				expP[k]--
				mP++
			} else {
				extraP = append(extraP, k)
			}
		default:
			fail("extra-directive", fmt.Sprintf("the importer emitted a %q directive at output line %d; the statement carries none", d.Kind, d.Line), nil)
		}
	}
	var missT []int
	for _, idx := range expT {
		missT = append(missT, idx...)
	}
	sort.Ints(missT)
	if len(missT) > 0 || len(extraT) > 0 {
		kind, why := cs.classifyTxns(missT, extraT, matchedPairs)
		var ob strings.Builder
		ob.WriteString("expected but not emitted:\n")
		for _, i := range missT {
			t := st.Txns[i]
			fmt.Fprintf(&ob, "  row %d (%s): %s\n", t.Row, t.Note, stmt.EffectKey(t.Date, dropZero(t.Import)))
		}
		ob.WriteString("emitted but not expected:\n")
		for _, d := range extraT {
			fmt.Fprintf(&ob, "  output line %d %q: %s\n", d.Line, core.Trunc(d.Desc, 60), stmt.EffectKey(d.Date, dropZero(d.Effects(st.Account))))
		}
		fail(kind, why, map[string]string{"observed.txt": ob.String()})
	}
	missing := func(m map[string]int) []string {
		var res []string
		for k, n := range m {
			for ; n > 0; n-- {
				res = append(res, k)
			}
		}
		sort.Strings(res)
		return res
	}
	if mA := missing(expA); len(mA) > 0 || len(extraA) > 0 {
		kind := "assertion-extra"
		switch {
		case len(mA) > 0 && len(extraA) > 0:
			kind = "assertion-value"
		case len(mA) > 0:
			kind = "assertion-missing"
		}
		fail(kind, fmt.Sprintf("balance assertions differ from the balances the statement carries: missing %v, unexpected %v", trunc3(mA), trunc3(extraA)),
			map[string]string{"observed.txt": "missing:\n" + strings.Join(mA, "\n") + "\nunexpected:\n" + strings.Join(extraA, "\n") + "\n"})
	}
	if mP := missing(expP); len(mP) > 0 || len(extraP) > 0 {
		kind := "price-extra"
		switch {
		case len(mP) > 0 && len(extraP) > 0:
			kind = "price-value"
		case len(mP) > 0:
			kind = "price-missing"
		}
		fail(kind, fmt.Sprintf("prices differ from the values the statement carries: missing %v, unexpected %v", trunc3(mP), trunc3(extraP)),
			map[string]string{"observed.txt": "missing:\n" + strings.Join(mP, "\n") + "\nunexpected:\n" + strings.Join(extraP, "\n") + "\n"})
	}
	// counter accounts the statement format itself determines (fee column ...)
	if ok {
		if bad := cs.counterAccounts(matchedPairs); bad != "" {
			fail("counter-account", bad, nil)
		}
	}
	sh := st.Short
	cs.c.Count(sh+"_matched_transactions", mT)
	if mA > 0 {
		cs.c.Count(sh+"_matched_assertions", mA)
	}
	if mP > 0 {
		cs.c.Count(sh+"_matched_prices", mP)
	}
	return ok
}

func trunc3(s []string) []string {
	if len(s) > 3 {
		return append(append([]string{}, s[:3]...), fmt.Sprintf("... %d more", len(s)-3))
	}
	return s
}

// counterAccounts compares, per import-effect key, the multiset of complete
// per-account effects of expected and emitted transactions (only for
// transactions whose counter accounts the statement determines).
func (cs *c13case) counterAccounts(pairs map[int]*stmt.JDir) string {
	st := cs.st
	full := func(date cal.Day, accts map[string]map[string]bool, eff func(a string) string) string {
		var as []string
		for a := range accts {
			as = append(as, a)
		}
		sort.Strings(as)
		var parts []string
		for _, a := range as {
			if e := eff(a); e != date.String() {
				parts = append(parts, a+"{"+strings.TrimPrefix(e, date.String()+" ")+"}")
			}
		}
		return strings.Join(parts, " ")
	}
	exp, got := map[string]int{}, map[string]int{}
	for i, t := range st.Txns {
		if t.Others == nil {
			continue
		}
		d := pairs[i]
		if d == nil {
			continue
		}
		key := stmt.EffectKey(t.Date, dropZero(t.Import))
		accE := map[string]map[string]bool{}
		for a := range t.Others {
			accE[a] = nil
		}
		e := full(t.Date, accE, func(a string) string { return stmt.EffectKey(t.Date, dropZero(t.Others[a])) })
		accG := map[string]map[string]bool{}
		for _, b := range d.Bookings {
			for _, a := range []string{b.Credit, b.Debit} {
				if a != st.Account {
					accG[a] = nil
				}
			}
		}
		g := full(d.Date, accG, func(a string) string { return stmt.EffectKey(d.Date, dropZero(d.Effects(a))) })
		exp[key+" => "+e]++
		got[key+" => "+g]++
	}
	for k, n := range exp {
		if got[k] != n {
			var gs []string
			for g := range got {
				if exp[g] != got[g] {
					gs = append(gs, g)
				}
			}
			sort.Strings(gs)
			return fmt.Sprintf("the import account is booked correctly but the counter accounts differ from what the statement's columns say: expected %q, emitted %v", k, trunc3(gs))
		}
	}
	return ""
}

// classifyTxns names the kind of row/transaction mismatch.
func (cs *c13case) classifyTxns(miss []int, extra []*stmt.JDir, pairs map[int]*stmt.JDir) (string, string) {
	st := cs.st
	if len(miss) > 0 && len(extra) > 0 {
		m := st.Txns[miss[0]]
		me := dropZero(m.Import)
		for _, x := range extra {
			xe := dropZero(x.Effects(st.Account))
			sameDate := x.Date == m.Date
			neg, same, sameCur, sameAmts := len(xe) == len(me) && len(me) > 0, len(xe) == len(me), len(xe) == len(me), false
			for c, v := range me {
				w, ok := xe[c]
				if !ok {
					neg, same, sameCur = false, false, false
					continue
				}
				if w.Cmp(v) != 0 {
					same = false
				}
				if w.Cmp(negRat(v)) != 0 {
					neg = false
				}
			}
			if len(xe) == len(me) {
				var a, b []string
				for _, v := range me {
					a = append(a, stmt.RatDec(v))
				}
				for _, v := range xe {
					b = append(b, stmt.RatDec(v))
				}
				sort.Strings(a)
				sort.Strings(b)
				sameAmts = strings.Join(a, " ") == strings.Join(b, " ")
			}
			desc := fmt.Sprintf("row %d (%s) should yield %s; the output has %s (line %d) instead", m.Row, m.Note,
				stmt.EffectKey(m.Date, me), stmt.EffectKey(x.Date, xe), x.Line)
			switch {
			case sameDate && neg:
				return "sign", "sign flipped: " + desc
			case !sameDate && same:
				return "date", "wrong date: " + desc
			case sameDate && !sameCur && sameAmts:
				return "currency", "wrong currency: " + desc
			case sameDate && sameCur && !same:
				return "amount", "wrong amount: " + desc
			}
		}
		return "mismatch", fmt.Sprintf("%d expected transactions are missing and %d unexpected ones are present; first missing: row %d (%s) %s",
			len(miss), len(extra), m.Row, m.Note, stmt.EffectKey(m.Date, me))
	}
	if len(miss) > 0 {
		m := st.Txns[miss[0]]
		return "row-dropped", fmt.Sprintf("%d booking row(s) yield no transaction; first: row %d (%s) %s", len(miss), m.Row, m.Note, stmt.EffectKey(m.Date, dropZero(m.Import)))
	}
	x := extra[0]
	xk := stmt.EffectKey(x.Date, dropZero(x.Effects(st.Account)))
	for _, t := range st.Txns {
		if stmt.EffectKey(t.Date, dropZero(t.Import)) == xk {
			return "row-duplicated", fmt.Sprintf("%d transaction(s) too many; the one at output line %d repeats row %d: %s", len(extra), x.Line, t.Row, xk)
		}
	}
	return "row-extra", fmt.Sprintf("%d transaction(s) stem from no booking row; first at output line %d: %s", len(extra), x.Line, xk)
}

func negRat(v *big.Rat) *big.Rat { return new(big.Rat).Neg(v) }

// judgeCheckPrint is oracle (2): opens for every account used, dated before
// the first directive, followed by the output, must pass `knut check`; `knut
// print` of it must be idempotent and carry exactly the same directives.
func (cs *c13case) judgeCheckPrint(jr *stmt.Journal) bool {
	c, st := cs.c, cs.st
	var ob strings.Builder
	var opens []stmt.JDir
	if first, ok := jr.MinDate(); ok {
		for _, a := range jr.AccountsUsed() {
			fmt.Fprintf(&ob, "%s open %s\n", first-1, a)
			opens = append(opens, stmt.JDir{Kind: "open", Date: first - 1, Account: a})
		}
		if len(opens) > 0 {
			ob.WriteString("\n")
		}
	}
	oprime := ob.String() + cs.out
	writeFile(cs.dir, "oprime.knut", oprime)
	extra := map[string]string{"oprime.knut": oprime}
	chk := knut(c, cs.dir, nil, "check", "oprime.knut")
	c.Eval(1)
	if flaky(chk.Class) {
		c.Inconclusive(cs.i, "check timed out")
		return false
	}
	if chk.Class != "ok" {
		kind := "check-rejects"
		if strings.Contains(string(chk.Stderr), "failed assertion") {
			kind = "check-rejects-assertion"
		}
		cs.violation(kind, "with every account opened before the first row, knut check rejects the importer's output: "+fmtErr(chk), extra)
		return false
	}
	p1 := knut(c, cs.dir, nil, "print", "oprime.knut")
	c.Eval(1)
	if p1.Class != "ok" {
		if flaky(p1.Class) {
			c.Inconclusive(cs.i, "print timed out")
			return false
		}
		cs.violation("print-fails", "knut check accepts opens + output but knut print fails on it: "+fmtErr(p1), extra)
		return false
	}
	writeFile(cs.dir, "p1.knut", string(p1.Stdout))
	extra["print1.knut"] = string(p1.Stdout)
	p2 := knut(c, cs.dir, nil, "print", "p1.knut")
	c.Eval(1)
	if flaky(p2.Class) {
		c.Inconclusive(cs.i, "print timed out")
		return false
	}
	if p2.Class != "ok" || !bytes.Equal(p1.Stdout, p2.Stdout) {
		extra["print2.knut"] = string(p2.Stdout)
		cs.violation("print-not-idempotent", "knut print of (opens + output) is not reproduced by printing it again: "+fmtErr(p2), extra)
		return false
	}
	pj, perr := stmt.ReadJournal(string(p1.Stdout))
	if perr != nil || len(pj.Garbage) > 0 {
		c.Inconclusive(cs.i, fmt.Sprintf("%s: harness reader cannot read knut print's output: %v", st.Importer, perr))
		c.Count("reader_disagreements", 1)
		return false
	}
	want := map[string]int{}
	for i := range opens {
		want[opens[i].Canon()]++
	}
	for i := range jr.Dirs {
		want[jr.Dirs[i].Canon()]++
	}
	for i := range pj.Dirs {
		want[pj.Dirs[i].Canon()]--
	}
	var diff []string
	for k, n := range want {
		if n > 0 {
			diff = append(diff, "lost by print: "+core.Trunc(k, 200))
		} else if n < 0 {
			diff = append(diff, "only in print: "+core.Trunc(k, 200))
		}
	}
	if len(diff) > 0 {
		sort.Strings(diff)
		cs.violation("print-changes", fmt.Sprintf("knut print does not reproduce the importer's directives: %s", strings.Join(trunc3(diff), "; ")), extra)
		return false
	}
	return true
}
