//go:build !nolib

package checks

// The in-process (LIB) boundary of C11 (see c12_lib.go for the build-tag scheme).

import (
	"fmt"
	"strings"

	"github.com/sboehler/knut/lib/common/date"

	"kverif/cal"
	"kverif/core"
)

// runLib judges the in-process boundary for case i.
func (k *c11) runLib(c *core.Ctx, i int) {
	if i == 0 {
		// one complete LIB observation for the evidence file
		s, e := cal.FromYMD(2020, 2, 27), cal.FromYMD(2020, 4, 2)
		part := date.NewPartition(date.Period{Start: c11Time(s), End: c11Time(e)}, date.Weekly, 3)
		var ps []string
		sd, ed := part.StartDates(), part.EndDates()
		for j := range sd {
			ps = append(ps, c11Day(sd[j]).String()+".."+c11Day(ed[j]).String())
		}
		c.Sample(map[string]any{"call": "date.NewPartition(2020-02-27..2020-04-02, weekly, last=3)", "observed_periods": ps,
			"reference_periods": strings.Fields(c11Fmt(cal.Partition(s, e, cal.Weekly, 3))),
			"align(2020-03-01)": c11Day(part.Align()(c11Time(cal.FromYMD(2020, 3, 1)))).String()})
	}
	starts, ends := k.starts[i], k.ends[i]
	if len(starts) > 0 && starts[0] == -1<<30 {
		// paired mode
		for j, s := range starts[1:] {
			if !k.pair(c, i, s, ends[j]) {
				return
			}
		}
		return
	}
	if ends == nil {
		ends = k.days
	}
	for _, s := range starts {
		nt := [6][6]int{}
		for _, e := range ends {
			if !k.pairCount(c, i, s, e, &nt) {
				return
			}
		}
		for iv := 0; iv < 6; iv++ {
			for li := range c11Lasts {
				if nt[iv][li] > 0 {
					c.Nontrivial(fmt.Sprintf("%s|%d|%d|%d", s, iv, c11Lasts[li], nt[iv][li]))
				}
			}
		}
	}
}

func (k *c11) pair(c *core.Ctx, i int, s, e cal.Day) bool {
	nt := [6][6]int{}
	ok := k.pairCount(c, i, s, e, &nt)
	for iv := 0; iv < 6; iv++ {
		for li := range c11Lasts {
			if nt[iv][li] > 0 {
				c.Nontrivial(fmt.Sprintf("%s|%s|%d|%d", s, e, iv, c11Lasts[li]))
			}
		}
	}
	return ok
}

// pairCount judges all 36 partitions of one (start, end) pair.
func (k *c11) pairCount(c *core.Ctx, i int, s, e cal.Day, nt *[6][6]int) bool {
	evals, ntc, aligns := 0, 0, 0
	defer func() {
		c.Eval(evals)
		c.Count("nontrivial_partitions", ntc)
		c.Count("align_calls_judged", aligns)
	}()
	lo, hi := s, e
	if lo > hi {
		lo, hi = hi, lo
	}
	for iv := cal.Once; iv <= cal.Yearly; iv++ {
		full := cal.Partition(s, e, iv, 0)
		for li, last := range c11Lasts {
			evals++
			exp := full
			cut := false
			if last > 0 && len(full) > last && iv != cal.Once {
				exp = full[len(full)-last:]
				cut = true
			}
			var key, why string
			if pv := guard(func() {
				part := date.NewPartition(date.Period{Start: k.tm(s), End: k.tm(e)}, date.Interval(iv), last)
				key, why = k.judge(part, s, e, iv, exp, lo-40, hi+40, &aligns)
			}); pv != nil {
				key, why = "panic", fmt.Sprintf("panic: %v", pv)
			}
			if key != "" {
				c.Violation(core.Witness{Case: i, Key: key,
					Why:   fmt.Sprintf("NewPartition(%s..%s, %s, last=%d): %s", s, e, cal.IntervalNames[iv], last, why),
					Extra: map[string]string{"repro.go": c11Repro(s, e, iv, last), "expected.txt": c11Fmt(exp)}})
				return false
			}
			if len(exp) >= 2 || cut || s > e {
				nt[iv][li]++
				ntc++
			}
		}
	}
	return true
}

// judge compares one observed partition with the reference periods exp.
func (k *c11) judge(part date.Partition, s, e cal.Day, iv cal.Interval, exp []cal.Period, from, to cal.Day, aligns *int) (key, why string) {
	inverted := s > e
	judgeShape := !(inverted && iv == cal.Once)
	sd, ed := part.StartDates(), part.EndDates()
	if len(sd) != len(ed) || part.Size() != len(sd) {
		return "partition-shape", fmt.Sprintf("Size()=%d, %d start dates, %d end dates", part.Size(), len(sd), len(ed))
	}
	if judgeShape {
		if len(sd) != len(exp) {
			if inverted {
				return "inverted-window-covered", fmt.Sprintf("start > end, yet %d period(s) are generated", len(sd))
			}
			return "partition-size", fmt.Sprintf("%d periods generated, the calendar gives %d (%s)", len(sd), len(exp), strings.ReplaceAll(strings.TrimSpace(c11Fmt(exp)), "\n", " "))
		}
		for j := range exp {
			os_, oe := c11Day(sd[j]), c11Day(ed[j])
			if os_ != exp[j].Start {
				return "partition-start", fmt.Sprintf("period %d starts %s, expected %s", j, os_, exp[j].Start)
			}
			if oe != exp[j].End {
				return "partition-end", fmt.Sprintf("period %d ends %s, expected %s", j, oe, exp[j].End)
			}
		}
	}
	al := part.Align()
	for d := from; d <= to; d++ {
		t := k.tm(d)
		// Contains: membership in the requested window
		if got, want := part.Contains(t), d >= s && d <= e; got != want {
			return "contains", fmt.Sprintf("Contains(%s) = %v, expected %v", d, got, want)
		}
		a := al(t)
		if !judgeShape && d <= e {
			continue // once + inverted window: not judged
		}
		*aligns++
		want, ok := cal.Align(exp, d)
		if !judgeShape {
			ok = false
		}
		switch {
		case !ok && !a.IsZero():
			return "align-late-date", fmt.Sprintf("Align(%s) = %s, expected no column", d, c11Day(a))
		case ok && a.IsZero():
			return "align-missing", fmt.Sprintf("Align(%s) = no column, expected %s", d, want)
		case ok && c11Day(a) != want:
			return "align", fmt.Sprintf("Align(%s) = %s, expected %s", d, c11Day(a), want)
		}
	}
	// Align must be a function of the date alone: a second mapper is asked in an
	// order no report would use (latest date first, then sparse ascending jumps
	// that skip whole periods, then descending), and must answer the same.
	al2 := part.Align()
	check := func(d cal.Day) (string, string) {
		if !judgeShape && d <= e {
			return "", ""
		}
		a := al2(k.tm(d))
		want, ok := cal.Align(exp, d)
		if !judgeShape {
			ok = false
		}
		*aligns++
		switch {
		case !ok && !a.IsZero():
			return "align-order-dependent", fmt.Sprintf("Align(%s) = %s when asked out of order, expected no column", d, c11Day(a))
		case ok && a.IsZero():
			return "align-order-dependent", fmt.Sprintf("Align(%s) = no column when asked out of order, expected %s", d, want)
		case ok && c11Day(a) != want:
			return "align-order-dependent", fmt.Sprintf("Align(%s) = %s when asked out of order, expected %s", d, c11Day(a), want)
		}
		return "", ""
	}
	if key, why := check(to); key != "" {
		return key, why
	}
	if key, why := check(from); key != "" {
		return key, why
	}
	for d := from; d <= to; d += 37 {
		if key, why := check(d); key != "" {
			return key, why
		}
	}
	for d := to; d >= from; d -= 53 {
		if key, why := check(d); key != "" {
			return key, why
		}
	}
	return "", ""
}
