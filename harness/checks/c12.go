package checks

import (
	"fmt"
	"math/big"
	"math/rand"
	"os"
	"sort"
	"strings"

	"kverif/cal"
	"kverif/core"
	"kverif/gen"
	"kverif/ref"
	"kverif/tab"
)

// C12 — derived prices are consistent with declared prices.
//
// LIB boundary: price.Prices.Insert / Normalize and NormalizedPrices.Price /
// Valuate, driven with declaration histories (normalised after each day, the
// way journal.ComputePrices does). CLI boundary: `knut balance -v V --csv` on
// journals that hold exactly one unit of each commodity in its own asset
// account (the value shown is the price).
type c12 struct {
	perCase int
	cliEach int
}

func init() { register("C12", func() core.Check { return &c12{} }) }

func (*c12) Level() string { return "exploration" }
func (*c12) Rule() string {
	return "case = batch of price declaration histories over <= 7 commodities and 1-6 days: trees, chains up to 6 edges, cycles, direct + indirect declaration of the same pair, random graphs, two components, isolated commodities, redeclarations in either direction on later days, optional zero price at the end; every V of the pool; LIB: Insert per day, then 16 x Normalize(V) and Price/Valuate for every commodity; CLI (a share of the histories): `balance -v V --csv` 8 times on a journal holding one unit of every (reachable) commodity; oracle (big.Int fixed-point, written from the statement) = price(V) = 1, latest direct declaration exactly, reverse declaration within 1e-8 of the reciprocal, otherwise member of the set of per-step-truncated products over all simple paths of latest declarations (either fold direction, reciprocal edges exact or pre-truncated), unreachable => error / CLI fails with empty stdout, zero price => Insert error / CLI fails, all repetitions identical; non-trivial = >= 3 commodities priced in V with >= 1 derived price, or a redeclared pair, or an unreachable commodity; distinct = history text + V"
}

func (k *c12) Setup(c *core.Ctx) (int, error) {
	k.perCase = 50
	k.cliEach = c.N(2, 6)
	return c.N(160, 4000), nil
}

func (*c12) Finish(c *core.Ctx) {
	c.Assume("declared prices have <= 8 decimals (so 'exactly the declared price' and 'truncated to 8 decimals' cannot disagree on a direct pair), are positive, and a pair is declared at most once per day (same-day order is not part of the statement)")
	c.Assume("'most recent declared price' of a pair means the latest declaration of the unordered pair in either direction")
	c.Assume("the statement does not fix the direction in which a chain is multiplied nor whether a reciprocal edge is truncated before multiplying; all four readings are accepted for derived prices")
	c.Assume("run-to-run differences are reported under their own key nondeterministic-price even where every single value is an admissible chain product (the statement speaks of 'the price')")
}

// ---------------------------------------------------------------- histories

type c12Decl struct{ Com, Price, Tgt string } // 1 Com = Price Tgt

type c12Hist struct {
	Pool  []string
	V     string
	Days  [][]c12Decl
	Dates []cal.Day
	Zero  bool // the last declaration of the last day has price 0
	Shape string
}

var c12Names = []string{"CHF", "USD", "EUR", "AAPL", "BTC", "GOLD", "X7"}

func c12Price(r *rand.Rand) string {
	switch r.Intn(8) {
	case 0:
		return fmt.Sprintf("%d.%08d", r.Intn(30), 1+r.Intn(99999999))
	case 1:
		return fmt.Sprintf("0.%04d", 1+r.Intn(9999))
	case 2:
		return fmt.Sprint(1 + r.Intn(9))
	case 3:
		return "3"
	case 5:
		// more decimals than are kept: the reciprocal is taken from the price as declared
		return []string{"0.000012345678", "1.123456789012", "0.00000001999", "3.14159265358979", "0.333333333333"}[r.Intn(5)]
	case 4:
		// magnitudes whose reciprocal truncates to zero at 8 decimals, or overflows ordinary ranges
		return []string{"1500000000", "100000001", "123456789012.5", "99999999.99999999", "100000000", "0.00000001", "0.00000002", "0.0000001"}[r.Intn(8)]
	}
	return gen.PriceStr(r)
}

func pairKey(a, b string) string {
	if a > b {
		a, b = b, a
	}
	return a + "|" + b
}

func c12Make(r *rand.Rand) c12Hist {
	n := 2 + r.Intn(6)
	perm := r.Perm(len(c12Names))
	pool := make([]string, n)
	for i := range pool {
		pool[i] = c12Names[perm[i]]
	}
	var h c12Hist
	h.Pool = pool
	type edge struct{ a, b string }
	var edges []edge
	add := func(a, b string) {
		if a != b {
			edges = append(edges, edge{a, b})
		}
	}
	h.V = pool[r.Intn(n)]
	switch r.Intn(7) {
	case 0:
		h.Shape = "tree"
		for i := 1; i < n; i++ {
			add(pool[r.Intn(i)], pool[i])
		}
	case 1:
		h.Shape = "chain"
		for i := 1; i < n; i++ {
			add(pool[i-1], pool[i])
		}
	case 2:
		h.Shape = "cycle"
		for i := 1; i < n; i++ {
			add(pool[i-1], pool[i])
		}
		if n >= 3 {
			add(pool[n-1], pool[0])
		}
	case 3:
		h.Shape = "direct+indirect"
		// V - a - c plus V - c, and a tail
		h.V = pool[0]
		for i := 1; i < n; i++ {
			add(pool[i-1], pool[i])
		}
		if n >= 3 {
			add(pool[0], pool[2+r.Intn(n-2)])
		}
	case 4:
		h.Shape = "two-components"
		cut := 1 + r.Intn(n-1)
		for i := 1; i < cut; i++ {
			add(pool[r.Intn(i)], pool[i])
		}
		for i := cut + 1; i < n; i++ {
			add(pool[cut+r.Intn(i-cut)], pool[i])
		}
	case 5:
		h.Shape = "random-graph"
		m := 1 + r.Intn(n+2)
		for i := 0; i < m; i++ {
			add(pool[r.Intn(n)], pool[r.Intn(n)])
		}
	default:
		h.Shape = "tree+chords"
		for i := 1; i < n; i++ {
			add(pool[r.Intn(i)], pool[i])
		}
		for i := 0; i < 1+r.Intn(2); i++ {
			add(pool[r.Intn(n)], pool[r.Intn(n)])
		}
	}
	if len(edges) == 0 {
		add(pool[0], pool[1])
	}
	// redeclarations
	if r.Intn(2) == 0 {
		for i, m := 0, 1+r.Intn(4); i < m; i++ {
			edges = append(edges, edges[r.Intn(len(edges))])
		}
	}
	nDays := 1 + r.Intn(6)
	h.Days = make([][]c12Decl, nDays)
	used := make([]map[string]bool, nDays)
	for i := range used {
		used[i] = map[string]bool{}
	}
	for _, e := range edges {
		d := r.Intn(nDays)
		pk := pairKey(e.a, e.b)
		ok := false
		for try := 0; try < nDays; try++ {
			if !used[(d+try)%nDays][pk] {
				d = (d + try) % nDays
				ok = true
				break
			}
		}
		if !ok {
			continue
		}
		used[d][pk] = true
		dc := c12Decl{Com: e.a, Tgt: e.b, Price: c12Price(r)}
		if r.Intn(2) == 0 {
			dc.Com, dc.Tgt = dc.Tgt, dc.Com
		}
		h.Days[d] = append(h.Days[d], dc)
	}
	// drop empty days
	var days [][]c12Decl
	for _, d := range h.Days {
		if len(d) > 0 {
			days = append(days, d)
		}
	}
	h.Days = days
	// an echo: the most recent declaration of some pair is declared again on a day of its own,
	// the other way round with the stored (truncated) reciprocal as its price, or unchanged
	if len(h.Days) > 0 && r.Intn(3) == 0 {
		last := h.Days[len(h.Days)-1]
		dc := last[r.Intn(len(last))]
		if p := gen.Rat(dc.Price); p.Sign() > 0 {
			echo := c12Decl{Com: dc.Com, Tgt: dc.Tgt, Price: dc.Price}
			if inv := ref.Trunc8(new(big.Rat).Inv(p)); inv.Sign() > 0 && r.Intn(4) != 0 {
				echo = c12Decl{Com: dc.Tgt, Tgt: dc.Com, Price: inv.FloatString(8)}
			}
			h.Days = append(h.Days, []c12Decl{echo})
			h.Shape += "+echo"
		}
	}
	date := cal.FromYMD(2020, 1, 1) + cal.Day(r.Intn(400))
	// one history in eight jumps some centuries ahead in its middle (dates beyond 2262-04-11)
	jumpAt := -1
	if len(h.Days) >= 2 && r.Intn(8) == 0 {
		jumpAt = 1 + r.Intn(len(h.Days)-1)
	}
	for di := range h.Days {
		if di == jumpAt {
			date += []cal.Day{102269, 213633, 1000000}[r.Intn(3)]
			h.Shape += "+far"
		}
		h.Dates = append(h.Dates, date)
		date += cal.Day(1 + r.Intn(40))
	}
	if r.Intn(12) == 0 {
		// a zero price as the very last declaration, on a pair not declared that day
		last := len(h.Days) - 1
		a, b := pool[r.Intn(n)], pool[r.Intn(n)]
		if a != b {
			dup := false
			for _, dc := range h.Days[last] {
				if pairKey(dc.Com, dc.Tgt) == pairKey(a, b) {
					dup = true
				}
			}
			if !dup {
				h.Days[last] = append(h.Days[last], c12Decl{a, pick10(r, []string{"0", "0.0", "0.00000000"}), b})
				h.Zero = true
			}
		}
	}
	return h
}

func (h c12Hist) pricesText(upTo int) string {
	var b strings.Builder
	for i := 0; i <= upTo && i < len(h.Days); i++ {
		for _, d := range h.Days[i] {
			fmt.Fprintf(&b, "%s price %s %s %s\n", h.Dates[i], d.Com, d.Price, d.Tgt)
		}
	}
	return b.String()
}

// ---------------------------------------------------------------- reference (fixed point, 8 decimals, big.Int)

var c12Scale = new(big.Int).Exp(big.NewInt(10), big.NewInt(8), nil)
var c12Scale2 = new(big.Int).Mul(c12Scale, c12Scale)

// fix8 converts a decimal string with <= 8 decimals into its scaled integer.
func fix8(s string) (*big.Int, bool) {
	r, ok := new(big.Rat).SetString(s)
	if !ok {
		return nil, false
	}
	r.Mul(r, new(big.Rat).SetInt(c12Scale))
	if !r.IsInt() {
		return nil, false
	}
	return new(big.Int).Set(r.Num()), true
}

// ratOf reads a declared price exactly (it may carry more than 8 decimals).
func ratOf(s string) *big.Rat {
	r, ok := new(big.Rat).SetString(s)
	if !ok {
		panic("c12: bad price " + s)
	}
	return r
}

// floor8 is the scaled integer of a non-negative rational truncated to 8 decimals.
func floor8(r *big.Rat) *big.Int {
	x := new(big.Int).Mul(r.Num(), c12Scale)
	return x.Quo(x, r.Denom())
}

func fix8String(v *big.Int) string {
	return gen.DecString(new(big.Rat).SetFrac(v, c12Scale))
}

type c12Latest struct {
	c12Decl
	day   int
	older []string // earlier prices of the pair as "com>tgt:price"
}

type c12State struct {
	latest map[string]*c12Latest
	adj    map[string][]string
}

func c12Replay(h c12Hist, upTo int) *c12State {
	st := &c12State{latest: map[string]*c12Latest{}, adj: map[string][]string{}}
	for i := 0; i <= upTo; i++ {
		for _, d := range h.Days[i] {
			if r, _ := new(big.Rat).SetString(d.Price); r.Sign() == 0 {
				continue // rejected by the statement
			}
			pk := pairKey(d.Com, d.Tgt)
			l := &c12Latest{c12Decl: d, day: i}
			if o := st.latest[pk]; o != nil {
				l.older = append(o.older, o.Com+">"+o.Tgt+":"+o.Price)
			} else {
				st.adj[d.Com] = append(st.adj[d.Com], d.Tgt)
				st.adj[d.Tgt] = append(st.adj[d.Tgt], d.Com)
			}
			st.latest[pk] = l
		}
	}
	return st
}

// factors of the step "price of w expressed in u" for the latest declaration
// of {u, w}: a declared price (exact), or the reciprocal, for which both the
// exact and the pre-truncated value are admissible.
type c12Factor struct {
	direct *big.Rat // declared price (exact, any number of decimals), if declared "1 w = p u"
	inv    *big.Rat // declared price p of "1 u = p w" (factor = 1/p)
}

func (st *c12State) factor(u, w string) c12Factor {
	l := st.latest[pairKey(u, w)]
	p := ratOf(l.Price)
	if l.Com == w {
		return c12Factor{direct: p}
	}
	return c12Factor{inv: p}
}

// apply returns the admissible values of trunc8(val * factor).
func (f c12Factor) apply(val *big.Int) []*big.Int {
	if f.direct != nil {
		x := new(big.Int).Mul(val, f.direct.Num())
		return []*big.Int{x.Quo(x, f.direct.Denom())}
	}
	// exact reciprocal: trunc8(val / p)
	a := new(big.Int).Mul(val, f.inv.Denom())
	a.Quo(a, f.inv.Num())
	// pre-truncated reciprocal: trunc8(val * trunc8(1/p))
	inv8 := floor8(new(big.Rat).Inv(f.inv))
	b := new(big.Int).Mul(val, inv8)
	b.Quo(b, c12Scale)
	if a.Cmp(b) == 0 {
		return []*big.Int{a}
	}
	return []*big.Int{a, b}
}

// paths enumerates all simple paths from v to c (as node lists).
func (st *c12State) paths(v, c string) [][]string {
	var res [][]string
	seen := map[string]bool{v: true}
	cur := []string{v}
	var rec func(u string)
	rec = func(u string) {
		if u == c {
			res = append(res, append([]string{}, cur...))
			return
		}
		for _, w := range st.adj[u] {
			if seen[w] {
				continue
			}
			seen[w] = true
			cur = append(cur, w)
			rec(w)
			cur = cur[:len(cur)-1]
			seen[w] = false
		}
	}
	rec(v)
	return res
}

// candidates: admissible derived prices of c in v over the given paths
// (scaled integers as strings), with the path that produced each.
func (st *c12State) candidates(paths [][]string, minEdges int) map[string]string {
	res := map[string]string{}
	for _, p := range paths {
		if len(p)-1 < minEdges {
			continue
		}
		var fs []c12Factor
		for i := 1; i < len(p); i++ {
			fs = append(fs, st.factor(p[i-1], p[i]))
		}
		for dir := 0; dir < 2; dir++ {
			vals := []*big.Int{new(big.Int).Set(c12Scale)}
			for i := range fs {
				f := fs[i]
				if dir == 1 {
					f = fs[len(fs)-1-i]
				}
				var next []*big.Int
				for _, v := range vals {
					next = append(next, f.apply(v)...)
				}
				vals = next
			}
			for _, v := range vals {
				if _, ok := res[v.String()]; !ok {
					res[v.String()] = strings.Join(p, " - ")
				}
			}
		}
	}
	return res
}

func (st *c12State) reachable(v, c string) bool {
	if v == c {
		return true
	}
	return len(st.paths(v, c)) > 0
}

// judge decides one observed outcome for commodity c in valuation v.
// obs == "" means "no price" (error).
func (st *c12State) judge(v, c, obs string) (key, why string) {
	if c == v {
		if obs == "" {
			return "valuation-commodity-not-one", fmt.Sprintf("no price for the valuation commodity %s itself", v)
		}
		if o, ok := fix8(obs); !ok || o.Cmp(c12Scale) != 0 {
			return "valuation-commodity-not-one", fmt.Sprintf("price of the valuation commodity %s in itself is %s, expected 1", v, obs)
		}
		return "", ""
	}
	paths := st.paths(v, c)
	if len(paths) == 0 {
		if obs != "" {
			return "unreachable-has-price", fmt.Sprintf("%s is not connected to %s by any declaration, yet it has price %s", c, v, obs)
		}
		return "", ""
	}
	if obs == "" {
		return "missing-price", fmt.Sprintf("%s is connected to %s (%s) but has no price", c, v, strings.Join(paths[0], " - "))
	}
	o, ok := fix8(obs)
	if !ok {
		return "price-format", fmt.Sprintf("price of %s in %s is %s: not a decimal with <= 8 decimals", c, v, obs)
	}
	if l := st.latest[pairKey(c, v)]; l != nil {
		p := ratOf(l.Price)
		good := false
		var want string
		if l.Com == c {
			// 1 c = p v (to the 8 decimals that are kept)
			good = o.Cmp(floor8(p)) == 0
			want = "exactly " + l.Price + " (latest declaration `price " + c + " " + l.Price + " " + v + "`)"
		} else {
			// 1 v = p c: |obs - 1/p| <= 1e-8  <=>  |obs*p - 1| <= 1e-8 * p
			x := new(big.Rat).Mul(new(big.Rat).SetFrac(o, c12Scale), p)
			x.Sub(x, big.NewRat(1, 1))
			x.Abs(x)
			good = x.Cmp(new(big.Rat).Mul(p, big.NewRat(1, 100000000))) <= 0
			want = "within 1e-8 of 1/" + l.Price + " (latest declaration `price " + v + " " + l.Price + " " + c + "`)"
		}
		if good {
			return "", ""
		}
		ind := st.candidates(paths, 2)
		if via, ok := ind[o.String()]; ok {
			return "direct-price-not-preferred", fmt.Sprintf("price of %s in %s is %s, expected %s; the observed value is the product along the indirect chain %s", c, v, obs, want, via)
		}
		for _, old := range l.older {
			parts := strings.SplitN(old, ":", 2)
			op := floor8(ratOf(parts[1]))
			if strings.HasPrefix(parts[0], c+">") && op.Cmp(o) == 0 {
				return "stale-price", fmt.Sprintf("price of %s in %s is %s, expected %s; the observed value is an earlier declaration (%s)", c, v, obs, want, old)
			}
		}
		if l.Com == c {
			return "direct-price-wrong", fmt.Sprintf("price of %s in %s is %s, expected %s", c, v, obs, want)
		}
		return "inverse-price-wrong", fmt.Sprintf("price of %s in %s is %s, expected %s", c, v, obs, want)
	}
	cands := st.candidates(paths, 1)
	if _, ok := cands[o.String()]; ok {
		return "", ""
	}
	var cs []string
	for k, via := range cands {
		ki, _ := new(big.Int).SetString(k, 10)
		cs = append(cs, fix8String(ki)+" ("+via+")")
	}
	sort.Strings(cs)
	if len(cs) > 6 {
		cs = append(cs[:6], "...")
	}
	return "derived-price-wrong", fmt.Sprintf("price of %s in %s is %s; no chain of latest declarations gives that with truncation to 8 decimals per step; admissible: %s", c, v, obs, strings.Join(cs, ", "))
}

// ---------------------------------------------------------------- LIB

const c12Reps = 16

func (h c12Hist) repro(upTo int) string {
	var b strings.Builder
	b.WriteString("package main\n\nimport (\n\t\"fmt\"\n\t\"github.com/sboehler/knut/lib/model/commodity\"\n\t\"github.com/sboehler/knut/lib/model/price\"\n\t\"github.com/shopspring/decimal\"\n)\n\nfunc main() {\n\treg := commodity.NewCommodities()\n\tps := make(price.Prices)\n")
	for i := 0; i <= upTo; i++ {
		fmt.Fprintf(&b, "\t// %s\n", h.Dates[i])
		for _, d := range h.Days[i] {
			fmt.Fprintf(&b, "\tfmt.Println(ps.Insert(reg.MustGet(%q), decimal.RequireFromString(%q), reg.MustGet(%q)))\n", d.Com, d.Price, d.Tgt)
		}
	}
	fmt.Fprintf(&b, "\tfor i := 0; i < 16; i++ {\n\t\tfmt.Println(ps.Normalize(reg.MustGet(%q)))\n\t}\n}\n", h.V)
	return b.String()
}

func (k *c12) RunCase(c *core.Ctx, i int) {
	r := c.Rng(i, "hist")
	for n := 0; n < k.perCase; n++ {
		h := c12Make(r)
		if !k.runLib(c, i, h) {
			return
		}
		if (i*k.perCase+n)%k.cliEach == 0 {
			if !k.runCLI(c, i, h, r) {
				return
			}
		}
	}
}

// ---------------------------------------------------------------- CLI

const c12CLIReps = 8

func (h c12Hist) journal(hold []string, holdDay int) string {
	var b strings.Builder
	open := h.Dates[0] - 1
	for _, n := range hold {
		fmt.Fprintf(&b, "%s open Assets:H%s\n", open, n)
	}
	fmt.Fprintf(&b, "%s open Equity:Equity\n\n", open)
	b.WriteString(h.pricesText(len(h.Days)))
	fmt.Fprintf(&b, "\n%s \"hold\"\n", h.Dates[holdDay])
	for _, n := range hold {
		fmt.Fprintf(&b, "Equity:Equity Assets:H%s 1 %s\n", n, n)
	}
	return b.String()
}

func (k *c12) runCLI(c *core.Ctx, i int, h c12Hist, r *rand.Rand) bool {
	last := len(h.Days) - 1
	st := c12Replay(h, last)
	var reach, unreach []string
	for _, n := range h.Pool {
		if st.reachable(h.V, n) {
			reach = append(reach, n)
		} else {
			unreach = append(unreach, n)
		}
	}
	dir := c.CaseDir(i)
	defer os.RemoveAll(dir)
	to := h.Dates[last]
	args := []string{"balance", "-v", h.V, "--csv", "--to", to.String(), "j.knut"}
	run := func(text string) ([]core.Result, bool) {
		writeFile(dir, "j.knut", text)
		var rs []core.Result
		for n := 0; n < c12CLIReps; n++ {
			res := knut(c, dir, nil, args...)
			if res.Class == "timeout" {
				c.Inconclusive(i, "balance timed out")
				return nil, false
			}
			rs = append(rs, res)
		}
		c.Eval(1)
		return rs, true
	}
	mustFail := func(text, key, what string) bool {
		rs, ok := run(text)
		if !ok {
			return true
		}
		for _, res := range rs {
			if res.Exit == 0 || res.Class == "panic" || res.Class == "signal" || len(res.Stderr) == 0 || len(res.Stdout) != 0 {
				k := key
				if res.Exit != 0 {
					k = "unclean-failure"
				}
				c.Violation(core.Witness{Case: i, Key: k, Why: what + ": expected a non-zero exit with a message on stderr and empty stdout, got " + fmtErr(res) + fmt.Sprintf(" stdout=%d bytes", len(res.Stdout)),
					Files: map[string][]byte{"j.knut": []byte(text)}, Cmd: knutCmd(c, nil, args...), Extra: map[string]string{"observed.csv": string(res.Stdout)}})
				return false
			}
		}
		c.Count("cli_failures_judged", 1)
		return true
	}
	if h.Zero {
		return mustFail(h.journal(reach, last), "zero-price-accepted", "journal with a zero price")
	}
	if len(unreach) > 0 {
		if !mustFail(h.journal(h.Pool, last), "unreachable-has-price", fmt.Sprintf("journal holding %s, which no declaration connects to %s", strings.Join(unreach, ","), h.V)) {
			return false
		}
	}
	// hold the reachable commodities; sometimes from the first day on which all
	// of them are reachable (later price changes then arrive as value adjustments)
	holdDay := last
	if r.Intn(4) == 0 {
		for d := 0; d <= last; d++ {
			sd := c12Replay(h, d)
			all := true
			for _, n := range reach {
				if !sd.reachable(h.V, n) {
					all = false
				}
			}
			if all {
				holdDay = d
				break
			}
		}
	}
	text := h.journal(reach, holdDay)
	rs, ok := run(text)
	if !ok {
		return true
	}
	w := func(key, why string, res core.Result) {
		c.Violation(core.Witness{Case: i, Key: key, Why: why + fmt.Sprintf(" [CLI, V=%s]", h.V),
			Files: map[string][]byte{"j.knut": []byte(text)}, Cmd: "for i in 1 2 3 4 5 6 7 8; do " + knutCmd(c, nil, args...) + "; done",
			Extra: map[string]string{"observed.csv": string(res.Stdout), "stderr.txt": string(res.Stderr)}})
	}
	// Compare what the property is about (the value of each holding), not the
	// raw bytes: the order of rows of equal weight is C06's business.
	distinct := map[string]core.Result{}
	var order []string
	for _, res := range rs {
		if res.Class != "ok" {
			w("cli-failed", "balance -v fails although every held commodity is connected to "+h.V+": "+fmtErr(res), res)
			return false
		}
		recs, err := tab.ParseCSV(string(res.Stdout))
		if err != nil || len(recs) == 0 || len(recs[0]) != 2 || recs[0][1] != to.String() {
			w("cli-unreadable", fmt.Sprintf("unexpected csv shape (%v)", err), res)
			return false
		}
		seen := map[string]string{}
		for _, rec := range recs[1:] {
			if len(rec) >= 1 && rec[0] == "Total (A+L)" {
				break // the asset section ends here (Income:H... rows carry value adjustments)
			}
			if len(rec) == 2 && strings.HasPrefix(rec[0], "H") {
				seen[strings.TrimPrefix(rec[0], "H")] = rec[1]
			}
		}
		var vals []string
		for _, n := range reach {
			obs := seen[n]
			if obs == "" {
				// a value that truncates to zero is rendered as an empty cell
				// (or no row); it is judged as the price 0
				obs = "0"
				c.Count("cli_zero_values", 1)
			}
			vals = append(vals, n+"="+obs)
		}
		sig := strings.Join(vals, " ")
		if _, ok := distinct[sig]; !ok {
			distinct[sig] = res
			order = append(order, sig)
		}
	}
	if len(distinct) > 1 {
		w("nondeterministic-price", fmt.Sprintf("%d runs of the same command show different values: %s", c12CLIReps, strings.Join(order, "  |  ")), distinct[order[0]])
		c.Count("cli_nondeterministic", 1)
	}
	for _, sig := range order {
		for _, kv := range strings.Fields(sig) {
			nv := strings.SplitN(kv, "=", 2)
			if key, why := st.judge(h.V, nv[0], nv[1]); key != "" {
				w(key, "value of 1 "+nv[0]+": "+why, distinct[sig])
				if key != "direct-price-not-preferred" {
					return false
				}
			}
		}
	}
	c.Count("cli_histories_judged", 1)
	if len(reach) >= 3 {
		c.Nontrivial("cli|" + text + "|" + h.V)
	}
	return true
}
