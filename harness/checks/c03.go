package checks

import (
	"fmt"
	"math/big"
	"os"
	"regexp"
	"strings"

	"kverif/cal"
	"kverif/core"
	"kverif/gen"
	"kverif/ref"
	"kverif/tab"
)

// C03 — valued balances are mark-to-market at the latest known price.
type c03 struct{ combos int }

func init() { register("C03", func() core.Check { return &c03{} }) }

func (*c03) Level() string { return "exploration" }
func (*c03) Rule() string {
	return "case = generated accepted journal with a tree-shaped price graph (direct, inverse and chained declarations, redeclared over time, sparse) x (valuation commodity, window, interval, -s, --diff); oracle = every valued cell lies within an explicit truncation budget of the reference: A/L rows = quantity x latest price (minus the pre-window mark), mirror income rows = accumulated revaluation gains, other rows = bookings valued at their booking day's price; plus planted missing-price journals that must fail with empty stdout; non-trivial = report with >=2 non-V positions whose price changed inside the window; distinct = hash of journal + flags"
}

func (k *c03) Setup(c *core.Ctx) (int, error) {
	k.combos = c.N(8, 14)
	return c.N(800, 6000), nil
}

func (*c03) Finish(c *core.Ctx) {
	c.Assume("price graphs are forests so the chain to V is unique (alternative paths are C12's business); budget per cell = (postings + revaluation days + 2) x 1e-8 + |quantity| x propagated price-truncation bound; with --close (the default, half of the reports) income/expense/equity rows and the mirror rows restart at every shown period start and Equity:Equity receives what was closed")
}

type c03Row struct {
	val    *big.Rat
	budget *big.Rat
	moved  bool // a price of a held non-V position changed inside the window
}

func (k *c03) RunCase(c *core.Ctx, i int) {
	r := c.Rng(i, "journal")
	o := gen.DefaultOpts(r)
	o.Prices = true
	o.PriceGraph = r.Intn(3) == 0 // cycles: only directly declared commodities are judged then
	o.Small = true
	o.Commodities = 2 + r.Intn(4)
	o.Lifecycle = r.Intn(3) == 0
	o.Assertions = r.Intn(3) == 0
	o.MaxDepth = 4
	o.Days = 4 + r.Intn(14)
	o.Depth1 = r.Intn(5) == 0
	j, info := gen.Accepted(r, o)
	// sparse: drop some later redeclarations so that prices stay constant for a while
	if r.Intn(2) == 0 {
		j.Shuffle(r)
	}
	text := j.Text()
	dir := c.CaseDir(i)
	defer os.RemoveAll(dir)
	writeFile(dir, "j.knut", text)
	posts, err := ref.Postings(j)
	if err != nil {
		panic(err)
	}
	fr := c.Rng(i, "flags")
	for n := 0; n < k.combos; n++ {
		v := info.Commodities[fr.Intn(len(info.Commodities))]
		f := randPeriodFlags(fr, info.Dates)
		f.Diff = fr.Intn(4) == 0
		if fr.Intn(2) == 0 {
			f.From = nil // full window from the first booking
		}
		showAll := fr.Intn(2) == 0
		args := append([]string{"balance", "--color=false", "--digits", "8", "-v", v}, f.Argv()...)
		if showAll {
			args = append(args, "-s", ".")
		}
		// a display mapping that only matches asset (and liability) accounts: positions are
		// regrouped, the gain still goes to the income account mirroring the unmapped path
		var mp *c03Mapping
		if fr.Intn(3) == 0 {
			mp = &c03Mapping{level: 1 + fr.Intn(2), suffix: fr.Intn(3), types: [][]string{{"Assets"}, {"Assets", "Liabilities"}}[fr.Intn(2)]}
			args = append(args, "--map", mp.flag())
			c.Count("reports_with_display_mapping", 1)
		}
		args = append(args, "j.knut")
		c.Eval(1)
		start, end, ok := ref.Window(j, f.From, f.To)
		if !ok || start > end {
			c.NotJudged(1)
			continue
		}
		pb := ref.NewPriceBook(j, v)
		periods := cal.Partition(start, end, f.Interval, f.Last)
		res := knut(c, dir, nil, args...)
		if res.Class != "ok" {
			c.Violation(core.Witness{Case: i, Key: "valued-report-failed",
				Why:   "valued balance failed although every commodity has a price from the first day on: " + fmtErr(res),
				Files: map[string][]byte{"j.knut": []byte(text)}, Cmd: knutCmd(c, nil, args...)})
			return
		}
		exp, moved, skip := c03Expected(j, posts, pb, v, start, periods, f.Diff, showAll, f.Close)
		c.Count("rows_not_judged_ambiguous_price_chain", len(skip))
		if mp != nil {
			exp, skip = mp.apply(exp, skip)
		}
		why := c03Compare(string(res.Stdout), exp, skip, periods, showAll)
		if why != "" {
			c.Violation(core.Witness{Case: i, Key: "valued-cell", Why: why,
				Files: map[string][]byte{"j.knut": []byte(text)}, Cmd: knutCmd(c, nil, args...),
				Extra: map[string]string{"observed.txt": string(res.Stdout)}})
			return
		}
		if moved >= 2 {
			c.Nontrivial(text + "|" + strings.Join(args, " "))
			if c.WantSample() {
				c.Sample(map[string]any{"journal": sampleJournal(text), "argv": strings.Join(args, " "), "stdout": core.Trunc(string(res.Stdout), 1200)})
			}
		}
	}
	// planted missing prices
	k.missing(c, i, dir, j, info, posts)
}

type c03Key struct{ acc, com string }

// c03Mapping is a --map rule <level>:<suffix>,^(types): matched accounts keep their first
// <level> and last <suffix> segments, unless they are too short for that.
type c03Mapping struct {
	level, suffix int
	types         []string
}

func (m *c03Mapping) flag() string {
	return fmt.Sprintf("%d:%d,^(%s)", m.level, m.suffix, strings.Join(m.types, "|"))
}

func (m *c03Mapping) shorten(acc string) string {
	ss := strings.Split(acc, ":")
	hit := false
	for _, t := range m.types {
		hit = hit || ss[0] == t
	}
	if !hit || m.suffix >= len(ss) || m.level > len(ss)-m.suffix {
		return acc
	}
	split := len(ss) - m.suffix
	return strings.Join(append(append([]string(nil), ss[:m.level]...), ss[split:]...), ":")
}

func (m *c03Mapping) apply(exp map[c03Key][]c03Row, skip map[c03Key]bool) (map[c03Key][]c03Row, map[c03Key]bool) {
	out, oskip := map[c03Key][]c03Row{}, map[c03Key]bool{}
	for k, rows := range exp {
		nk := c03Key{m.shorten(k.acc), k.com}
		if out[nk] == nil {
			out[nk] = make([]c03Row, len(rows))
			for ci := range rows {
				out[nk][ci] = c03Row{val: new(big.Rat), budget: new(big.Rat)}
			}
		}
		for ci, row := range rows {
			o := &out[nk][ci]
			o.val.Add(o.val, row.val)
			o.budget.Add(o.budget, row.budget)
			o.moved = o.moved || row.moved
		}
	}
	for k := range skip {
		oskip[c03Key{m.shorten(k.acc), k.com}] = true
	}
	return out, oskip
}

// c03Expected computes, per (row account, commodity or "" when aggregated), the
// expected cells and budgets.
func c03Expected(j *gen.Journal, posts []ref.Posting, pb *ref.PriceBook, v string, start cal.Day, periods []cal.Period, diff, showAll, closing bool) (map[c03Key][]c03Row, int, map[c03Key]bool) {
	n := len(periods)
	exp := map[c03Key][]c03Row{}
	// rows whose value depends on a commodity that is reachable from V through
	// more than one chain (and not declared directly) are not judged here (C12)
	skip := map[c03Key]bool{}
	ambiguous := func(com string) bool {
		if com == v {
			return false
		}
		for _, d := range pb.Days {
			if d <= periods[n-1].End && pb.Ambiguous(d, com) {
				return true
			}
		}
		return false
	}
	skipRow := func(acc, com string) {
		if !showAll {
			com = ""
		}
		skip[c03Key{acc, com}] = true
		if closing {
			// what is not judged on its own row is not judged after it was closed either
			skip[c03Key{"Equity:Equity", com}] = true
		}
	}
	get := func(acc, com string) []c03Row {
		if !showAll {
			com = ""
		}
		k := c03Key{acc, com}
		if exp[k] == nil {
			rows := make([]c03Row, n)
			for i := range rows {
				rows[i] = c03Row{val: new(big.Rat), budget: new(big.Rat).Mul(ref.Eps8, big.NewRat(2, 1))}
			}
			exp[k] = rows
		}
		return exp[k]
	}
	addCell := func(rows []c03Row, col int, val, budget *big.Rat) {
		rows[col].val.Add(rows[col].val, val)
		rows[col].budget.Add(rows[col].budget, budget)
	}
	mul := func(a, b *big.Rat) *big.Rat { return new(big.Rat).Mul(a, b) }
	abs := func(a *big.Rat) *big.Rat { return new(big.Rat).Abs(a) }
	// journal days inside the window up to each column end
	daysUpTo := func(t cal.Day) int {
		cnt := 0
		for _, d := range pb.Days {
			if d >= start && d <= t {
				cnt++
			}
		}
		return cnt
	}
	prevDay, havePrev := pb.PrevDay(start)
	type pk struct{ acc, com string }
	positions := map[pk]bool{}
	for _, p := range posts {
		if ref.IsAL(p.Account) {
			positions[pk{p.Account, p.Com}] = true
		}
	}
	movedCount := 0
	mirror := func(acc string) string {
		segs := strings.Split(acc, ":")
		return strings.Join(append([]string{"Income"}, segs[1:]...), ":")
	}
	end := periods[n-1].End
	for pos := range positions {
		if ambiguous(pos.com) {
			skipRow(pos.acc, pos.com)
			skipRow(mirror(pos.acc), pos.com)
			continue
		}
		// cumulative values per column, then diff if requested
		posMoved := false
		// at(t): value of the position at t (minus the pre-window mark), its budget, and the
		// accumulated revaluation gain (value minus what was booked at booking-day prices)
		at := func(t cal.Day) (val, bud, gain, gb *big.Rat) {
			val, bud, gain, gb = new(big.Rat), new(big.Rat), new(big.Rat), new(big.Rat)
			if t < start {
				return
			}
			qT, qS := new(big.Rat), new(big.Rat)
			np := 0
			bookedVal := new(big.Rat) // Σ q·P(t_p) over window postings up to t
			bookedBud := new(big.Rat)
			for _, p := range posts {
				if p.Account != pos.acc || p.Com != pos.com {
					continue
				}
				if p.Date < start {
					qS.Add(qS, p.Qty)
				}
				if p.Date <= t && p.Date <= end {
					qT.Add(qT, p.Qty)
				}
				if p.Date >= start && p.Date <= t {
					np++
					if pos.com == v {
						bookedVal.Add(bookedVal, p.Qty)
					} else if pp, pe, ok := pb.At(p.Date, pos.com); ok {
						bookedVal.Add(bookedVal, mul(p.Qty, pp))
						bookedBud.Add(bookedBud, mul(abs(p.Qty), pe))
					}
				}
			}
			if pos.com == v {
				val.Sub(qT, qS)
			} else {
				if qT.Sign() != 0 {
					pT, eT, ok := pb.At(t, pos.com)
					if ok {
						val.Add(val, mul(qT, pT))
						bud.Add(bud, mul(abs(qT), eT))
					}
				}
				if qS.Sign() != 0 && havePrev {
					pS, eS, ok := pb.At(prevDay, pos.com)
					if ok {
						val.Sub(val, mul(qS, pS))
						bud.Add(bud, mul(abs(qS), eS))
					}
				}
				// did the price move inside the window while held?
				if p0, _, ok0 := pb.At(start, pos.com); ok0 {
					if p1, _, ok1 := pb.At(t, pos.com); ok1 && p0.Cmp(p1) != 0 && qT.Sign() != 0 {
						posMoved = true
					}
				}
			}
			steps := big.NewRat(int64(np+daysUpTo(t)+2), 1)
			bud.Add(bud, mul(steps, ref.Eps8))
			gain.Sub(val, bookedVal)
			gb.Add(bud, bookedBud)
			gb.Add(gb, mul(steps, ref.Eps8))
			return
		}
		cumVal := make([]*big.Rat, n)
		cumBud := make([]*big.Rat, n)
		cumGain := make([]*big.Rat, n)
		cumGainBud := make([]*big.Rat, n)
		// with closing: the gain accumulated before each period start is moved to Equity:Equity there
		preGain := make([]*big.Rat, n)
		preGainBud := make([]*big.Rat, n)
		for col, per := range periods {
			cumVal[col], cumBud[col], cumGain[col], cumGainBud[col] = at(per.End)
			_, _, preGain[col], preGainBud[col] = at(per.Start - 1)
		}
		if posMoved {
			movedCount++
		}
		rowsA := get(pos.acc, pos.com)
		var rowsM, rowsE []c03Row
		if pos.com != v {
			rowsM = get(mirror(pos.acc), pos.com)
			if closing {
				rowsE = get("Equity:Equity", pos.com)
			}
		}
		sub := func(a, b *big.Rat) *big.Rat { return new(big.Rat).Sub(a, b) }
		add := func(a, b *big.Rat) *big.Rat { return new(big.Rat).Add(a, b) }
		for col := 0; col < n; col++ {
			val, bud := cumVal[col], cumBud[col]
			gain, gb := cumGain[col], cumGainBud[col]
			eq, eqb := preGain[col], preGainBud[col]
			if closing {
				// the mirror account only holds what accrued since the last closing
				gain, gb = sub(gain, preGain[col]), add(gb, preGainBud[col])
			}
			if diff && col > 0 {
				val = sub(val, cumVal[col-1])
				bud = add(bud, cumBud[col-1])
				prevGain, prevGb := cumGain[col-1], cumGainBud[col-1]
				if closing {
					prevGain, prevGb = sub(prevGain, preGain[col-1]), add(prevGb, preGainBud[col-1])
					eq, eqb = sub(eq, preGain[col-1]), add(eqb, preGainBud[col-1])
				}
				gain = sub(gain, prevGain)
				gb = add(gb, prevGb)
			}
			addCell(rowsA, col, val, bud)
			if rowsM != nil {
				addCell(rowsM, col, gain, gb)
			}
			if rowsE != nil {
				addCell(rowsE, col, eq, eqb)
			}
		}
	}
	// non-A/L postings: valued at the booking day's price, displayed negated
	for _, p := range posts {
		if ref.IsAL(p.Account) || p.Date < start || p.Date > end {
			continue
		}
		if ambiguous(p.Com) {
			skipRow(p.Account, p.Com)
			continue
		}
		col := -1
		for ci, per := range periods {
			if p.Date <= per.End {
				col = ci
				break
			}
		}
		if col < 0 {
			continue
		}
		var val, bud *big.Rat
		if p.Com == v {
			val, bud = new(big.Rat).Neg(p.Qty), new(big.Rat)
		} else {
			pp, pe, ok := pb.At(p.Date, p.Com)
			if !ok {
				continue
			}
			val = new(big.Rat).Neg(mul(p.Qty, pp))
			bud = new(big.Rat).Add(mul(abs(p.Qty), pe), ref.Eps8)
		}
		rows := get(p.Account, p.Com)
		if closing && p.Account != "Equity:Equity" {
			// closed into Equity:Equity at the start of the next shown period (at the start of
			// the first one when the booking precedes it)
			eqRows := get("Equity:Equity", p.Com)
			shown := p.Date >= periods[col].Start
			firstEq := col + 1
			if !shown {
				firstEq = col // == 0
			}
			if diff {
				if shown {
					addCell(rows, col, val, bud)
					if col+1 < n {
						addCell(rows, col+1, new(big.Rat).Neg(val), bud)
					}
				}
				if firstEq < n {
					addCell(eqRows, firstEq, val, bud)
				}
			} else {
				if shown {
					addCell(rows, col, val, bud)
				}
				for ci := firstEq; ci < n; ci++ {
					addCell(eqRows, ci, val, bud)
				}
			}
			continue
		}
		last := col
		if !diff {
			last = n - 1
		}
		for ci := col; ci <= last; ci++ {
			addCell(rows, ci, val, bud)
		}
	}
	return exp, movedCount, skip
}

func c03Compare(textOut string, exp map[c03Key][]c03Row, skip map[c03Key]bool, periods []cal.Period, showAll bool) string {
	b, err := tab.ParseBalanceText(textOut)
	if err != nil {
		return "unreadable report: " + err.Error()
	}
	if len(b.Dates) != len(periods) {
		return fmt.Sprintf("report has %d date columns, reference %d", len(b.Dates), len(periods))
	}
	for ci, p := range periods {
		if b.Dates[ci] != p.End.String() {
			return fmt.Sprintf("column %d is %s, reference period ends %s", ci, b.Dates[ci], p.End)
		}
	}
	if showAll != b.HasComm {
		return fmt.Sprintf("commodity column present=%v, -s given=%v", b.HasComm, showAll)
	}
	obs := map[c03Key][]*big.Rat{}
	for _, row := range b.Rows {
		if row.Section != "AL" && row.Section != "EIE" {
			continue
		}
		vals := make([]*big.Rat, len(periods))
		any := false
		for ci, cs := range row.Cells {
			v, ok := ratOrZero(cs)
			if !ok {
				return fmt.Sprintf("cell %q is not a number", cs)
			}
			vals[ci] = v
			if v.Sign() != 0 {
				any = true
			}
		}
		if !any {
			continue
		}
		k := c03Key{row.Account(), row.Comm}
		if obs[k] != nil {
			return fmt.Sprintf("row %s %s appears twice", k.acc, k.com)
		}
		obs[k] = vals
	}
	for k, rows := range exp {
		if skip[k] {
			continue
		}
		got := obs[k]
		for ci, want := range rows {
			g := new(big.Rat)
			if got != nil {
				g = got[ci]
			}
			diff := new(big.Rat).Sub(g, want.val)
			if diff.Abs(diff).Cmp(want.budget) > 0 {
				return fmt.Sprintf("row %s %s column %s: report shows %s, reference value %s (budget %s, difference %s)",
					k.acc, k.com, periods[ci].End, g.FloatString(8), want.val.FloatString(10), want.budget.FloatString(10), diff.FloatString(10))
			}
		}
	}
	small := big.NewRat(1, 1000000)
	for k, got := range obs {
		if _, ok := exp[k]; ok || skip[k] {
			continue
		}
		for ci, g := range got {
			if new(big.Rat).Abs(g).Cmp(small) > 0 {
				return fmt.Sprintf("row %s %s column %s shows %s but the reference has no value there", k.acc, k.com, periods[ci].End, g.FloatString(8))
			}
		}
	}
	return ""
}

var noPriceRe = regexp.MustCompile(`no price found`)

// missing plants a missing price and expects a clean failure.
func (k *c03) missing(c *core.Ctx, i int, dir string, j *gen.Journal, info *gen.Info, posts []ref.Posting) {
	r := c.Rng(i, "missing")
	if len(info.Commodities) < 2 {
		return
	}
	// commodities that are actually booked with a non-zero quantity
	booked := map[string]cal.Day{}
	for _, p := range posts {
		if p.Qty.Sign() == 0 {
			continue
		}
		if d, ok := booked[p.Com]; !ok || p.Date < d {
			booked[p.Com] = p.Date
		}
	}
	var cands []string
	for _, com := range info.Commodities {
		if _, ok := booked[com]; ok {
			cands = append(cands, com)
		}
	}
	if len(cands) == 0 {
		return
	}
	victim := cands[r.Intn(len(cands))]
	m := j.Clone()
	kind := r.Intn(3)
	var v string
	switch kind {
	case 0: // never priced: remove every declaration that involves the victim
		var dirs []gen.Dir
		for _, d := range m.Dirs {
			if d.Kind == gen.KPrice && (d.Com == victim || d.Tgt == victim) {
				continue
			}
			dirs = append(dirs, d)
		}
		m.Dirs = dirs
	case 1: // first price only after the first booking
		for di := range m.Dirs {
			d := &m.Dirs[di]
			if d.Kind == gen.KPrice && (d.Com == victim || d.Tgt == victim) && d.Date <= booked[victim] {
				d.Date = booked[victim] + 1 + cal.Day(r.Intn(5))
			}
		}
	case 2: // priced only against a commodity outside V's component
		var dirs []gen.Dir
		for _, d := range m.Dirs {
			if d.Kind == gen.KPrice && (d.Com == victim || d.Tgt == victim) {
				continue
			}
			dirs = append(dirs, d)
		}
		dirs = append(dirs, gen.Dir{Kind: gen.KPrice, Date: info.Dates[0], Com: victim, Tgt: "ISLAND", Price: "2"})
		m.Dirs = dirs
	}
	// V: any commodity other than the victim that is not cut off together with it;
	// to keep it simple V must be a commodity whose component does not contain the victim.
	pbAll := map[string]bool{}
	for _, com := range info.Commodities {
		if com != victim {
			pbAll[com] = true
		}
	}
	for _, com := range info.Commodities {
		if com == victim {
			continue
		}
		pb := ref.NewPriceBook(m, com)
		// victim must be unreachable on its first booking day
		if _, _, ok := pb.At(booked[victim], victim); !ok {
			v = com
			break
		}
	}
	if v == "" {
		return
	}
	text := m.Text()
	writeFile(dir, "m.knut", text)
	to := info.Dates[len(info.Dates)-1] + 30
	args := []string{"balance", "--csv", "-v", v, "--to", to.String(), "m.knut"}
	res := knut(c, dir, nil, args...)
	c.Eval(1)
	c.Count("missing_price_cases", 1)
	kinds := []string{"never-priced", "priced-too-late", "disconnected"}
	fail := func(key, why string) {
		c.Violation(core.Witness{Case: i, Key: key, Why: why + " (" + kinds[kind] + ": " + victim + " has no price in " + v + " on " + booked[victim].String() + ")",
			Files: map[string][]byte{"m.knut": []byte(text)}, Cmd: knutCmd(c, nil, args...),
			Extra: map[string]string{"stdout.txt": string(res.Stdout), "stderr.txt": string(res.Stderr)}})
	}
	switch {
	case res.Class == "ok":
		fail("missing-price-accepted", "a needed price does not exist on or before the booking day but the valued report succeeds")
	case res.Class != "error":
		fail("missing-price-abnormal", "missing price ends abnormally: "+fmtErr(res))
	case len(res.Stderr) == 0:
		fail("missing-price-silent", "missing price fails without a diagnostic")
	case len(res.Stdout) != 0:
		fail("missing-price-stdout", "missing price fails but prints numbers to stdout")
	default:
		c.Nontrivial("missing|" + text + v)
		c.Observe("missing_kinds", kinds[kind])
	}
}
