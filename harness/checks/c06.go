package checks

import (
	"bufio"
	"crypto/sha256"
	"encoding/hex"
	"encoding/json"
	"fmt"
	"math/rand"
	"os"
	"path/filepath"
	"sort"
	"strings"

	"kverif/cal"
	"kverif/core"
	"kverif/gen"
	"kverif/stmt"
)

// C06 — output is a function of the input alone.
type c06 struct {
	runs      int
	importers []c06Import
}

type c06Import struct {
	name string
	args []string
	file string // absolute path of the statement
}

func init() { register("C06", func() core.Check { return &c06{} }) }

func (*c06) Level() string { return "exploration" }
func (*c06) Rule() string {
	return "case = generated journal spread over an include tree, built to contain ties (all-zero weights in unvalued reports, sibling accounts with equal values, alternative price paths, same-day opens/prices/assertions/closes in different files, symmetric infer training data, equal portfolio weights, two-currency revolut2 days) x command set (balance valued/unvalued x weighted/-a x -s, print, check --write, transcode, infer, format, import <each importer>, portfolio weights/returns); each command is run N times (quick 8, thorough 24) on identical files and flags, varying only GOMAXPROCS, the verif schedule-perturbation seed and Go's map randomisation; oracle = exactly one distinct (stdout, exit status); non-trivial = command whose runs produced >=2 distinct batch-arrival orders or ran at >=3 GOMAXPROCS values; distinct = hash of inputs + argv"
}

func (k *c06) Setup(c *core.Ctx) (int, error) {
	k.runs = c.N(8, 24)
	imp := func(name, dir string, args ...string) {
		k.importers = append(k.importers, c06Import{name: name, args: args, file: "/repo/cmd/importer/" + dir + "/testdata/example1.input"})
	}
	imp("ch.cumulus", "cumulus", "--account", "Liabilities:Cumulus")
	imp("us.interactivebrokers", "interactivebrokers", "--account", "Assets:IB", "--dividend", "Income:Dividends", "--fee", "Expenses:Fees", "--tax", "Expenses:Tax", "--interest", "Expenses:Interest", "--trading", "Expenses:Trading")
	imp("ch.postfinance", "postfinance", "--account", "Assets:Postfinance")
	imp("revolut", "revolut", "--account", "Assets:Accounts:Revolut")
	imp("revolut2", "revolut2", "--account", "Assets:Accounts:Revolut", "--fee", "Expenses:Fees")
	imp("ch.supercard", "supercard", "--account", "Liabilities:CreditCard")
	imp("ch.swisscard", "swisscard", "--account", "Liabilities:CreditCard")
	imp("ch.swisscard2", "swisscard2", "--account", "Liabilities:CreditCard")
	imp("ch.swissquote", "swissquote", "--account", "Assets:Swissquote", "--dividend", "Income:Dividends", "--fee", "Expenses:Fees", "--interest", "Income:Interest", "--tax", "Expenses:Tax", "--trading", "Expenses:Trading")
	imp("ch.viac", "viac", "--commodity", "Viac")
	imp("com.wise", "wise", "--account", "Assets:Accounts:Wise", "--fee", "Expenses:Fees", "--trading", "Expenses:Trading")
	return c.N(100, 1000), nil
}

func (*c06) Finish(c *core.Ctx) {
	c.Assume("stderr is not compared (which of two planted errors is reported first may legitimately depend on scheduling); a k-way tie decided by map order is missed by N runs with probability about k*(1/k)^N")
}

// revolut2Statement builds a statement with two currencies on the same days.
func revolut2Statement(r *rand.Rand) string {
	var b strings.Builder
	b.WriteString("Type,Product,Started Date,Completed Date,Description,Amount,Fee,Currency,State,Balance\n")
	bal := map[string]float64{"CHF": 1000, "EUR": 500, "USD": 250}
	curs := []string{"CHF", "EUR", "USD"}
	day := 1
	for n := 0; n < 12; n++ {
		if r.Intn(3) == 0 {
			day++
		}
		cur := curs[r.Intn(len(curs))]
		amt := float64(r.Intn(9000)+100) / 100
		bal[cur] -= amt
		fmt.Fprintf(&b, "CARD_PAYMENT,Current,2021-03-%02d 10:%02d:00,2021-03-%02d 11:%02d:00,shop%d,-%.2f,0.00,%s,COMPLETED,%.2f\n",
			day, n, day, n, n, amt, cur, bal[cur])
	}
	return b.String()
}

func (k *c06) RunCase(c *core.Ctx, i int) {
	r := c.Rng(i, "journal")
	o := gen.DefaultOpts(r)
	o.Prices = true
	o.PriceGraph = r.Intn(2) == 0
	o.Small = true
	o.Commodities = 2 + r.Intn(4)
	o.Lifecycle = true
	o.Assertions = true
	o.Perf = r.Intn(2) == 0
	o.Accruals = r.Intn(3) == 0
	o.Days = 4 + r.Intn(10)
	j, info := gen.Accepted(r, o)
	// ties: duplicate some bookings onto sibling accounts with identical amounts
	k.addTies(r, j, info)
	files := j.SplitTree(r, 3, 3)
	zr := c.Rng(i, "zero-total")
	zj, zu := zeroTotalPortfolio(zr)
	files["zero.knut"], files["zero.yaml"] = []byte(zj), []byte(zu)
	ptTrain, ptTarget := permutedCountTies(c.Rng(i, "permuted-ties"))
	files["pt-train.knut"], files["pt-target.knut"] = []byte(ptTrain), []byte(ptTarget)
	dir := c.CaseDir(i)
	defer os.RemoveAll(dir)
	if err := core.WriteFiles(dir, files); err != nil {
		panic(err)
	}
	to := (info.Dates[len(info.Dates)-1] + 20).String()
	v := info.Commodities[r.Intn(len(info.Commodities))]
	// infer target with placeholders; training = the journal (symmetric by construction of addTies)
	target := k.inferTarget(r, j)
	writeFile(dir, "target.knut", target)
	rev := revolut2Statement(r)
	writeFile(dir, "rev2.csv", rev)
	many := manyCommodities(r)
	writeFile(dir, "many.knut", many)
	type cmdSpec struct {
		key  string
		args []string
	}
	cmds := []cmdSpec{
		{"balance-unvalued-weighted", []string{"balance", "--to", to, "main.knut"}},
		{"balance-unvalued-alpha", []string{"balance", "--to", to, "-a", "--months", "main.knut"}},
		{"balance-valued-weighted", []string{"balance", "--to", to, "-v", v, "-s", ".", "--quarters", "main.knut"}},
		{"balance-valued-alpha", []string{"balance", "--to", to, "-v", v, "-a", "main.knut"}},
		{"balance-csv-mapped", []string{"balance", "--to", to, "--csv", "-m", "2", "--diff", "--months", "main.knut"}},
		{"print", []string{"print", "main.knut"}},
		{"check-write", []string{"check", "--write", "main.knut"}},
		{"transcode", []string{"transcode", "-v", v, "main.knut"}},
		{"weights", []string{"portfolio", "weights", "-v", v, "--to", to, "--months", "--csv", "main.knut"}},
		{"weights-text", []string{"portfolio", "weights", "-v", v, "--to", to, "--digits", "2", "main.knut"}},
		{"returns", []string{"portfolio", "returns", "-v", v, "--to", to, "--months", "main.knut"}},
		{"weights-many-commodities", []string{"portfolio", "weights", "-v", "CHF", "--to", "2020-03-01", "--color=false", "--digits", "14", "many.knut"}},
		{"returns-many-commodities", []string{"portfolio", "returns", "-v", "CHF", "--to", "2020-03-01", "--weeks", "many.knut"}},
		{"balance-many-commodities", []string{"balance", "-v", "CHF", "--to", "2020-03-01", "--digits", "8", "--color=false", "many.knut"}},
		{"balance-many-commodities-unvalued", []string{"balance", "--to", "2020-03-01", "--csv", "many.knut"}},
		{"check-write-many-commodities", []string{"check", "--write", "many.knut"}},
		{"transcode-many-commodities", []string{"transcode", "-v", "CHF", "many.knut"}},
		{"infer", []string{"infer", "-t", "main.knut", "target.knut"}},
		{"register", []string{"register", "--to", to, "main.knut"}},
		{"infer-permuted-count-ties", []string{"infer", "-t", "pt-train.knut", "pt-target.knut"}},
		{"weights-zero-total-universe", []string{"portfolio", "weights", "-v", "CHF", "--universe", "zero.yaml", "--to", "2020-03-01", "--color=false", "zero.knut"}},
		{"weights-zero-total-universe-csv", []string{"portfolio", "weights", "-v", "CHF", "--universe", "zero.yaml", "--to", "2020-03-01", "--months", "--csv", "zero.knut"}},
		{"weights-zero-total", []string{"portfolio", "weights", "-v", "CHF", "--to", "2020-03-01", "--color=false", "-m", "1", "zero.knut"}},
		{"returns-zero-total", []string{"portfolio", "returns", "-v", "CHF", "--to", "2020-03-01", "--weeks", "zero.knut"}},
		{"import-revolut2-two-currencies", []string{"import", "revolut2", "--account", "Assets:Revolut", "--fee", "Expenses:Fees", "rev2.csv"}},
	}
	imp := k.importers[i%len(k.importers)]
	cmds = append(cmds, cmdSpec{"import-" + imp.name, append(append([]string{"import", imp.name}, imp.args...), imp.file)})
	// a generated statement (same generators as C13) for two importers per case
	gens := stmt.All()
	for n := 0; n < 2 && len(gens) > 0; n++ {
		g := gens[(2*i+n)%len(gens)]
		st := g.Generate(c.Rng(i, "stmt"+g.Short()), stmt.Opts{Hostile: n == 1, NoOddSymbols: true})
		name := fmt.Sprintf("gen-%s-%s", g.Short(), st.FileName)
		if err := os.WriteFile(filepath.Join(dir, name), st.File, 0o644); err != nil {
			panic(err)
		}
		args := append([]string{"import", st.Importer}, st.Flags...)
		cmds = append(cmds, cmdSpec{"import-generated-" + g.Short(), append(args, name)})
	}
	gmp := []string{"1", "2", "4", "16"}
	for _, cs := range cmds {
		if c.OverBudget() {
			c.NotJudged(1)
			return
		}
		outs := map[string]int{}
		var firstOut, otherOut string
		var firstDesc, otherDesc string
		arrivals := map[string]bool{}
		failedRuns := 0
		for n := 0; n < k.runs && !c.OverBudget(); n++ {
			env := []string{"GOMAXPROCS=" + gmp[n%len(gmp)]}
			if n%2 == 1 {
				env = append(env, fmt.Sprintf("KNUT_VERIF_SCHED=%d:300:200", i*1000+n))
			}
			trace := ""
			if cs.key == "print" || cs.key == "balance-unvalued-weighted" {
				trace = filepath.Join(dir, fmt.Sprintf("tr-%s-%d.jsonl", cs.key, n))
				env = append(env, "KNUT_VERIF_TRACE="+trace)
			}
			res := knut(c, dir, env, cs.args...)
			c.Eval(1)
			if res.Exit != 0 {
				failedRuns++
			}
			if res.Class == "timeout" {
				c.Inconclusive(i, cs.key+" timed out")
				continue
			}
			h := sha256.Sum256(append(append([]byte{}, res.Stdout...), []byte(fmt.Sprintf("|exit=%d", res.Exit))...))
			hk := hex.EncodeToString(h[:8])
			if _, seen := outs[hk]; !seen {
				desc := fmt.Sprintf("%s (exit %d)", strings.Join(env, " "), res.Exit)
				if len(outs) == 0 {
					firstOut, firstDesc = string(res.Stdout), desc
				} else if otherOut == "" {
					otherOut, otherDesc = string(res.Stdout), desc
				}
			}
			outs[hk]++
			if trace != "" {
				arrivals[arrivalSignature(trace)] = true
				os.Remove(trace)
			}
		}
		c.Count("commands", 1)
		if cs.key == "returns" && failedRuns > 0 {
			// `portfolio returns` prints while it processes; the quantifier of this
			// property does not list it, and its stdout on failing runs is not judged
			c.NotJudged(1)
			continue
		}
		for a := range arrivals {
			c.Observe("arrival_orders", a)
		}
		if len(outs) > 1 {
			c.Violation(core.Witness{Case: i, Key: cs.key,
				Why:   fmt.Sprintf("%d runs of `knut %s` on identical files produced %d distinct (stdout, exit) results; first under %s, another under %s; first differing line: %s", k.runs, strings.Join(cs.args, " "), len(outs), firstDesc, otherDesc, firstDiff(firstOut, otherOut)),
				Files: c06Files(files, target, rev+"\x00"+many),
				Cmd:   knutCmd(c, nil, cs.args...),
				Extra: map[string]string{"out1.txt": firstOut, "out2.txt": otherOut}})
			continue
		}
		if len(arrivals) >= 2 || k.runs >= 3 {
			c.Nontrivial(fmt.Sprintf("%d|%s", i, strings.Join(cs.args, " ")))
		}
		if c.WantSample() && cs.key == "print" {
			c.Sample(map[string]any{"files": len(files), "argv": strings.Join(cs.args, " "), "runs": k.runs, "distinct_outputs": len(outs), "distinct_arrival_orders": len(arrivals), "stdout": core.Trunc(firstOut, 800)})
		}
	}
}

// manyCommodities builds a journal that holds a dozen commodities whose values
// are not exactly representable in binary floating point, so that the order of
// a floating point summation shows in the last digits.
func manyCommodities(r *rand.Rand) string {
	var b strings.Builder
	b.WriteString("2020-01-01 open Assets:Bank\n2020-01-01 open Liabilities:Loan\n2020-01-01 open Equity:Opening\n")
	n := 8 + r.Intn(8)
	for i := 0; i < n; i++ {
		fmt.Fprintf(&b, "2020-01-01 price C%d 0.%d%d3 CHF\n", i, 1+r.Intn(9), 1+r.Intn(9))
	}
	b.WriteString("\n")
	for i := 0; i < n; i++ {
		acc := "Assets:Bank"
		if r.Intn(4) == 0 {
			acc = "Liabilities:Loan"
		}
		fmt.Fprintf(&b, "2020-01-0%d \"d\"\nEquity:Opening %s %d.%d C%d\n\n", 2+r.Intn(3), acc, 1+r.Intn(999), 1+r.Intn(99), i)
	}
	for i := 0; i < n; i += 2 {
		fmt.Fprintf(&b, "2020-02-0%d price C%d 0.%d%d7 CHF\n", 1+r.Intn(9), i, 1+r.Intn(9), 1+r.Intn(9))
	}
	// commodities whose names differ only in letter case, held in equal amounts in one account
	for i := 0; i < 3; i++ {
		q := 1 + r.Intn(500)
		for _, name := range []string{fmt.Sprintf("Tw%d", i), fmt.Sprintf("tw%d", i), fmt.Sprintf("TW%d", i)} {
			fmt.Fprintf(&b, "2020-01-01 price %s 1.5 CHF\n\n2020-01-05 \"twin\"\nEquity:Opening Assets:Bank %d %s\n\n", name, q, name)
		}
	}
	return b.String()
}

// zeroTotalPortfolio builds a portfolio whose valued asset/liability total is
// exactly zero although positions are held (longs, shorts, a loan), and a
// universe that puts longs and shorts into common classes: every weight is a
// division by zero (+Inf, -Inf, and NaN where both meet in a class), which must
// still be ordered and printed the same way on every run.
func zeroTotalPortfolio(r *rand.Rand) (journal, universe string) {
	var b strings.Builder
	b.WriteString("2020-01-01 open Assets:Broker:Long\n2020-01-01 open Assets:Broker:Short\n2020-01-01 open Assets:Bank\n2020-01-01 open Liabilities:Loan\n2020-01-01 open Equity:Opening\n")
	n := 3 + r.Intn(5)
	total := 0
	classes := map[string][]string{}
	classNames := []string{"Equities:US", "Equities:EU", "Bonds", "Alternatives:Gold", "Alternatives:Crypto"}
	for i := 0; i < n; i++ {
		price := 1 + r.Intn(50)
		qty := 1 + r.Intn(40)
		name := fmt.Sprintf("P%d", i)
		fmt.Fprintf(&b, "2020-01-01 price %s %d CHF\n", name, price)
		acc := "Assets:Broker:Long"
		if i%2 == 1 {
			acc, qty = "Assets:Broker:Short", -qty
		}
		total += price * qty
		fmt.Fprintf(&b, "\n2020-01-0%d \"position\"\nEquity:Opening %s %d %s\n\n", 2+r.Intn(3), acc, qty, name)
		cl := classNames[r.Intn(len(classNames))]
		if i < 2 {
			cl = classNames[0] // the first long and the first short share a class
		}
		classes[cl] = append(classes[cl], name)
	}
	// cash and a loan bring the total to exactly zero
	cash := 1 + r.Intn(500)
	fmt.Fprintf(&b, "2020-01-05 \"cash\"\nEquity:Opening Assets:Bank %d CHF\n\n", cash)
	fmt.Fprintf(&b, "2020-01-05 \"loan\"\nEquity:Opening Liabilities:Loan %d CHF\n\n", -(total + cash))
	b.WriteString("2020-02-20 price ZZZ 1 YYY\n")
	classes["Cash"] = []string{"CHF"}
	var names []string
	for cl := range classes {
		names = append(names, cl)
	}
	sort.Strings(names)
	var u strings.Builder
	for _, cl := range names {
		fmt.Fprintf(&u, "%s: [%s]\n", cl, strings.Join(classes[cl], ", "))
	}
	return b.String(), u.String()
}

// permutedCountTies builds a training journal with two candidate accounts whose
// per-word counts are permutations of one another, and a target whose
// description holds all the words: both scores are the same sum of logarithms
// taken in a different order.
func permutedCountTies(r *rand.Rand) (train, target string) {
	words := []string{"alpha", "beta", "gamma", "delta", "epsilon", "zeta", "eta"}[:4+r.Intn(4)]
	counts := make([]int, len(words))
	for i := range counts {
		counts[i] = 1 + r.Intn(9)
	}
	perm := r.Perm(len(words))
	var lines []string
	for i, w := range words {
		for n := 0; n < counts[i]; n++ {
			lines = append(lines, fmt.Sprintf("2020-01-%02d \"%s\"\nAssets:Bank Expenses:Alpha 10 CHF\n", 1+r.Intn(28), w))
		}
		for n := 0; n < counts[perm[i]]; n++ {
			lines = append(lines, fmt.Sprintf("2020-01-%02d \"%s\"\nAssets:Bank Expenses:Beta 10 CHF\n", 1+r.Intn(28), w))
		}
	}
	r.Shuffle(len(lines), func(a, b int) { lines[a], lines[b] = lines[b], lines[a] })
	var t strings.Builder
	for n := 0; n < 1+r.Intn(4); n++ {
		fmt.Fprintf(&t, "2020-02-%02d \"%s\"\nAssets:Bank Expenses:TBD 10 CHF\n\n", 1+n, strings.Join(words, " "))
	}
	return strings.Join(lines, "\n"), t.String()
}

func c06Files(files map[string][]byte, target, rev string) map[string][]byte {
	parts := strings.SplitN(rev, "\x00", 2)
	res := map[string][]byte{"target.knut": []byte(target), "rev2.csv": []byte(parts[0])}
	if len(parts) == 2 {
		res["many.knut"] = []byte(parts[1])
	}
	for k, v := range files {
		res[k] = v
	}
	return res
}

func firstDiff(a, b string) string {
	la, lb := strings.Split(a, "\n"), strings.Split(b, "\n")
	for i := 0; i < len(la) && i < len(lb); i++ {
		if la[i] != lb[i] {
			return fmt.Sprintf("line %d: %q vs %q", i+1, core.Trunc(la[i], 120), core.Trunc(lb[i], 120))
		}
	}
	return fmt.Sprintf("lengths %d vs %d lines", len(la), len(lb))
}

// arrivalSignature hashes the order in which per-file batches reached the builder.
func arrivalSignature(path string) string {
	f, err := os.Open(path)
	if err != nil {
		return "none"
	}
	defer f.Close()
	sc := bufio.NewScanner(f)
	sc.Buffer(make([]byte, 1<<20), 1<<26)
	var order []string
	for sc.Scan() {
		var ev struct {
			Ev   string `json:"ev"`
			Path string `json:"path"`
			N    int    `json:"n"`
		}
		if json.Unmarshal(sc.Bytes(), &ev) == nil && ev.Ev == "arrival" && ev.N > 0 {
			order = append(order, filepath.Base(ev.Path))
		}
	}
	return strings.Join(order, ">")
}

// addTies adds sibling accounts that mirror an existing account's bookings
// exactly, so that weights, Bayes scores and portfolio values tie.
func (k *c06) addTies(r *rand.Rand, j *gen.Journal, info *gen.Info) {
	first := info.Dates[0]
	twins := map[string]string{}
	var perms []string
	for a := range info.Permanent {
		perms = append(perms, a)
	}
	sort.Strings(perms)
	for n := 0; n < 2 && len(perms) > 0; n++ {
		a := perms[r.Intn(len(perms))]
		if _, ok := twins[a]; ok || a == "Equity:Equity" {
			continue
		}
		tw := a + "Twin"
		twins[a] = tw
		j.Dirs = append(j.Dirs, gen.Dir{Kind: gen.KOpen, Date: first, Acc: tw})
	}
	var extra []gen.Dir
	for _, d := range j.Dirs {
		if d.Kind != gen.KTxn || d.Accrual != nil {
			continue
		}
		dup := d
		dup.Bookings = nil
		changed := false
		safe := true
		for _, b := range d.Bookings {
			nb := b
			if t, ok := twins[b.Credit]; ok {
				nb.Credit = t
				changed = true
			} else if !info.Permanent[b.Credit] {
				safe = false
			}
			if t, ok := twins[b.Debit]; ok {
				nb.Debit = t
				changed = true
			} else if !info.Permanent[b.Debit] {
				safe = false
			}
			dup.Bookings = append(dup.Bookings, nb)
		}
		if changed && safe {
			extra = append(extra, dup)
		}
	}
	j.Dirs = append(j.Dirs, extra...)
	// transactions that are identical except for their @performance targets
	// (between two permanent non-asserted accounts, zero amount: no position changes)
	if len(perms) >= 2 {
		d0 := info.Dates[len(info.Dates)/3]
		for n := 0; n < 5; n++ {
			t := gen.Dir{Kind: gen.KTxn, Date: d0, Desc: "same but for targets", HasPerf: true,
				Bookings: []gen.Booking{{Credit: perms[0], Debit: perms[1], Qty: "0", Com: info.Commodities[0]}}}
			switch {
			case n == 1 || n == 2:
				t.Perf = info.Commodities[:1+(n-1)%len(info.Commodities)]
			case n >= 3 && len(info.Commodities) >= 2:
				// target lists of equal length that differ in their first element only
				t.Perf = []string{info.Commodities[1]}
				if n == 4 {
					t.Perf = []string{info.Commodities[1], info.Commodities[0]}
				}
			case n >= 3:
				continue
			}
			j.Dirs = append(j.Dirs, t)
		}
		// transactions that are identical except for the quantity or the commodity of their booking
		for n := 0; n < 3; n++ {
			qty, com := []string{"1", "2", "1"}[n], info.Commodities[0]
			if n == 2 {
				if len(info.Commodities) < 2 {
					continue
				}
				com = info.Commodities[1]
			}
			j.Dirs = append(j.Dirs, gen.Dir{Kind: gen.KTxn, Date: d0, Desc: "same but for the amount",
				Bookings: []gen.Booking{{Credit: perms[0], Debit: perms[1], Qty: qty, Com: com}}})
		}
	}
	gen.FixAssertions(j)
	// same-day prices/opens/assertions/closes for a few extra accounts
	d := info.Dates[len(info.Dates)/2]
	for n := 0; n < 3; n++ {
		acc := fmt.Sprintf("Assets:Tie:T%d", n)
		j.Dirs = append(j.Dirs,
			gen.Dir{Kind: gen.KOpen, Date: d, Acc: acc},
			gen.Dir{Kind: gen.KAssert, Date: d, Bals: []gen.Bal{{Acc: acc, Qty: "0", Com: info.Commodities[0]}}},
			gen.Dir{Kind: gen.KClose, Date: d + cal.Day(1), Acc: acc},
		)
	}
	// two different prices of one pair on one day, declared in opposite directions: which one
	// counts is a matter of their position in the sources, never of the loader's schedule
	if r.Intn(2) == 0 {
		var ps []gen.Dir
		for _, x := range j.Dirs {
			if x.Kind == gen.KPrice {
				ps = append(ps, x)
			}
		}
		if len(ps) > 0 {
			d0 := ps[r.Intn(len(ps))]
			j.Dirs = append(j.Dirs,
				gen.Dir{Kind: gen.KPrice, Date: d0.Date, Com: d0.Com, Tgt: d0.Tgt, Price: gen.PriceStr(r)},
				gen.Dir{Kind: gen.KPrice, Date: d0.Date, Com: d0.Tgt, Tgt: d0.Com, Price: gen.PriceStr(r)},
			)
		}
	}
}

func (k *c06) inferTarget(r *rand.Rand, j *gen.Journal) string {
	var b strings.Builder
	n := 0
	for _, d := range j.Dirs {
		if d.Kind != gen.KTxn || d.Accrual != nil || n >= 6 {
			continue
		}
		t := d
		t.Bookings = append([]gen.Booking{}, d.Bookings...)
		for bi := range t.Bookings {
			switch r.Intn(3) {
			case 0:
				t.Bookings[bi].Credit = "Expenses:TBD"
			case 1:
				t.Bookings[bi].Debit = "Expenses:TBD"
			}
		}
		t.HasPerf = false
		b.WriteString(gen.RenderDir(t))
		b.WriteString("\n")
		n++
	}
	return b.String()
}
