package checks

import (
	"fmt"
	"math/big"
	"os"
	"sort"
	"strings"

	"kverif/bean"
	"kverif/cal"
	"kverif/core"
	"kverif/gen"
	"kverif/jr"
	"kverif/ref"
)

// C16 — transcode emits a balanced, self-consistent beancount ledger.
//
// Observed: stdout of `knut transcode -v V main.knut`, read by the harness's
// own beancount reader (package bean). Judged, per the statement:
//
//	(1) every transaction's postings sum to exactly zero and carry the
//	    operating currency of the output's option line;
//	(2) dated entries are in non-decreasing date order;
//	(3) every account a posting uses has an open dated on or before that use
//	    and no posting follows the account's close in the (chronological) output;
//	(4) the transactions are exactly the valued user bookings plus the expected
//	    daily value adjustments (multiset on date, description, posting
//	    accounts; amounts within the truncation budget of the exact reference).
type c16 struct{}

func init() { register("C16", func() core.Check { return &c16{} }) }

func (*c16) Level() string { return "exploration" }
func (*c16) Rule() string {
	return "case = generated accepted journal (3-5 commodities, tree-shaped price graph declared on the first day and redeclared later, moderate amounts, lifecycle with closes/re-opens, 1/3 with accruals, 1/4 with a user-opened income account that coincides with a valuation mirror account, 1/5 with a multi-line description that imitates entries; single file in generation order / shuffled / spread over an include tree) x every commodity as valuation V; observed = stdout of `knut transcode -v V main.knut` through the harness's beancount reader; oracle = (1) every transaction sums to exactly zero and every currency token equals the operating currency of the option line, (2) entry dates non-decreasing, (3) every posting account has an open dated <= the use and is not used after its close in output order, (4) transactions = user bookings valued at the booking day's price (abstract model; for accrued journals the expansion `knut print` shows) + one adjustment per A/L position != V with non-zero quantity before each price day whose price moved, matched as multisets on (date, description, posting accounts) with amounts inside the truncation budget; non-trivial = (journal, V) with >= 2 commodities != V held on A/L accounts, >= 1 required adjustment matched and >= 5 user transactions; distinct = hash of journal files + V"
}

func (k *c16) Setup(c *core.Ctx) (int, error) {
	return c.N(700, 8000), nil
}

func (*c16) Finish(c *core.Ctx) {
	c.Assume("price graphs are forests, so the price of every commodity in V is unique (alternative paths are C12's business); prices exist from the first journal day on")
	c.Assume("amount budget per posting = |quantity| x propagated price-truncation bound + 2e-8 (user bookings: price of the booking day; adjustments: bounds of both days); an adjustment whose reference amount lies within its budget of zero may be present or absent; on days without a price directive no adjustment may appear")
	c.Assume("'used after its close' is judged in output order (the statement makes the output order the chronological order); 'open on or before first use' is judged by dates only")
	c.Assume("for journals with accruals the user transactions are taken from `knut print` of the same journal (the split of an accrued leg is C10's subject, not restated here); open/close directives of the output are not compared with the journal's (the statement does not ask for it)")
}

// ---------------------------------------------------------------- expected side

type c16Post struct {
	acc string
	val *big.Rat
	bud *big.Rat
}

type c16Txn struct {
	date     cal.Day
	desc     string
	posts    []c16Post
	adjust   bool
	optional bool
}

type c16Booking struct {
	credit, debit, com string
	qty                *big.Rat
}

type c16User struct {
	date     cal.Day
	desc     string
	bookings []c16Booking
}

const c16AdjustPrefix = "Adjust value of "

func c16Mirror(acc string) string {
	segs := strings.Split(acc, ":")
	return strings.Join(append([]string{"Income"}, segs[1:]...), ":")
}

func c16Key(date cal.Day, desc string, accs []string) string {
	s := append([]string{}, accs...)
	sort.Strings(s)
	return date.String() + "\x00" + desc + "\x00" + strings.Join(s, "\x01")
}

func (t *c16Txn) key() string {
	var accs []string
	for _, p := range t.posts {
		accs = append(accs, p.acc)
	}
	return c16Key(t.date, t.desc, accs)
}

// c16UsersFromModel reads the user transactions off the abstract journal.
func c16UsersFromModel(j *gen.Journal) []c16User {
	var res []c16User
	for _, d := range j.Dirs {
		if d.Kind != gen.KTxn {
			continue
		}
		u := c16User{date: d.Date, desc: d.Desc}
		for _, b := range d.Bookings {
			u.bookings = append(u.bookings, c16Booking{b.Credit, b.Debit, b.Com, gen.Rat(b.Qty)})
		}
		res = append(res, u)
	}
	return res
}

// c16UsersFromPrint reads the (accrual-expanded) transactions off `knut print`.
func c16UsersFromPrint(out string) ([]c16User, error) {
	dirs, err := jr.Read(out)
	if err != nil {
		return nil, err
	}
	var res []c16User
	for _, d := range dirs {
		if d.Kind != "txn" {
			continue
		}
		day, err := cal.Parse(d.Date)
		if err != nil {
			return nil, err
		}
		u := c16User{date: day, desc: d.Desc}
		for _, b := range d.Bookings {
			q, ok := new(big.Rat).SetString(b.Qty)
			if !ok {
				return nil, fmt.Errorf("quantity %q", b.Qty)
			}
			u.bookings = append(u.bookings, c16Booking{b.Credit, b.Debit, b.Com, q})
		}
		res = append(res, u)
	}
	return res, nil
}

type c16Stats struct {
	heldComs    int // commodities != V with a non-zero A/L position at some time
	requiredAdj int
	optionalAdj int
	users       int
}

// c16Expected builds the expected transactions. ok=false: a needed price does
// not exist in the reference (outside the workload; not judged).
func c16Expected(users []c16User, pb *ref.PriceBook, v string, priceDays []cal.Day) (exp []*c16Txn, st c16Stats, ok bool) {
	mul := func(a, b *big.Rat) *big.Rat { return new(big.Rat).Mul(a, b) }
	abs := func(a *big.Rat) *big.Rat { return new(big.Rat).Abs(a) }
	two := new(big.Rat).Mul(ref.Eps8, big.NewRat(2, 1))
	type pk struct{ acc, com string }
	type move struct {
		date cal.Day
		qty  *big.Rat
	}
	moves := map[pk][]move{}
	for _, u := range users {
		t := &c16Txn{date: u.date, desc: u.desc}
		for _, b := range u.bookings {
			var val, bud *big.Rat
			if b.com == v {
				val, bud = new(big.Rat).Set(b.qty), new(big.Rat)
			} else {
				p, e, have := pb.At(u.date, b.com)
				if !have {
					return nil, st, false
				}
				val = mul(b.qty, p)
				bud = new(big.Rat).Add(mul(abs(b.qty), e), two)
			}
			t.posts = append(t.posts, c16Post{b.credit, new(big.Rat).Neg(val), bud}, c16Post{b.debit, val, bud})
			if b.com != v && b.qty.Sign() != 0 {
				if ref.IsAL(b.credit) {
					moves[pk{b.credit, b.com}] = append(moves[pk{b.credit, b.com}], move{u.date, new(big.Rat).Neg(b.qty)})
				}
				if ref.IsAL(b.debit) {
					moves[pk{b.debit, b.com}] = append(moves[pk{b.debit, b.com}], move{u.date, b.qty})
				}
			}
		}
		exp = append(exp, t)
		st.users++
	}
	held := map[string]bool{}
	var keys []pk
	for k := range moves {
		keys = append(keys, k)
	}
	sort.Slice(keys, func(a, b int) bool {
		if keys[a].acc != keys[b].acc {
			return keys[a].acc < keys[b].acc
		}
		return keys[a].com < keys[b].com
	})
	for _, k := range keys {
		ms := moves[k]
		// held at some time?
		sort.SliceStable(ms, func(a, b int) bool { return ms[a].date < ms[b].date })
		run := new(big.Rat)
		for i, m := range ms {
			run.Add(run, m.qty)
			if run.Sign() != 0 && (i+1 == len(ms) || ms[i+1].date > m.date) {
				held[k.com] = true
			}
		}
		for _, d := range priceDays {
			q := new(big.Rat)
			for _, m := range ms {
				if m.date < d {
					q.Add(q, m.qty)
				}
			}
			if q.Sign() == 0 {
				continue
			}
			pc, ec, okc := pb.At(d, k.com)
			pp, ep, okp := pb.At(d-1, k.com)
			if !okc || !okp {
				return nil, st, false
			}
			amount := mul(new(big.Rat).Sub(pc, pp), q)
			bud := new(big.Rat).Add(mul(abs(q), new(big.Rat).Add(ec, ep)), two)
			t := &c16Txn{
				date: d, adjust: true,
				desc:  fmt.Sprintf("%s%s in account %s", c16AdjustPrefix, k.com, k.acc),
				posts: []c16Post{{k.acc, amount, bud}, {c16Mirror(k.acc), new(big.Rat).Neg(amount), bud}},
			}
			if abs(amount).Cmp(bud) <= 0 {
				t.optional = true
				st.optionalAdj++
			} else {
				st.requiredAdj++
			}
			exp = append(exp, t)
		}
	}
	st.heldComs = len(held)
	return exp, st, true
}

// ---------------------------------------------------------------- oracle

type c16Finding struct{ key, why string }

type c16Judged struct {
	findings     []c16Finding
	txMatched    int
	adjMatched   int
	accounts     int
	mirrorUnopen int
}

func (jd *c16Judged) add(key, format string, args ...any) {
	for _, f := range jd.findings {
		if f.key == key {
			return // one witness sentence per key
		}
	}
	jd.findings = append(jd.findings, c16Finding{key, fmt.Sprintf(format, args...)})
}

// c16IsMirrorAdjust: e is an `Adjust value of C in account X` transaction with
// exactly the postings {X, Income:<X without its first segment>} and acc is
// that income account.
func c16IsMirrorAdjust(e *bean.Entry, acc string) bool {
	if !strings.HasPrefix(e.Desc, c16AdjustPrefix) || len(e.Postings) != 2 {
		return false
	}
	const sep = " in account "
	k := strings.LastIndex(e.Desc, sep)
	if k < 0 {
		return false
	}
	x := e.Desc[k+len(sep):]
	if !ref.IsAL(x) || c16Mirror(x) != acc {
		return false
	}
	a, b := e.Postings[0].Account, e.Postings[1].Account
	return (a == x && b == acc) || (a == acc && b == x)
}

func c16Judge(l *bean.Ledger, v string, exp []*c16Txn, userOpened map[string]bool) *c16Judged {
	jd := &c16Judged{}
	// ---- (1) currency tokens and balance
	ops := l.Option("operating_currency")
	want := ""
	judgeCur := true
	switch {
	case len(ops) == 1:
		want = ops[0]
	case len(ops) == 0:
		// without the option line the output does not show how V is spelled as
		// a currency; only a purely alphabetic V is compared literally
		want = v
		for _, r := range v {
			if r < 'A' || r > 'Z' {
				judgeCur = false
			}
		}
	default:
		jd.add("currency-token", "the output declares %d operating currencies: %q", len(ops), ops)
		judgeCur = false
	}
	for i := range l.Entries {
		e := &l.Entries[i]
		if e.Kind != bean.Txn {
			continue
		}
		sum := new(big.Rat)
		for _, p := range e.Postings {
			sum.Add(sum, p.Amount)
			if judgeCur && p.Currency != want {
				jd.add("currency-token", "line %d: posting on %s carries currency %q, the operating currency of the output is %q (valuation %s)", p.Line, p.Account, p.Currency, want, v)
			}
		}
		if sum.Sign() != 0 {
			jd.add("unbalanced-transaction", "line %d: the postings of %s %q sum to %s, not 0", e.Line, e.Date, e.Desc, gen.DecString(sum))
		}
	}
	// ---- (2) chronological order
	chrono := true
	prev := ""
	for i := range l.Entries {
		e := &l.Entries[i]
		if e.Kind == bean.Option {
			continue
		}
		if _, err := cal.Parse(e.Date); err != nil {
			jd.add("not-chronological", "line %d: entry date %q is not a calendar date", e.Line, e.Date)
			chrono = false
			continue
		}
		if e.Date < prev {
			jd.add("not-chronological", "line %d: entry dated %s follows an entry dated %s", e.Line, e.Date, prev)
			chrono = false
		}
		if e.Date > prev {
			prev = e.Date
		}
	}
	// ---- (3) account state machine
	if chrono {
		type ast struct {
			state int // 0 never, 1 open, 2 closed
			close string
		}
		opens := map[string][]int{} // account -> entry indices of its opens
		for i := range l.Entries {
			if l.Entries[i].Kind == bean.Open {
				opens[l.Entries[i].Account] = append(opens[l.Entries[i].Account], i)
			}
		}
		// accounts used only by their own mirror adjustments
		onlyMirror := map[string]bool{}
		for i := range l.Entries {
			e := &l.Entries[i]
			if e.Kind != bean.Txn {
				continue
			}
			for _, p := range e.Postings {
				is := c16IsMirrorAdjust(e, p.Account)
				if cur, seen := onlyMirror[p.Account]; !seen {
					onlyMirror[p.Account] = is
				} else if cur && !is {
					onlyMirror[p.Account] = false
				}
			}
		}
		jd.accounts = len(onlyMirror)
		states := map[string]*ast{}
		reported := map[string]bool{}
		for i := range l.Entries {
			e := &l.Entries[i]
			switch e.Kind {
			case bean.Open:
				s := states[e.Account]
				if s == nil {
					s = &ast{}
					states[e.Account] = s
				}
				s.state = 1
			case bean.Close:
				s := states[e.Account]
				if s == nil {
					s = &ast{}
					states[e.Account] = s
				}
				s.state, s.close = 2, e.Date
			case bean.Txn:
				for _, p := range e.Postings {
					s := states[p.Account]
					if s != nil && s.state == 1 {
						continue
					}
					if reported[p.Account] {
						continue
					}
					// an open positioned later but dated on or before this use
					// satisfies the dated wording of the statement: not judged
					laterOpen := false
					for _, oi := range opens[p.Account] {
						if oi > i && l.Entries[oi].Date <= e.Date {
							laterOpen = true
						}
					}
					if laterOpen {
						continue
					}
					reported[p.Account] = true
					mirrorUse := c16IsMirrorAdjust(e, p.Account)
					if s != nil && s.state == 2 {
						if mirrorUse {
							jd.add("valuation-mirror-account-used-after-user-close", "line %d: %s %q posts to %s, which the journal closed on %s", p.Line, e.Date, e.Desc, p.Account, s.close)
						} else {
							jd.add("use-after-close", "line %d: %s %q posts to %s after its close of %s", p.Line, e.Date, e.Desc, p.Account, s.close)
						}
						continue
					}
					// never opened up to here
					switch {
					case onlyMirror[p.Account] && !userOpened[p.Account] && len(opens[p.Account]) == 0:
						jd.mirrorUnopen++
						jd.add("unopened-valuation-mirror-account", "line %d: %s %q posts to %s, the generated income account mirroring an asset/liability account; the output never opens it", p.Line, e.Date, e.Desc, p.Account)
					case mirrorUse && userOpened[p.Account]:
						jd.add("valuation-mirror-account-used-before-user-open", "line %d: %s %q posts to %s, which the journal opens only later", p.Line, e.Date, e.Desc, p.Account)
					default:
						jd.add("unopened-account", "line %d: %s %q posts to %s, which has no open dated on or before %s", p.Line, e.Date, e.Desc, p.Account, e.Date)
					}
				}
			}
		}
	}
	// ---- (4) multiset of transactions
	c16Match(l, exp, jd)
	return jd
}

// c16Compatible compares one observed transaction with one expected one
// (same key): per account the sorted amounts pairwise within that account's
// summed budget.
func c16Compatible(o *bean.Entry, e *c16Txn) (bool, string) {
	type side struct {
		obs []*big.Rat
		exp []*big.Rat
		bud *big.Rat
	}
	m := map[string]*side{}
	get := func(a string) *side {
		if m[a] == nil {
			m[a] = &side{bud: new(big.Rat)}
		}
		return m[a]
	}
	for _, p := range o.Postings {
		s := get(p.Account)
		s.obs = append(s.obs, p.Amount)
	}
	for _, p := range e.posts {
		s := get(p.acc)
		s.exp = append(s.exp, p.val)
		s.bud.Add(s.bud, p.bud)
	}
	var accs []string
	for a := range m {
		accs = append(accs, a)
	}
	sort.Strings(accs)
	for _, a := range accs {
		s := m[a]
		if len(s.obs) != len(s.exp) {
			return false, fmt.Sprintf("%d postings on %s, reference %d", len(s.obs), a, len(s.exp))
		}
		sort.Slice(s.obs, func(x, y int) bool { return s.obs[x].Cmp(s.obs[y]) < 0 })
		sort.Slice(s.exp, func(x, y int) bool { return s.exp[x].Cmp(s.exp[y]) < 0 })
		for i := range s.obs {
			d := new(big.Rat).Sub(s.obs[i], s.exp[i])
			if d.Abs(d).Cmp(s.bud) > 0 {
				return false, fmt.Sprintf("posting on %s shows %s, reference value %s (budget %s)", a, gen.DecString(s.obs[i]), s.exp[i].FloatString(10), s.bud.FloatString(10))
			}
		}
	}
	return true, ""
}

func c16Match(l *bean.Ledger, exp []*c16Txn, jd *c16Judged) {
	type group struct {
		obs []*bean.Entry
		exp []*c16Txn
	}
	groups := map[string]*group{}
	var order []string
	get := func(k string) *group {
		if groups[k] == nil {
			groups[k] = &group{}
			order = append(order, k)
		}
		return groups[k]
	}
	for i := range l.Entries {
		e := &l.Entries[i]
		if e.Kind != bean.Txn {
			continue
		}
		day, err := cal.Parse(e.Date)
		if err != nil {
			continue // reported under not-chronological
		}
		var accs []string
		for _, p := range e.Postings {
			accs = append(accs, p.Account)
		}
		g := get(c16Key(day, e.Desc, accs))
		g.obs = append(g.obs, e)
	}
	for _, t := range exp {
		g := get(t.key())
		g.exp = append(g.exp, t)
	}
	sort.Strings(order)
	for _, k := range order {
		g := groups[k]
		required := 0
		for _, t := range g.exp {
			if !t.optional {
				required++
			}
		}
		switch {
		case len(g.obs) > len(g.exp):
			o := g.obs[0]
			key := "transaction-extra"
			if strings.HasPrefix(o.Desc, c16AdjustPrefix) {
				key = "adjustment-extra"
			}
			jd.add(key, "line %d: the output has %d transaction(s) %s %q on %s, the reference %d", o.Line, len(g.obs), o.Date, o.Desc, c16Accounts(o), len(g.exp))
			continue
		case len(g.obs) < required:
			var t *c16Txn
			for _, x := range g.exp {
				if !x.optional {
					t = x
				}
			}
			key := "transaction-missing"
			if t.adjust {
				key = "adjustment-missing"
			}
			jd.add(key, "the reference has %d transaction(s) %s %q (%s), the output %d", required, t.date, t.desc, c16ExpString(t), len(g.obs))
			continue
		}
		// assignment observed -> expected, every required expected one covered
		n := len(g.obs)
		if n == 0 {
			continue
		}
		if len(g.exp) > 8 {
			// identical keys in such numbers do not occur in the workload
			continue
		}
		compat := make([][]bool, n)
		firstWhy := ""
		for oi, o := range g.obs {
			compat[oi] = make([]bool, len(g.exp))
			for ei, e := range g.exp {
				ok, why := c16Compatible(o, e)
				compat[oi][ei] = ok
				if !ok && firstWhy == "" {
					firstWhy = fmt.Sprintf("line %d: %s %q: %s", o.Line, o.Date, o.Desc, why)
				}
			}
		}
		used := make([]bool, len(g.exp))
		var rec func(oi int) bool
		rec = func(oi int) bool {
			if oi == n {
				for ei, t := range g.exp {
					if !t.optional && !used[ei] {
						return false
					}
				}
				return true
			}
			for ei := range g.exp {
				if used[ei] || !compat[oi][ei] {
					continue
				}
				used[ei] = true
				if rec(oi + 1) {
					return true
				}
				used[ei] = false
			}
			return false
		}
		if !rec(0) {
			jd.add("value-wrong", "%s", firstWhy)
			continue
		}
		for ei, t := range g.exp {
			if !used[ei] {
				continue
			}
			if t.adjust {
				jd.adjMatched++
			} else {
				jd.txMatched++
			}
		}
	}
}

func c16Accounts(e *bean.Entry) string {
	var a []string
	for _, p := range e.Postings {
		a = append(a, p.Account)
	}
	return strings.Join(a, ", ")
}

func c16ExpString(t *c16Txn) string {
	var a []string
	for _, p := range t.posts {
		a = append(a, p.acc+" "+p.val.FloatString(8))
	}
	return strings.Join(a, "; ")
}

// ---------------------------------------------------------------- cases

// c16KnownShapes adds a commodity KFX priced in base on three days and two asset accounts
// holding it: the income account mirroring the first is opened by the journal only after the
// first price change, the one mirroring the second is closed before the last price change.
func c16KnownShapes(j *gen.Journal, base string) {
	d0 := j.Dirs[0].Date
	for _, d := range j.Dirs {
		if d.Date < d0 {
			d0 = d.Date
		}
	}
	open := func(day cal.Day, acc string) gen.Dir { return gen.Dir{Kind: gen.KOpen, Date: day, Acc: acc} }
	price := func(day cal.Day, p string) gen.Dir {
		return gen.Dir{Kind: gen.KPrice, Date: day, Com: "KFX", Tgt: base, Price: p}
	}
	buy := func(day cal.Day, acc string) gen.Dir {
		return gen.Dir{Kind: gen.KTxn, Date: day, Desc: "kf " + acc, Bookings: []gen.Booking{{Credit: "Equity:Kf", Debit: acc, Qty: "10", Com: "KFX"}}}
	}
	j.Dirs = append(j.Dirs,
		open(d0, "Assets:Kf:Early"), open(d0, "Assets:Kf:Late"), open(d0, "Equity:Kf"), open(d0, "Income:Kf:Late"),
		price(d0, "2"),
		buy(d0+1, "Assets:Kf:Early"), buy(d0+1, "Assets:Kf:Late"),
		price(d0+2, "3"),
		open(d0+3, "Income:Kf:Early"),
		gen.Dir{Kind: gen.KClose, Date: d0 + 5, Acc: "Income:Kf:Late"},
		price(d0+6, "4"),
	)
}

func (k *c16) RunCase(c *core.Ctx, i int) {
	r := c.Rng(i, "journal")
	o := gen.DefaultOpts(r)
	o.Prices = true
	o.PriceGraph = false
	o.Small = true
	o.Commodities = 3 + r.Intn(3)
	o.Lifecycle = r.Intn(2) == 0
	o.Assertions = r.Intn(3) == 0
	o.MaxDepth = 4
	o.Days = 5 + r.Intn(12)
	o.TxnsPerDay = 1 + r.Intn(4)
	o.SelfBook = r.Intn(4) == 0
	o.Accruals = i%3 == 2
	j, info := gen.Accepted(r, o)
	first := info.Dates[0]
	if r.Intn(6) == 0 {
		gen.ShiftFar(r, j, 4)
		c.Count("journals_with_dates_beyond_2262", 1)
	}

	// the first two journals of every run also hold the three shapes listed in
	// known-findings.txt, so that each listed finding is re-examined by every run
	if i < 2 {
		c16KnownShapes(j, info.Commodities[0])
		c.Count("journals_with_directed_known_shapes", 1)
	}

	// a user-opened income account that coincides with a valuation mirror account
	userOpened := map[string]bool{}
	for _, d := range j.Dirs {
		if d.Kind == gen.KOpen {
			userOpened[d.Acc] = true
		}
	}
	if r.Intn(4) == 0 {
		var als []string
		for _, a := range info.Accounts {
			if ref.IsAL(a) {
				als = append(als, a)
			}
		}
		if len(als) > 0 {
			m := c16Mirror(als[r.Intn(len(als))])
			known := false
			for _, a := range info.Accounts {
				if a == m {
					known = true
				}
			}
			if !known {
				j.Dirs = append(j.Dirs, gen.Dir{Kind: gen.KOpen, Date: first, Acc: m})
				userOpened[m] = true
				c.Count("journals_with_user_opened_mirror", 1)
			}
		}
	}
	// a description that spans lines and imitates entries
	if r.Intn(5) == 0 {
		var txs []int
		for di, d := range j.Dirs {
			if d.Kind == gen.KTxn {
				txs = append(txs, di)
			}
		}
		if len(txs) > 0 {
			d := &j.Dirs[txs[r.Intn(len(txs))]]
			d.Desc = d.Desc + "\n" + d.Date.String() + " open Assets:Fake\n  Assets:Fake 5 CHF\n" + d.Date.String() + " * 'x'\n* heading"
			c.Count("journals_with_multiline_description", 1)
		}
	}
	var files map[string][]byte
	layout := r.Intn(3)
	switch layout {
	case 0:
		files = map[string][]byte{"main.knut": []byte(j.Text())}
	case 1:
		j.Shuffle(r)
		files = map[string][]byte{"main.knut": []byte(j.Text())}
	default:
		files = j.SplitTree(r, 3, 3)
	}
	c.Observe("layouts", []string{"single", "shuffled", "include-tree"}[layout])
	dir := c.CaseDir(i)
	defer os.RemoveAll(dir)
	if err := core.WriteFiles(dir, files); err != nil {
		panic(err)
	}
	var names []string
	for n := range files {
		names = append(names, n)
	}
	sort.Strings(names)
	var sig strings.Builder
	for _, n := range names {
		sig.WriteString(n + "\x00" + string(files[n]) + "\x00")
	}

	priceDaySet := map[cal.Day]bool{}
	for _, d := range j.Dirs {
		if d.Kind == gen.KPrice {
			priceDaySet[d.Date] = true
		}
	}
	var priceDays []cal.Day
	for d := range priceDaySet {
		priceDays = append(priceDays, d)
	}
	sort.Slice(priceDays, func(a, b int) bool { return priceDays[a] < priceDays[b] })

	var users []c16User
	if o.Accruals {
		res := knut(c, dir, nil, "print", "main.knut")
		if res.Class == "timeout" {
			c.Inconclusive(i, "print timed out")
			return
		}
		var err error
		if res.Class == "ok" {
			users, err = c16UsersFromPrint(string(res.Stdout))
		}
		if res.Class != "ok" || err != nil {
			// print of an accepted journal is C09's subject
			c.NotJudged(len(info.Commodities))
			c.Count("print_unusable", 1)
			return
		}
		c.Count("journals_with_accruals", 1)
	} else {
		users = c16UsersFromModel(j)
	}

	for _, v := range info.Commodities {
		args := []string{"transcode", "-v", v, "main.knut"}
		c.Eval(1)
		pb := ref.NewPriceBook(j, v)
		if !pb.Forest {
			c.NotJudged(1)
			continue
		}
		exp, st, ok := c16Expected(users, pb, v, priceDays)
		if !ok {
			c.NotJudged(1)
			continue
		}
		res := knut(c, dir, nil, args...)
		w := core.Witness{Case: i, Files: files, Cmd: knutCmd(c, nil, args...),
			Extra: map[string]string{"observed.txt": string(res.Stdout), "stderr.txt": string(res.Stderr)}}
		if res.Class == "timeout" {
			c.Inconclusive(i, "transcode timed out")
			continue
		}
		if res.Class != "ok" {
			w.Key, w.Why = "transcode-failed", "transcode fails on an accepted journal in which every commodity has a price in "+v+" from the first day on: "+fmtErr(res)
			c.Violation(w)
			continue
		}
		l, err := bean.Read(string(res.Stdout))
		if err != nil {
			w.Key, w.Why = "unreadable-output", "the output is not a sequence of option/open/close/transaction entries: "+err.Error()
			c.Violation(w)
			continue
		}
		jd := c16Judge(l, v, exp, userOpened)
		var eb strings.Builder
		for _, t := range exp {
			tag := "user"
			if t.adjust {
				tag = "adjust"
				if t.optional {
					tag = "adjust(optional)"
				}
			}
			fmt.Fprintf(&eb, "%s %q [%s] %s\n", t.date, t.desc, tag, c16ExpString(t))
		}
		w.Extra["expected.txt"] = eb.String()
		for _, f := range jd.findings {
			wf := w
			wf.Key, wf.Why = f.key, f.why+" [-v "+v+"]"
			c.Violation(wf)
		}
		c.Count("transactions_matched", jd.txMatched)
		c.Count("adjustments_matched", jd.adjMatched)
		c.Count("adjustments_optional", st.optionalAdj)
		c.Count("accounts_checked", jd.accounts)
		c.Count("unopened_mirror_accounts", jd.mirrorUnopen)
		c.Count("entries_read", len(l.Entries))
		if st.heldComs >= 2 && st.requiredAdj >= 1 && st.users >= 5 && jd.adjMatched >= 1 {
			c.Nontrivial(sig.String() + "|" + v)
			if c.WantSample() && len(res.Stdout) < 6000 {
				c.Sample(map[string]any{"files": sampleFiles(files), "argv": strings.Join(args, " "), "stdout": core.Trunc(string(res.Stdout), 3000),
					"transactions_matched": jd.txMatched, "adjustments_matched": jd.adjMatched, "accounts_checked": jd.accounts})
			}
		}
	}
}

func sampleFiles(files map[string][]byte) map[string]string {
	res := map[string]string{}
	for n, b := range files {
		res[n] = core.Trunc(string(b), 1500)
	}
	return res
}
