package checks

import (
	"bufio"
	"context"
	"crypto/sha256"
	"encoding/hex"
	"encoding/json"
	"errors"
	"fmt"
	"math/rand"
	"os"
	"path/filepath"
	"regexp"
	"runtime"
	"sort"
	"strings"
	"sync"
	"sync/atomic"
	"time"

	"github.com/anishathalye/porcupine"
	"github.com/sboehler/knut/lib/common/cpr"
	"github.com/sboehler/knut/lib/model/account"
	"github.com/sboehler/knut/lib/model/commodity"
	"github.com/sboehler/knut/lib/syntax"

	"kverif/cal"
	"kverif/core"
	"kverif/gen"
	"kverif/jr"
)

// C19 — concurrent loading and processing is race-free and terminates.
type c19 struct {
	nRace, nFault, nTrace, nHist int
}

func init() { register("C19", func() core.Check { return &c19{} }) }

func (*c19) Level() string { return "exploration" }
func (*c19) Rule() string {
	return "four monitors: (a) the race-instrumented knut binary over generated multi-file journals x a command set that instantiates every processor combination x schedule-perturbation seeds x GOMAXPROCS, oracle = zero 'WARNING: DATA RACE' blocks in the GORACE logs; (b) the same workload with planted stage failures (syntax error, missing include, bad date, bad account type, unopened account, missing price, two at once), oracle = no hang, non-zero exit, stderr names a planted fault, stdout empty for report commands; (c) `knut print` / `balance -v` under perturbation with the stage/day event log, oracle = printed directive census equals the model and the event log satisfies the hand-over spec (each stage sees each day once, days ascending, stage s exits day d before stage s+1 enters it); (d) in-process histories under -race: cpr.Seq with random stages/items/failures (result order, error identity, no goroutine left) and G goroutines hammering the account/commodity registries, checked with porcupine against the sequential interning model; non-trivial = race run with >=4 files, fault run that failed with the planted signature, trace with >=3 stages and >=5 days, history with >=2 concurrent operations on one name; distinct = hash of inputs + argv + env"
}

func (k *c19) Setup(c *core.Ctx) (int, error) {
	k.nRace = c.N(24, 400)
	k.nFault = c.N(120, 2500)
	k.nTrace = c.N(60, 1500)
	k.nHist = c.N(300, 20000)
	if _, err := os.Stat(c.KnutRace); err != nil {
		return 0, fmt.Errorf("race binary missing: %v", err)
	}
	c.Extra("harness_race_instrumented", raceEnabled)
	return k.nRace + k.nFault + k.nTrace + k.nHist, nil
}

func (k *c19) Finish(c *core.Ctx) {
	c.Assume("the race detector only sees accesses that overlap in a run; schedule perturbation (yield/sleep in cpr.Push/Pop) widens but does not enumerate interleavings")
	c.Assume("porcupine checker timeouts are inconclusive")
	// races inside the harness process itself (part d runs the real packages in-process under -race)
	if logp := os.Getenv("KV_SELF_RACE_LOG"); logp != "" {
		matches, _ := filepath.Glob(logp + ".*")
		blocks := 0
		var first string
		for _, m := range matches {
			b, _ := os.ReadFile(m)
			n := strings.Count(string(b), "WARNING: DATA RACE")
			blocks += n
			if n > 0 && first == "" {
				first = string(b)
			}
		}
		c.Extra("in_process_race_blocks", blocks)
		if blocks > 0 {
			c.Violation(core.Witness{Case: -1, Key: "race-in-process:" + raceKey(first), Why: fmt.Sprintf("the race detector reported %d data race(s) inside the in-process histories (cpr / registries)", blocks),
				Extra: map[string]string{"race.log": core.Trunc(first, 20000)}})
		}
	}
}

func (k *c19) RunCase(c *core.Ctx, i int) {
	if c.Counter("confirmed_hangs") >= 6 && i < k.nRace+k.nFault+k.nTrace {
		// the verdict is already "violated"; every further hang costs minutes of watchdog time
		c.NotJudged(1)
		c.Count("cases_skipped_after_repeated_hangs", 1)
		return
	}
	switch {
	case i < k.nRace:
		k.raceCase(c, i)
	case i < k.nRace+k.nFault:
		k.faultCase(c, i)
	case i < k.nRace+k.nFault+k.nTrace:
		k.traceCase(c, i)
	default:
		k.histCase(c, i)
	}
}

// ---------------------------------------------------------------- workload

type c19Journal struct {
	j     *gen.Journal
	info  *gen.Info
	files map[string][]byte
	v     string
	to    string
}

func c19Gen(r *rand.Rand, big bool) c19Journal {
	o := gen.DefaultOpts(r)
	o.Prices, o.Small, o.Lifecycle, o.Assertions, o.Perf = true, true, true, true, true
	o.Accruals = r.Intn(2) == 0
	o.Commodities = 2 + r.Intn(3)
	o.Days = 20 + r.Intn(60)
	if big {
		o.Days = 50 + r.Intn(150)
	}
	o.Hi = o.Lo + cal.Day(o.Days*3+60)
	o.TxnsPerDay = 3
	j, info := gen.Accepted(r, o)
	acr := 0
	for di := range j.Dirs {
		if j.Dirs[di].Kind == gen.KTxn && j.Dirs[di].Accrual != nil {
			j.Dirs[di].Desc = fmt.Sprintf("ACR%d %s", acr, j.Dirs[di].Desc)
			acr++
		}
	}
	j.Shuffle(r)
	files := j.SplitTree(r, 4, 6)
	return c19Journal{j: j, info: info, files: files,
		v:  info.Commodities[r.Intn(len(info.Commodities))],
		to: (info.Dates[len(info.Dates)-1] + 30).String()}
}

// wideTree spreads the journal over a root that includes `width` sibling
// files, each of which includes one leaf: many parsers run at once and every
// one of them spawns a further include while it is still running.
func wideTree(r *rand.Rand, j *gen.Journal, width int) map[string][]byte {
	files := map[string][]byte{}
	var root strings.Builder
	mids := make([]strings.Builder, width)
	leaves := make([]strings.Builder, width)
	for _, d := range j.Dirs {
		n := r.Intn(width)
		switch r.Intn(5) {
		case 0:
			root.WriteString(gen.RenderDir(d) + "\n")
		case 1, 2:
			mids[n].WriteString(gen.RenderDir(d) + "\n")
		default:
			leaves[n].WriteString(gen.RenderDir(d) + "\n")
		}
	}
	for n := 0; n < width; n++ {
		fmt.Fprintf(&root, "include \"w/mid%d.knut\"\n", n)
		// the include stands at the end of the mid file: its parser is still busy when it spawns the leaf
		fmt.Fprintf(&mids[n], "\ninclude \"leaf%d.knut\"\n", n)
		files[fmt.Sprintf("w/mid%d.knut", n)] = []byte(mids[n].String())
		files[fmt.Sprintf("w/leaf%d.knut", n)] = []byte(leaves[n].String())
	}
	files["main.knut"] = []byte(root.String())
	return files
}

type c19Cmd struct {
	key         string
	args        []string
	valued      bool
	stdoutEmpty bool
}

func c19Commands(w c19Journal) []c19Cmd {
	return []c19Cmd{
		{"balance", []string{"balance", "--to", w.to, "main.knut"}, false, true},
		{"balance-valued", []string{"balance", "--to", w.to, "-v", w.v, "--months", "main.knut"}, true, true},
		{"balance-valued-mapped", []string{"balance", "--to", w.to, "-v", w.v, "--close=false", "-m", "1:2", "-m", "2,Expenses", "--quarters", "--diff", "main.knut"}, true, true},
		{"balance-remap-filter", []string{"balance", "--to", w.to, "--remap", "Assets", "--account", "Assets|Expenses|Equity", "--commodity", ".", "-m", "2:1", "--weeks", "--last", "8", "main.knut"}, false, true},
		{"balance-valued-show", []string{"balance", "--to", w.to, "-v", w.v, "-s", ".", "-a", "--years", "--csv", "main.knut"}, true, true},
		{"print", []string{"print", "main.knut"}, false, true},
		{"check-write", []string{"check", "--write", "main.knut"}, false, true},
		{"check", []string{"check", "main.knut"}, false, false},
		{"transcode", []string{"transcode", "-v", w.v, "main.knut"}, true, true},
		{"weights", []string{"portfolio", "weights", "-v", w.v, "--to", w.to, "--months", "-m", "1", "main.knut"}, true, false},
		{"returns", []string{"portfolio", "returns", "-v", w.v, "--to", w.to, "--months", "main.knut"}, true, false},
		{"infer", []string{"infer", "-t", "main.knut", "target.knut"}, false, true},
		{"register", []string{"register", "--to", w.to, "main.knut"}, false, false},
		// the same filter predicate is evaluated by several pipeline stages at once
		{"returns-filtered", []string{"portfolio", "returns", "-v", w.v, "--to", w.to, "--weeks", "--account", "^Assets|^Liabilities", "--commodity", ".", "main.knut"}, true, false},
		{"weights-filtered", []string{"portfolio", "weights", "-v", w.v, "--to", w.to, "--quarters", "--account", "Assets", "--commodity", "[A-Z]", "-a", "--csv", "main.knut"}, true, false},
		{"register-filtered", []string{"register", "--to", w.to, "-v", w.v, "--source", "Assets|Expenses", "--dest", ".", "--commodity", ".", "-m", "2", "-c", "-d", "--months", "main.knut"}, true, false},
	}
}

func c19Env(r *rand.Rand) []string {
	env := []string{"GOMAXPROCS=" + []string{"2", "4", "16"}[r.Intn(3)]}
	if r.Intn(4) != 0 {
		env = append(env, fmt.Sprintf("KNUT_VERIF_SCHED=%d:%d:%d", r.Intn(1<<30), 100+r.Intn(500), 50+r.Intn(400)))
	}
	return env
}

// ---------------------------------------------------------------- (a) race detector

var raceFrameRe = regexp.MustCompile(`(?m)^\s+(github\.com/sboehler/knut/\S+)\(\)\s*$`)

// raceKey extracts the innermost knut function of each of the two stacks of the first report.
func raceKey(log string) string {
	idx := strings.Index(log, "WARNING: DATA RACE")
	if idx < 0 {
		return "none"
	}
	block := log[idx:]
	if end := strings.Index(block, "=================="); end > 0 {
		block = block[:end]
	}
	var firsts []string
	for _, part := range strings.Split(block, "\n\n") {
		head := strings.SplitN(part, "\n", 2)[0]
		if !(strings.Contains(head, " at 0x") && (strings.Contains(head, "rite") || strings.Contains(head, "ead"))) {
			continue
		}
		if m := raceFrameRe.FindStringSubmatch(part); m != nil {
			fn := m[1]
			fn = strings.TrimPrefix(fn, "github.com/sboehler/knut/")
			firsts = append(firsts, fn)
		}
	}
	sort.Strings(firsts)
	if len(firsts) == 0 {
		return "unknown-frames"
	}
	return strings.Join(firsts, "|")
}

func readRaceLogs(prefix string) (int, string) {
	matches, _ := filepath.Glob(prefix + ".*")
	blocks := 0
	var all strings.Builder
	for _, m := range matches {
		b, _ := os.ReadFile(m)
		blocks += strings.Count(string(b), "WARNING: DATA RACE")
		all.Write(b)
	}
	return blocks, all.String()
}

func (k *c19) raceCase(c *core.Ctx, i int) {
	r := c.Rng(i, "race")
	w := c19Gen(r, true)
	dir := c.CaseDir(i)
	defer os.RemoveAll(dir)
	core.WriteFiles(dir, w.files)
	writeFile(dir, "target.knut", c19Target(r, w.j))
	for _, cmd := range c19Commands(w) {
		if c.OverBudget() {
			c.NotJudged(1)
			return
		}
		for rep := 0; rep < 2; rep++ {
			env := c19Env(r)
			logPrefix := filepath.Join(dir, fmt.Sprintf("race-%s-%d", cmd.key, rep))
			env = append(env, "GORACE=halt_on_error=0 exitcode=0 log_path="+logPrefix)
			ex := core.Cmd{Argv: append([]string{c.KnutRace}, cmd.args...), Dir: dir, Env: env, Timeout: 60 * time.Second, Fsize: -1}
			res := execCounted(c, ex)
			c.Eval(1)
			c.Count("race_runs", 1)
			if res.Class == "timeout" {
				hangs := 1
				for n := 0; n < 2; n++ {
					if execCounted(c, ex).Class == "timeout" {
						hangs++
					}
				}
				if hangs < 3 {
					c.Inconclusive(i, "race run timed out: "+cmd.key)
					continue
				}
				c.Count("confirmed_hangs", 1)
				c.Violation(core.Witness{Case: i, Key: "hang:" + cmd.key, Why: fmt.Sprintf("`knut %s` (%s, -race build) does not terminate on an accepted multi-file journal (3 of 3 attempts exceeded 60 s)", strings.Join(cmd.args, " "), strings.Join(env[:len(env)-1], " ")),
					Files: w.files, Cmd: knutCmd(c, env[:len(env)-1], cmd.args...), Extra: map[string]string{"stderr.txt": core.Trunc(string(res.Stderr), 60000)}})
				return
			}
			blocks, log := readRaceLogs(logPrefix)
			if blocks > 0 {
				c.Count("race_blocks", blocks)
				c.Violation(core.Witness{Case: i, Key: "race:" + raceKey(log),
					Why:   fmt.Sprintf("the race detector reported %d data race(s) in `knut %s` (%s): %s", blocks, strings.Join(cmd.args, " "), strings.Join(env[:len(env)-1], " "), raceKey(log)),
					Files: w.files, Cmd: "GORACE=halt_on_error=0 " + knutCmd(c, env[:len(env)-1], cmd.args...) + "   # with the -race build",
					Extra: map[string]string{"race.log": core.Trunc(log, 30000)}})
				continue
			}
			if res.Class != "ok" && res.Class != "error" {
				c.Violation(core.Witness{Case: i, Key: "race-build-abnormal:" + cmd.key, Why: "race-instrumented run ended abnormally: " + fmtErr(res), Files: w.files, Cmd: knutCmd(c, env, cmd.args...)})
				continue
			}
			c.Observe("race_commands", cmd.key+":"+res.Class)
			if len(w.files) >= 4 {
				c.Nontrivial(fmt.Sprintf("race|%d|%s|%s", i, cmd.key, strings.Join(env, " ")))
			}
		}
	}
	c.Observe("files_per_journal", fmt.Sprint(len(w.files)))
}

func c19Target(r *rand.Rand, j *gen.Journal) string {
	var b strings.Builder
	n := 0
	for _, d := range j.Dirs {
		if d.Kind != gen.KTxn || d.Accrual != nil || n >= 8 {
			continue
		}
		t := d
		t.HasPerf = false
		t.Bookings = append([]gen.Booking{}, d.Bookings...)
		if r.Intn(2) == 0 {
			t.Bookings[0].Debit = "Expenses:TBD"
		}
		b.WriteString(gen.RenderDir(t) + "\n")
		n++
	}
	return b.String()
}

// ---------------------------------------------------------------- (b) planted stage failures

type c19Fault struct {
	kind      string
	signature string
}

func c19Plant(r *rand.Rand, w *c19Journal, n int) c19Fault {
	var names []string
	for name := range w.files {
		names = append(names, name)
	}
	sort.Strings(names)
	file := names[r.Intn(len(names))]
	add := func(text string) {
		// an empty line first: the file may end inside its last directive (no final newline)
		w.files[file] = append(append([]byte{}, w.files[file]...), []byte("\n\n"+text+"\n")...)
	}
	mid := w.info.Dates[len(w.info.Dates)/2]
	switch r.Intn(6) {
	case 0:
		sig := fmt.Sprintf("opne%d", n)
		add(mid.String() + " " + sig + " Assets:X")
		return c19Fault{"syntax", filepath.Base(file)}
	case 1:
		sig := fmt.Sprintf("nothere-%d.knut", n)
		add(`include "` + sig + `"`)
		return c19Fault{"missing-include", sig}
	case 2:
		add("2020-13-45 open Assets:Bad" + fmt.Sprint(n))
		return c19Fault{"bad-date", "2020-13-45"}
	case 3:
		sig := fmt.Sprintf("Foo%d", n)
		add(mid.String() + " open " + sig + ":Bar")
		return c19Fault{"bad-account-type", sig}
	case 4:
		sig := fmt.Sprintf("Unopened%d", n)
		add(mid.String() + " \"planted\"\nAssets:" + sig + " Expenses:Also" + sig + " 1 " + w.info.Commodities[0])
		return c19Fault{"unopened-account", sig}
	default:
		sig := fmt.Sprintf("NOPRICE%d", n)
		var perm []string
		for a := range w.info.Permanent {
			perm = append(perm, a)
		}
		sort.Strings(perm)
		add(mid.String() + " \"planted\"\n" + perm[0] + " " + perm[1] + " 3 " + sig)
		return c19Fault{"missing-price", sig}
	}
}

func (k *c19) faultCase(c *core.Ctx, i int) {
	r := c.Rng(i, "fault")
	w := c19Gen(r, false)
	nf := 1
	if r.Intn(4) == 0 {
		nf = 2
	}
	var faults []c19Fault
	for n := 0; n < nf; n++ {
		faults = append(faults, c19Plant(r, &w, i*10+n))
	}
	dir := c.CaseDir(i)
	defer os.RemoveAll(dir)
	core.WriteFiles(dir, w.files)
	writeFile(dir, "target.knut", c19Target(r, w.j))
	cmds := c19Commands(w)
	// a handful of commands per case
	r.Shuffle(len(cmds), func(a, b int) { cmds[a], cmds[b] = cmds[b], cmds[a] })
	for _, cmd := range cmds[:5] {
		if c.OverBudget() {
			c.NotJudged(1)
			return
		}

		// which faults can this command see?
		var visible []c19Fault
		for _, f := range faults {
			switch {
			case f.kind == "missing-price" && !cmd.valued:
			case cmd.key == "infer" && (f.kind == "bad-date" || f.kind == "bad-account-type" || f.kind == "unopened-account" || f.kind == "missing-price"):
				// infer works on the syntax tree only
			case cmd.key == "register" && (f.kind == "unopened-account" || f.kind == "missing-price"):
				// register does not run the check stage / valuation here
			default:
				visible = append(visible, f)
			}
		}
		if len(visible) == 0 {
			continue
		}
		bin := c.Knut
		env := c19Env(r)
		logPrefix := ""
		if r.Intn(5) == 0 {
			bin = c.KnutRace
			logPrefix = filepath.Join(dir, "race-"+cmd.key)
			env = append(env, "GORACE=halt_on_error=0 exitcode=0 log_path="+logPrefix)
		}
		ex := core.Cmd{Argv: append([]string{bin}, cmd.args...), Dir: dir, Env: env, Timeout: 30 * time.Second, Fsize: -1}
		res := execCounted(c, ex)
		c.Eval(1)
		fail := func(key, why string) {
			c.Violation(core.Witness{Case: i, Key: key + ":" + cmd.key + ":" + visible[0].kind, Why: fmt.Sprintf("planted %v; `knut %s` (%s): %s", faults, strings.Join(cmd.args, " "), strings.Join(env, " "), why),
				Files: w.files, Cmd: knutCmd(c, env, cmd.args...),
				Extra: map[string]string{"stderr.txt": core.Trunc(string(res.Stderr), 20000), "stdout.txt": core.Trunc(string(res.Stdout), 5000)}})
		}
		if res.Class == "timeout" {
			hangs := 1
			for n := 0; n < 2; n++ {
				if core.Exec(ex).Class == "timeout" {
					hangs++
				}
			}
			if hangs < 3 {
				c.Inconclusive(i, "watchdog fired once on "+cmd.key)
				continue
			}
			c.Count("confirmed_hangs", 1)
			fail("hang", "the command hangs after a stage failed (3 of 3 attempts exceeded 30 s)")
			return // the other commands of this case load the same journal
		}
		if logPrefix != "" {
			if blocks, log := readRaceLogs(logPrefix); blocks > 0 {
				c.Violation(core.Witness{Case: i, Key: "race:" + raceKey(log), Why: fmt.Sprintf("data race on the error path of `knut %s`: %s", strings.Join(cmd.args, " "), raceKey(log)),
					Files: w.files, Cmd: knutCmd(c, env, cmd.args...), Extra: map[string]string{"race.log": core.Trunc(log, 30000)}})
				continue
			}
		}
		switch {
		case res.Class == "ok":
			fail("stage-error-swallowed", "a stage must fail but the command reports success")
		case res.Class != "error":
			fail("abnormal", "abnormal termination: "+fmtErr(res))
		case cmd.stdoutEmpty && len(res.Stdout) > 0:
			fail("stdout-on-failure", "the command fails but has written to stdout")
		default:
			found := false
			for _, f := range visible {
				if strings.Contains(string(res.Stderr), f.signature) {
					found = true
				}
			}
			if !found {
				fail("foreign-error", "stderr names none of the planted faults: "+core.Trunc(string(res.Stderr), 300))
			} else {
				c.Nontrivial(fmt.Sprintf("fault|%d|%s", i, cmd.key))
				c.Observe("fault_kinds", cmd.key+":"+visible[0].kind)
			}
		}
	}
}

// ---------------------------------------------------------------- (c) census + trace spec

type traceEv struct {
	Ev    string `json:"ev"`
	Proc  int    `json:"proc"`
	Stage int    `json:"stage"`
	Day   string `json:"day"`
	Seq   int64  `json:"seq"`
	Err   bool   `json:"err"`
	N     int    `json:"n"`
	Path  string `json:"path"`
}

func readTrace(path string) ([]traceEv, error) {
	f, err := os.Open(path)
	if err != nil {
		return nil, err
	}
	defer f.Close()
	sc := bufio.NewScanner(f)
	sc.Buffer(make([]byte, 1<<20), 1<<27)
	var evs []traceEv
	for sc.Scan() {
		var e traceEv
		if err := json.Unmarshal(sc.Bytes(), &e); err != nil {
			return nil, fmt.Errorf("bad trace line: %v", err)
		}
		evs = append(evs, e)
	}
	sort.Slice(evs, func(a, b int) bool { return evs[a].Seq < evs[b].Seq })
	return evs, nil
}

// checkTraceSpec verifies the ownership hand-over specification on one run's log.
// It returns a violation sentence, the number of stages and days, and the schedule signature.
func checkTraceSpec(evs []traceEv) (why string, stages, days int, sig string) {
	type key struct{ proc, stage int }
	perStage := map[key][]traceEv{}
	procs := map[int]bool{}
	h := sha256.New()
	for _, e := range evs {
		if e.Ev != "enter" && e.Ev != "exit" {
			continue
		}
		procs[e.Proc] = true
		perStage[key{e.Proc, e.Stage}] = append(perStage[key{e.Proc, e.Stage}], e)
		fmt.Fprintf(h, "%d.%d.%s.%s;", e.Proc, e.Stage, e.Day, e.Ev)
	}
	sig = hex.EncodeToString(h.Sum(nil)[:8])
	exitSeq := map[string]int64{}  // proc|stage|day -> exit seq
	enterSeq := map[string]int64{} // proc|stage|day -> enter seq
	for k, list := range perStage {
		if k.stage+1 > stages {
			stages = k.stage + 1
		}
		prevDay := ""
		open := ""
		seen := map[string]bool{}
		for _, e := range list {
			id := fmt.Sprintf("%d|%d|%s", k.proc, k.stage, e.Day)
			switch e.Ev {
			case "enter":
				if open != "" {
					return fmt.Sprintf("stage %d enters day %s while it still owns day %s", k.stage, e.Day, open), stages, days, sig
				}
				if seen[e.Day] {
					return fmt.Sprintf("stage %d processes day %s twice", k.stage, e.Day), stages, days, sig
				}
				if prevDay != "" && e.Day <= prevDay {
					return fmt.Sprintf("stage %d processes day %s after day %s (days must ascend)", k.stage, e.Day, prevDay), stages, days, sig
				}
				seen[e.Day] = true
				prevDay = e.Day
				open = e.Day
				enterSeq[id] = e.Seq
			case "exit":
				if open != e.Day {
					return fmt.Sprintf("stage %d exits day %s which it did not enter last", k.stage, e.Day), stages, days, sig
				}
				open = ""
				exitSeq[id] = e.Seq
			}
		}
		if len(seen) > days {
			days = len(seen)
		}
	}
	// hand-over: stage s must exit day d before stage s+1 enters it; every day seen by s+1 was seen by s
	for id, en := range enterSeq {
		var proc, stage int
		var day string
		parts := strings.SplitN(id, "|", 3)
		fmt.Sscan(parts[0], &proc)
		fmt.Sscan(parts[1], &stage)
		day = parts[2]
		if stage == 0 {
			continue
		}
		prev := fmt.Sprintf("%d|%d|%s", proc, stage-1, day)
		ex, ok := exitSeq[prev]
		if !ok {
			return fmt.Sprintf("stage %d enters day %s which stage %d never released", stage, day, stage-1), stages, days, sig
		}
		if ex > en {
			return fmt.Sprintf("stage %d enters day %s (seq %d) before stage %d has released it (seq %d)", stage, day, en, stage-1, ex), stages, days, sig
		}
	}
	return "", stages, days, sig
}

func (k *c19) traceCase(c *core.Ctx, i int) {
	r := c.Rng(i, "trace")
	w := c19Gen(r, false)
	if i%3 == 0 {
		width := []int{8, 20, 33, 48, 64, 100, 300, 700}[r.Intn(8)]
		w.files = wideTree(r, w.j, width)
		c.Observe("wide_tree_widths", fmt.Sprint(width))
	}
	dir := c.CaseDir(i)
	defer os.RemoveAll(dir)
	core.WriteFiles(dir, w.files)
	cmds := [][]string{
		{"print", "main.knut"},
		{"balance", "--to", w.to, "-v", w.v, "--months", "-m", "2:1", "main.knut"},
		{"transcode", "-v", w.v, "main.knut"},
	}
	for ci, args := range cmds {
		if c.OverBudget() {
			c.NotJudged(1)
			return
		}
		env := c19Env(r)
		trace := filepath.Join(dir, fmt.Sprintf("trace%d.jsonl", ci))
		env = append(env, "KNUT_VERIF_TRACE="+trace)
		ex := core.Cmd{Argv: append([]string{c.Knut}, args...), Dir: dir, Env: env, Timeout: 40 * time.Second, Fsize: -1}
		res := execCounted(c, ex)
		c.Eval(1)
		fail := func(key, why string, extra map[string]string) {
			c.Violation(core.Witness{Case: i, Key: key, Why: fmt.Sprintf("`knut %s` (%s): %s", strings.Join(args, " "), strings.Join(env, " "), why), Files: w.files, Cmd: knutCmd(c, env, args...), Extra: extra})
		}
		if res.Class == "timeout" {
			hangs := 1
			for n := 0; n < 2; n++ {
				os.Remove(trace)
				if core.Exec(ex).Class == "timeout" {
					hangs++
				}
			}
			if hangs < 3 {
				c.Inconclusive(i, "trace run timed out once")
				continue
			}
			c.Count("confirmed_hangs", 1)
			fail("hang:"+args[0], fmt.Sprintf("the command does not terminate on an accepted journal spread over %d files (3 of 3 attempts exceeded 40 s); goroutine dump in stderr.txt", len(w.files)), map[string]string{"stderr.txt": core.Trunc(string(res.Stderr), 60000)})
			return
		}
		if res.Class != "ok" {
			fail("accepted-journal-fails:"+args[0], "the command fails on an accepted multi-file journal: "+fmtErr(res), nil)
			continue
		}
		evs, err := readTrace(trace)
		if err != nil {
			c.Inconclusive(i, "unreadable trace: "+err.Error())
			continue
		}
		c.Count("trace_events", len(evs))
		why, stages, days, sig := checkTraceSpec(evs)
		if why != "" {
			tb, _ := os.ReadFile(trace)
			fail("trace-spec:"+args[0], why, map[string]string{"trace.jsonl": core.Trunc(string(tb), 200000)})
			continue
		}
		c.Observe("schedule_signatures", sig)
		// arrival census: every file with directives arrives exactly once
		arrivals := map[string]int{}
		var order []string
		for _, e := range evs {
			if e.Ev == "arrival" {
				arrivals[filepath.Base(e.Path)]++
				order = append(order, filepath.Base(e.Path))
			}
		}
		c.Observe("arrival_orders", strings.Join(order, ">"))
		if args[0] == "print" {
			// directive census against the abstract model
			ds, err := jr.Read(string(res.Stdout))
			if err != nil {
				fail("print-unreadable", "the harness's reader cannot read the printed journal: "+err.Error(), map[string]string{"stdout.txt": string(res.Stdout)})
				continue
			}
			want, got := map[string]int{}, map[string]int{}
			for _, d := range w.j.Dirs {
				if d.Kind == gen.KTxn && d.Accrual != nil {
					continue
				}
				want[genToJr(d).Key()]++
			}
			for _, d := range ds {
				if d.Kind == "txn" && strings.HasPrefix(d.Desc, "ACR") {
					continue
				}
				got[d.Key()]++
			}
			bad := ""
			for kk, n := range want {
				if got[kk] != n {
					bad = fmt.Sprintf("directive %s: %d in the files, %d processed", kk, n, got[kk])
				}
			}
			for kk, n := range got {
				if want[kk] == 0 {
					bad = fmt.Sprintf("directive %s: not in the files, %d processed", kk, n)
				}
			}
			if bad != "" {
				fail("census", "the processed journal is not the union of the files' directives: "+bad, map[string]string{"stdout.txt": core.Trunc(string(res.Stdout), 100000)})
				continue
			}
			c.Count("census_directives", len(ds))
		}
		if stages >= 3 && days >= 5 {
			c.Nontrivial(fmt.Sprintf("trace|%d|%d|%s", i, ci, sig))
		}
		if c.WantSample() && ci == 1 {
			c.Sample(map[string]any{"argv": strings.Join(args, " "), "env": strings.Join(env[:len(env)-1], " "), "files": len(w.files), "stages": stages, "days": days, "events": len(evs), "schedule_signature": sig, "arrival_order": strings.Join(order, ">")})
		}
	}
}

// ---------------------------------------------------------------- (d) in-process histories

var c19Clock atomic.Int64

type regInput struct {
	Name string
	Op   string
}

var c19Model = porcupine.Model{
	Partition: func(history []porcupine.Operation) [][]porcupine.Operation {
		m := map[string][]porcupine.Operation{}
		var names []string
		for _, op := range history {
			n := op.Input.(regInput).Name
			if _, ok := m[n]; !ok {
				names = append(names, n)
			}
			m[n] = append(m[n], op)
		}
		var res [][]porcupine.Operation
		for _, n := range names {
			res = append(res, m[n])
		}
		return res
	},
	Init: func() interface{} { return uintptr(0) },
	Step: func(state, input, output interface{}) (bool, interface{}) {
		st := state.(uintptr)
		out := output.(uintptr)
		if out == 0 {
			return false, st // interning never returns nil for a valid name
		}
		if st == 0 {
			return true, out // first call mints the identity
		}
		return out == st, st
	},
	Equal: func(a, b interface{}) bool { return a.(uintptr) == b.(uintptr) },
	DescribeOperation: func(input, output interface{}) string {
		return fmt.Sprintf("%s(%s) -> %#x", input.(regInput).Op, input.(regInput).Name, output.(uintptr))
	},
}

func (k *c19) histCase(c *core.Ctx, i int) {
	r := c.Rng(i, "hist")
	switch i % 3 {
	case 0:
		k.seqHistory(c, i, r)
	case 1:
		k.accountHistory(c, i, r)
	default:
		k.commodityHistory(c, i, r)
	}
}

func (k *c19) accountHistory(c *core.Ctx, i int, r *rand.Rand) {
	reg := account.NewRegistry()
	names := []string{"Assets:A", "Assets:A:B", "Assets:A:B:C", "Liabilities:A", "Liabilities:A:B", "Income:X", "Expenses:X", "Expenses:X:Y", "Equity:E"}
	r.Shuffle(len(names), func(a, b int) { names[a], names[b] = names[b], names[a] })
	names = names[:2+r.Intn(4)]
	g := 2 + r.Intn(7)
	opsPer := 4 + r.Intn(20)
	type plan struct {
		op, name string
	}
	plans := make([][]plan, g)
	for gi := range plans {
		for n := 0; n < opsPer; n++ {
			plans[gi] = append(plans[gi], plan{[]string{"Get", "GetPath", "MustGet", "MustGetPath", "SwapType"}[r.Intn(5)], names[r.Intn(len(names))]})
		}
	}
	var mu sync.Mutex
	var hist []porcupine.Operation
	var wg sync.WaitGroup
	start := make(chan struct{})
	var panics atomic.Int64
	for gi := 0; gi < g; gi++ {
		wg.Add(1)
		go func(gi int) {
			defer wg.Done()
			defer func() {
				if rec := recover(); rec != nil {
					panics.Add(1)
				}
			}()
			<-start
			var local []porcupine.Operation
			for _, p := range plans[gi] {
				var acc *account.Account
				name := p.name
				call := c19Clock.Add(1)
				switch p.op {
				case "Get":
					acc, _ = reg.Get(name)
				case "GetPath":
					acc, _ = reg.GetPath(strings.Split(name, ":"))
				case "MustGet":
					acc = reg.MustGet(name)
				case "MustGetPath":
					acc = reg.MustGetPath(strings.Split(name, ":"))
				case "SwapType":
					base, _ := reg.Get(name)
					call = c19Clock.Add(1)
					acc = reg.SwapType(base)
					// the operation is on the swapped name
					if acc != nil {
						name = acc.Name()
					}
				}
				ret := c19Clock.Add(1)
				out := uintptr(0)
				if acc != nil {
					out = ptrID(acc)
					if acc.Name() != name {
						out = 0 // wrong account returned
					}
				}
				local = append(local, porcupine.Operation{ClientId: gi, Input: regInput{name, p.op}, Call: call, Output: out, Return: ret})
				if (gi+len(local))%3 == 0 {
					runtime.Gosched()
				}
			}
			mu.Lock()
			hist = append(hist, local...)
			mu.Unlock()
		}(gi)
	}
	close(start)
	wg.Wait()
	k.judgeHistory(c, i, "account-registry", hist, int(panics.Load()))
}

func (k *c19) commodityHistory(c *core.Ctx, i int, r *rand.Rand) {
	reg := commodity.NewCommodities()
	names := []string{"CHF", "USD", "EUR", "AAPL", "BTC", "X1"}
	r.Shuffle(len(names), func(a, b int) { names[a], names[b] = names[b], names[a] })
	names = names[:1+r.Intn(3)]
	g := 2 + r.Intn(10)
	opsPer := 3 + r.Intn(12)
	var mu sync.Mutex
	var hist []porcupine.Operation
	var wg sync.WaitGroup
	start := make(chan struct{})
	plans := make([][]string, g)
	ops := make([][]string, g)
	for gi := range plans {
		for n := 0; n < opsPer; n++ {
			plans[gi] = append(plans[gi], names[r.Intn(len(names))])
			ops[gi] = append(ops[gi], []string{"Get", "MustGet", "Create"}[r.Intn(3)])
		}
	}
	var panics atomic.Int64
	for gi := 0; gi < g; gi++ {
		wg.Add(1)
		go func(gi int) {
			defer wg.Done()
			defer func() {
				if rec := recover(); rec != nil {
					panics.Add(1)
				}
			}()
			<-start
			var local []porcupine.Operation
			for n, name := range plans[gi] {
				call := c19Clock.Add(1)
				var com *commodity.Commodity
				switch ops[gi][n] {
				case "Get":
					com, _ = reg.Get(name)
				case "MustGet":
					com = reg.MustGet(name)
				default:
					// the call the model builder makes for every commodity token
					com, _ = reg.Create(syntax.Commodity{Range: syntax.Range{Start: 0, End: len(name), Text: name}})
				}
				ret := c19Clock.Add(1)
				out := uintptr(0)
				if com != nil && com.Name() == name {
					out = ptrID(com)
				}
				local = append(local, porcupine.Operation{ClientId: gi, Input: regInput{name, ops[gi][n]}, Call: call, Output: out, Return: ret})
			}
			mu.Lock()
			hist = append(hist, local...)
			mu.Unlock()
		}(gi)
	}
	close(start)
	wg.Wait()
	k.judgeHistory(c, i, "commodity-registry", hist, int(panics.Load()))
}

func (k *c19) judgeHistory(c *core.Ctx, i int, what string, hist []porcupine.Operation, panics int) {
	c.Eval(1)
	c.Count("history_operations", len(hist))
	if panics > 0 {
		c.Violation(core.Witness{Case: i, Key: what + "-panic", Why: fmt.Sprintf("%d goroutine(s) panicked while using the %s concurrently", panics, what)})
		return
	}
	res, info := porcupine.CheckOperationsVerbose(c19Model, hist, 30*time.Second)
	switch res {
	case porcupine.Unknown:
		c.Inconclusive(i, "porcupine timed out on a "+what+" history")
		return
	case porcupine.Illegal:
		var b strings.Builder
		sort.Slice(hist, func(a, b int) bool { return hist[a].Call < hist[b].Call })
		for _, op := range hist {
			fmt.Fprintf(&b, "client %d [%d,%d] %s\n", op.ClientId, op.Call, op.Return, c19Model.DescribeOperation(op.Input, op.Output))
		}
		_ = info
		c.Violation(core.Witness{Case: i, Key: what + "-not-linearizable",
			Why:   "the recorded history of concurrent " + what + " calls is not linearizable against the sequential interning model (two different identities for one name, or a nil result)",
			Extra: map[string]string{"history.txt": b.String()}})
		return
	}
	// concurrency actually observed?
	overlap := 0
	byName := map[string][]porcupine.Operation{}
	for _, op := range hist {
		n := op.Input.(regInput).Name
		byName[n] = append(byName[n], op)
	}
	for _, ops := range byName {
		for a := 0; a < len(ops); a++ {
			for b := a + 1; b < len(ops); b++ {
				if ops[a].ClientId != ops[b].ClientId && ops[a].Call <= ops[b].Return && ops[b].Call <= ops[a].Return {
					overlap++
				}
			}
		}
	}
	c.Count("overlapping_operation_pairs", overlap)
	if overlap >= 1 {
		var sig strings.Builder
		sort.Slice(hist, func(a, b int) bool { return hist[a].Call < hist[b].Call })
		for _, op := range hist {
			fmt.Fprintf(&sig, "%d:%s;", op.ClientId, op.Input.(regInput).Name)
		}
		c.Nontrivial(fmt.Sprintf("hist|%s|%s", what, sig.String()))
		if c.WantSample() && i%50 == 1 {
			var lines []string
			for n, op := range hist {
				if n >= 12 {
					break
				}
				lines = append(lines, fmt.Sprintf("client %d [%d,%d] %s", op.ClientId, op.Call, op.Return, c19Model.DescribeOperation(op.Input, op.Output)))
			}
			c.Sample(map[string]any{"history_of": what, "operations": len(hist), "overlapping_pairs": overlap, "first_operations": lines})
		}
	}
}

var errPlanted = errors.New("planted stage failure")

// seqHistory drives cpr.Seq with random stages, items and failures.
func (k *c19) seqHistory(c *core.Ctx, i int, r *rand.Rand) {
	nItems := r.Intn(40)
	nStages := r.Intn(7)
	failStage, failItem := -1, -1
	if nStages > 0 && nItems > 0 && r.Intn(2) == 0 {
		failStage, failItem = r.Intn(nStages), r.Intn(nItems)
	}
	type item struct {
		id    int
		trail []int
	}
	items := make([]*item, nItems)
	for n := range items {
		items[n] = &item{id: n}
	}
	var order [][2]int // (stage, item) in execution order, per stage monotone
	var mu sync.Mutex
	var fs []func(*item) error
	for s := 0; s < nStages; s++ {
		s := s
		fs = append(fs, func(it *item) error {
			if s == failStage && it.id == failItem {
				return fmt.Errorf("stage %d item %d: %w", s, it.id, errPlanted)
			}
			it.trail = append(it.trail, s) // owned by this stage right now: a shared write here is a race the detector sees
			mu.Lock()
			order = append(order, [2]int{s, it.id})
			mu.Unlock()
			if (s+it.id)%5 == 0 {
				runtime.Gosched()
			}
			return nil
		})
	}
	before := runtime.NumGoroutine()
	done := make(chan struct{})
	var res []*item
	var err error
	var pan any
	go func() {
		defer close(done)
		pan = guard(func() { res, err = cpr.Seq(context.Background(), items, fs...) })
	}()
	select {
	case <-done:
	case <-time.After(60 * time.Second):
		c.Eval(1)
		c.Violation(core.Witness{Case: i, Key: "seq-hang", Why: fmt.Sprintf("cpr.Seq with %d items, %d stages, failing stage %d did not return within 60 s", nItems, nStages, failStage)})
		return
	}
	c.Eval(1)
	desc := fmt.Sprintf("cpr.Seq items=%d stages=%d fail=(stage %d, item %d)", nItems, nStages, failStage, failItem)
	fail := func(key, why string) {
		c.Violation(core.Witness{Case: i, Key: key, Why: desc + ": " + why})
	}
	if pan != nil {
		fail("seq-panic", fmt.Sprint(pan))
		return
	}
	if failStage >= 0 {
		if err == nil {
			fail("seq-error-swallowed", "a stage failed but Seq returned no error")
			return
		}
		if !errors.Is(err, errPlanted) {
			fail("seq-foreign-error", "Seq returned "+err.Error()+" instead of the failing stage's error")
			return
		}
	} else {
		if err != nil {
			fail("seq-spurious-error", "Seq returned "+err.Error())
			return
		}
		if len(res) != nItems {
			fail("seq-lost-or-duplicated", fmt.Sprintf("%d items in, %d out", nItems, len(res)))
			return
		}
		for n, it := range res {
			if it.id != n {
				fail("seq-order", fmt.Sprintf("position %d holds item %d", n, it.id))
				return
			}
			if len(it.trail) != nStages {
				fail("seq-stage-skipped", fmt.Sprintf("item %d passed %d of %d stages", n, len(it.trail), nStages))
				return
			}
			for s, t := range it.trail {
				if s != t {
					fail("seq-stage-order", fmt.Sprintf("item %d passed stages in order %v", n, it.trail))
					return
				}
			}
		}
	}
	// per stage, items ascend
	last := map[int]int{}
	mu.Lock()
	for _, o := range order {
		if l, ok := last[o[0]]; ok && o[1] <= l {
			mu.Unlock()
			fail("seq-stage-item-order", fmt.Sprintf("stage %d saw item %d after item %d", o[0], o[1], l))
			return
		}
		last[o[0]] = o[1]
	}
	mu.Unlock()
	// no goroutine left behind (allow the runtime a moment)
	settled := false
	for n := 0; n < 200; n++ {
		if runtime.NumGoroutine() <= before+1 {
			settled = true
			break
		}
		time.Sleep(5 * time.Millisecond)
	}
	if !settled {
		// other cases run concurrently in this process and start goroutines of their own;
		// a leak can therefore only be counted, not attributed
		c.Count("seq_goroutine_count_not_settled", 1)
	}
	if nItems >= 2 && nStages >= 2 {
		c.Nontrivial(desc)
	}
}

func sha8(s string) string {
	h := sha256.Sum256([]byte(s))
	return hex.EncodeToString(h[:8])
}
