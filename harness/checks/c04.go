package checks

import (
	"fmt"
	"math/big"
	"math/rand"
	"os"
	"strings"

	"kverif/cal"
	"kverif/core"
	"kverif/gen"
	"kverif/ref"
)

// C04 — check accepts exactly the well-formed journals.
type c04 struct {
	nRandom   int
	alphabet  []gen.Dir
	multisets [][]int
}

func init() { register("C04", func() core.Check { return &c04{} }) }

func (*c04) Level() string { return "exploration" }
func (*c04) Rule() string {
	return "two families: (a) generated valid-by-construction journals (same-day open/use/assert/close, re-open, multi-commodity, multi-line assertions, assertions of 0 on fresh positions) and single-fault mutants of them (dropped/duplicated open, booking or assertion outside the open interval, close with a position, close of an unopened account, assertion off by 1e-8 or on another commodity); (b) multisets of <=5 directives over a 24-symbol alphabet (thorough: all 118755, quick: a sample), each in random file order; oracle = exit status of `knut check` (and of print, balance) equals the verdict of the independent lifecycle automaton, and for single-fault mutants the diagnostic names date and account of the automaton's first offending directive; non-trivial = journal with >=4 directives of >=3 kinds; distinct = hash of the journal text"
}

func (k *c04) Setup(c *core.Ctx) (int, error) {
	k.nRandom = c.N(1200, 12000)
	// alphabet for the bounded-exhaustive part
	days := []cal.Day{cal.FromYMD(2020, 1, 1), cal.FromYMD(2020, 1, 2)}
	accs := []string{"Assets:A", "Liabilities:B"}
	for _, d := range days {
		for _, a := range accs {
			k.alphabet = append(k.alphabet,
				gen.Dir{Kind: gen.KOpen, Date: d, Acc: a},
				gen.Dir{Kind: gen.KClose, Date: d, Acc: a},
				gen.Dir{Kind: gen.KAssert, Date: d, Bals: []gen.Bal{{Acc: a, Qty: "0", Com: "X"}}},
				gen.Dir{Kind: gen.KAssert, Date: d, Bals: []gen.Bal{{Acc: a, Qty: "1", Com: "X"}}},
				gen.Dir{Kind: gen.KAssert, Date: d, Bals: []gen.Bal{{Acc: a, Qty: "-1", Com: "X"}}},
			)
		}
		k.alphabet = append(k.alphabet,
			gen.Dir{Kind: gen.KTxn, Date: d, Desc: "ab", Bookings: []gen.Booking{{Credit: accs[0], Debit: accs[1], Qty: "1", Com: "X"}}},
			gen.Dir{Kind: gen.KTxn, Date: d, Desc: "ba", Bookings: []gen.Booking{{Credit: accs[1], Debit: accs[0], Qty: "1", Com: "X"}}},
		)
	}
	// all multisets of size 0..5 (non-decreasing index sequences)
	var rec func(start int, cur []int)
	rec = func(start int, cur []int) {
		k.multisets = append(k.multisets, append([]int{}, cur...))
		if len(cur) == 5 {
			return
		}
		for s := start; s < len(k.alphabet); s++ {
			rec(s, append(cur, s))
		}
	}
	rec(0, nil)
	if c.Quick() {
		r := c.Rng(-1, "multisets")
		r.Shuffle(len(k.multisets), func(a, b int) { k.multisets[a], k.multisets[b] = k.multisets[b], k.multisets[a] })
		k.multisets = k.multisets[:6000]
	} else {
		c.Extra("exhaustive_multisets", len(k.multisets))
	}
	c.Extra("alphabet_size", len(k.alphabet))
	// multisets are grouped 50 per case to amortise per-case overhead
	return k.nRandom + (len(k.multisets)+49)/50, nil
}

func (*c04) Finish(c *core.Ctx) {
	c.Assume("assertions are generated on asset/liability accounts only (the statement constrains only those); journals contain no accruals (their legs' lifecycle is C10/C09 territory)")
}

func (k *c04) RunCase(c *core.Ctx, i int) {
	dir := c.CaseDir(i)
	defer os.RemoveAll(dir)
	if i >= k.nRandom {
		base := (i - k.nRandom) * 50
		r := c.Rng(i, "order")
		for n := base; n < base+50 && n < len(k.multisets); n++ {
			j := &gen.Journal{}
			for _, s := range k.multisets[n] {
				j.Dirs = append(j.Dirs, k.alphabet[s])
			}
			j.Shuffle(r)
			if !k.judge(c, i, dir, j, -1, "enum") {
				return
			}
		}
		return
	}
	r := c.Rng(i, "journal")
	o := gen.DefaultOpts(r)
	o.Lifecycle = true
	o.Assertions = true
	o.AssertFresh = true
	o.Days = 3 + r.Intn(8)
	o.SelfBook = r.Intn(4) == 0
	o.Prices = r.Intn(4) == 0
	j, _ := gen.Accepted(r, o)
	if r.Intn(8) == 0 {
		gen.ShiftFar(r, j, 4)
	}
	if r.Intn(2) == 0 {
		j.Shuffle(r)
	}
	if !k.judge(c, i, dir, j, -1, "valid") {
		return
	}
	// the same journal spread over an include tree, loaded under a perturbed
	// schedule: the verdict must still be the automaton's
	if i%2 == 0 {
		if !k.judgeTree(c, i, dir, j, r) {
			return
		}
	}
	// single-fault mutants
	for m := 0; m < 4; m++ {
		mj, kind := mutateLifecycle(r, j)
		if mj == nil {
			continue
		}
		if !k.judge(c, i, dir, mj, 1, kind) {
			return
		}
	}
}

// judge runs knut on j and compares with the automaton. faults: -1 unknown, 1 single planted fault.
func (k *c04) judge(c *core.Ctx, i int, dir string, j *gen.Journal, faults int, kind string) bool {
	text := j.Text()
	v := ref.Lifecycle(j)
	writeFile(dir, "j.knut", text)
	res := knut(c, dir, nil, "check", "j.knut")
	c.Eval(1)
	c.Observe("family", kind)
	fail := func(key, why string) bool {
		c.Violation(core.Witness{Case: i, Key: key, Why: why,
			Files: map[string][]byte{"j.knut": []byte(text)}, Cmd: "knut check j.knut",
			Extra: map[string]string{"stderr.txt": string(res.Stderr), "reference.txt": fmt.Sprintf("%+v", v)}})
		return false
	}
	if res.Class != "ok" && res.Class != "error" {
		return fail("abnormal-exit", "check ended abnormally: "+fmtErr(res))
	}
	if v.OK && res.Class != "ok" {
		key := "rejects-valid"
		if strings.Contains(string(res.Stderr), "failed assertion") && strings.Contains(string(res.Stderr), "has position: 0 ") {
			key = "rejects-zero-assertion-on-fresh-position"
		}
		return fail(key, "the journal is well-formed by the lifecycle rules but check rejects it: "+fmtErr(res))
	}
	if !v.OK && res.Class == "ok" {
		return fail("accepts-invalid", fmt.Sprintf("check accepts a journal that violates the lifecycle rules: directive %d (%s %s): %s",
			v.Culprit, j.Dirs[v.Culprit].Date, j.Dirs[v.Culprit].Kind, v.Reason))
	}
	if !v.OK {
		c.Count("rejected", 1)
		if len(res.Stderr) == 0 {
			return fail("no-diagnostic", "check exits non-zero without a diagnostic")
		}
		if len(res.Stdout) != 0 {
			return fail("stdout-on-failure", "check prints to stdout although it fails")
		}
		if faults == 1 {
			d := j.Dirs[v.Culprit]
			se := string(res.Stderr)
			if !strings.Contains(se, d.Date.String()) {
				return fail("diagnostic-date", fmt.Sprintf("diagnostic does not name the date %s of the offending %s directive: %q", d.Date, d.Kind, core.Trunc(se, 300)))
			}
			acc := culpritAccount(d, v.Reason)
			if acc != "" && !strings.Contains(se, acc) {
				return fail("diagnostic-account", fmt.Sprintf("diagnostic does not name the account %s of the offending %s directive: %q", acc, d.Kind, core.Trunc(se, 300)))
			}
			c.Count("diagnostics_checked", 1)
		}
	} else {
		c.Count("accepted", 1)
	}
	// the report commands must agree with check
	if kind != "enum" || i%7 == 0 {
		// (`check --write` additionally prints a set of assertions; its verdict is check's)
		for _, args := range [][]string{{"print", "j.knut"}, {"balance", "--to", "2030-01-01", "j.knut"}, {"check", "--write", "j.knut"}} {
			// balance of a journal without transactions is a separate matter (C14)
			if args[0] == "balance" && !hasTxn(j) {
				continue
			}
			r2 := knut(c, dir, nil, args...)
			c.Eval(1)
			if (r2.Class == "ok") != v.OK {
				key := args[0] + "-disagrees-with-check"
				if args[0] == "check" {
					key = "check-write-disagrees-with-check"
				}
				c.Violation(core.Witness{Case: i, Key: key,
					Why:   fmt.Sprintf("%s exits with class %s although the journal's verdict is ok=%v: %s", args[0], r2.Class, v.OK, fmtErr(r2)),
					Files: map[string][]byte{"j.knut": []byte(text)}, Cmd: knutCmd(c, nil, args...)})
				return false
			}
		}
	}
	kinds := map[gen.Kind]bool{}
	for _, d := range j.Dirs {
		kinds[d.Kind] = true
	}
	if len(j.Dirs) >= 4 && len(kinds) >= 3 {
		c.Nontrivial(text)
		if c.WantSample() && kind != "valid" {
			c.Sample(map[string]any{"family": kind, "journal": sampleJournal(text), "reference_verdict": fmt.Sprintf("%+v", v), "exit": res.Exit, "stderr": core.Trunc(string(res.Stderr), 300)})
		}
	}
	return true
}

// judgeTree runs check on an include-tree rendering of j several times.
func (k *c04) judgeTree(c *core.Ctx, i int, dir string, j *gen.Journal, r *rand.Rand) bool {
	v := ref.Lifecycle(j)
	tj := j.Clone()
	tj.Shuffle(r)
	files := tj.SplitTree(r, 3, 5)
	if r.Intn(4) == 0 {
		files = tj.SplitWide(r)
	}
	tdir := dir + "/tree"
	core.WriteFiles(tdir, files)
	defer os.RemoveAll(tdir)
	for n := 0; n < 4; n++ {
		env := []string{"GOMAXPROCS=" + []string{"2", "1", "16", "4"}[n], fmt.Sprintf("KNUT_VERIF_SCHED=%d:300:200", r.Intn(1<<30))}
		res := knut(c, tdir, env, "check", "main.knut")
		c.Eval(1)
		c.Observe("family", "valid-tree")
		if res.Class == "timeout" {
			// no verdict is not the verdict the rules give: a hang counts when it reproduces
			hangs := 1
			for m := 0; m < 2; m++ {
				if knut(c, tdir, env, "check", "main.knut").Class == "timeout" {
					hangs++
				}
			}
			if hangs < 3 {
				c.Inconclusive(i, fmt.Sprintf("check of an include tree timed out %d of 3 times", hangs))
				continue
			}
			c.Violation(core.Witness{Case: i, Key: "tree-no-verdict", Why: fmt.Sprintf("the journal is well-formed=%v by the lifecycle rules, but spread over %d included files check does not terminate (3 of 3 attempts, %s)", v.OK, len(files), strings.Join(env, " ")),
				Files: files, Cmd: knutCmd(c, env, "check", "main.knut")})
			return false
		}
		if (res.Class == "ok") != v.OK {
			c.Violation(core.Witness{Case: i, Key: "tree-verdict-differs", Why: fmt.Sprintf("the journal is well-formed=%v by the lifecycle rules, but spread over %d included files check ends with class %s (%s): %s", v.OK, len(files), res.Class, strings.Join(env, " "), core.Trunc(string(res.Stderr), 300)),
				Files: files, Cmd: knutCmd(c, env, "check", "main.knut")})
			return false
		}
	}
	return true
}

func hasTxn(j *gen.Journal) bool {
	for _, d := range j.Dirs {
		if d.Kind == gen.KTxn {
			return true
		}
	}
	return false
}

func culpritAccount(d gen.Dir, reason string) string {
	switch d.Kind {
	case gen.KOpen, gen.KClose:
		return d.Acc
	case gen.KAssert:
		if len(d.Bals) == 1 {
			return d.Bals[0].Acc
		}
	case gen.KTxn:
		for _, b := range d.Bookings {
			if strings.Contains(reason, b.Credit) {
				return b.Credit
			}
			if strings.Contains(reason, b.Debit) {
				return b.Debit
			}
		}
	}
	return ""
}

// mutateLifecycle plants one fault. It may return nil when the drawn mutation
// does not apply.
func mutateLifecycle(r *rand.Rand, j *gen.Journal) (*gen.Journal, string) {
	m := j.Clone()
	idxOf := func(k gen.Kind) []int {
		var res []int
		for i, d := range m.Dirs {
			if d.Kind == k {
				res = append(res, i)
			}
		}
		return res
	}
	remove := func(i int) { m.Dirs = append(m.Dirs[:i:i], m.Dirs[i+1:]...) }
	switch r.Intn(10) {
	case 9: // close with two positions in different commodities that cancel numerically
		var xs []int
		for i, d := range m.Dirs {
			if d.Kind == gen.KTxn && strings.HasPrefix(d.Desc, "zero out") && len(d.Bookings) > 0 {
				xs = append(xs, i)
			}
		}
		if len(xs) == 0 {
			return nil, ""
		}
		z := m.Dirs[xs[r.Intn(len(xs))]]
		acc, eq := z.Bookings[0].Credit, z.Bookings[0].Debit
		q := fmt.Sprint(1 + r.Intn(500))
		m.Dirs = append(m.Dirs, gen.Dir{Kind: gen.KTxn, Date: z.Date, Desc: "offsetting", Bookings: []gen.Booking{
			{Credit: eq, Debit: acc, Qty: q, Com: "OFFA"}, {Credit: acc, Debit: eq, Qty: q, Com: "OFFB"}}})
		return m, "close-offsetting-positions"
	case 0: // drop an open
		xs := idxOf(gen.KOpen)
		if len(xs) == 0 {
			return nil, ""
		}
		remove(xs[r.Intn(len(xs))])
		return m, "drop-open"
	case 1: // duplicate an open
		xs := idxOf(gen.KOpen)
		if len(xs) == 0 {
			return nil, ""
		}
		d := m.Dirs[xs[r.Intn(len(xs))]]
		d.Date += cal.Day(r.Intn(3))
		m.Dirs = append(m.Dirs, d)
		return m, "dup-open"
	case 2: // move a transaction far before all opens
		xs := idxOf(gen.KTxn)
		if len(xs) == 0 {
			return nil, ""
		}
		m.Dirs[xs[r.Intn(len(xs))]].Date = cal.FromYMD(2001, 1, 1+r.Intn(20))
		return m, "txn-before-open"
	case 3: // booking after close
		xs := idxOf(gen.KClose)
		if len(xs) == 0 {
			return nil, ""
		}
		cl := m.Dirs[xs[r.Intn(len(xs))]]
		ts := idxOf(gen.KTxn)
		if len(ts) == 0 {
			return nil, ""
		}
		t := m.Dirs[ts[r.Intn(len(ts))]]
		other := t.Bookings[0].Debit
		m.Dirs = append(m.Dirs, gen.Dir{Kind: gen.KTxn, Date: cl.Date + 1, Desc: "late", Bookings: []gen.Booking{{Credit: cl.Acc, Debit: other, Qty: "1", Com: t.Bookings[0].Com}}})
		return m, "booking-after-close"
	case 4: // assertion off by 1e-8
		xs := idxOf(gen.KAssert)
		if len(xs) == 0 {
			return nil, ""
		}
		i := xs[r.Intn(len(xs))]
		d := m.Dirs[i]
		bals := append([]gen.Bal{}, d.Bals...)
		bi := r.Intn(len(bals))
		q := gen.Rat(bals[bi].Qty)
		delta := big.NewRat(1, 100000000)
		if r.Intn(2) == 0 {
			delta.Neg(delta)
		}
		bals[bi].Qty = gen.DecString(q.Add(q, delta))
		d.Bals = bals
		m.Dirs[i] = d
		return m, "assertion-off"
	case 5: // assertion on another commodity
		xs := idxOf(gen.KAssert)
		if len(xs) == 0 {
			return nil, ""
		}
		i := xs[r.Intn(len(xs))]
		d := m.Dirs[i]
		bals := append([]gen.Bal{}, d.Bals...)
		bi := r.Intn(len(bals))
		bals[bi].Com = "ZZZ"
		d.Bals = bals
		m.Dirs[i] = d
		return m, "assertion-commodity"
	case 6: // close of an account that was never opened
		m.Dirs = append(m.Dirs, gen.Dir{Kind: gen.KClose, Date: m.Dirs[r.Intn(len(m.Dirs))].Date, Acc: "Assets:Never:Opened"})
		return m, "close-unopened"
	case 7: // close with a non-zero position: remove a zeroing transaction
		var xs []int
		for i, d := range m.Dirs {
			if d.Kind == gen.KTxn && strings.HasPrefix(d.Desc, "zero out") {
				xs = append(xs, i)
			}
		}
		if len(xs) == 0 {
			return nil, ""
		}
		remove(xs[r.Intn(len(xs))])
		return m, "close-nonzero"
	default: // assertion on an account before it is opened / after it is closed
		xs := idxOf(gen.KAssert)
		if len(xs) == 0 {
			return nil, ""
		}
		i := xs[r.Intn(len(xs))]
		m.Dirs[i].Date = cal.FromYMD(2001, 2, 1+r.Intn(20))
		return m, "assertion-before-open"
	}
}
