package checks

import (
	"fmt"
	"math"
	"math/big"
	"math/rand"
	"os"
	"regexp"
	"sort"
	"strconv"
	"strings"

	"kverif/cal"
	"kverif/core"
	"kverif/gen"
	"kverif/ref"
	"kverif/tab"
)

// C20 — portfolio analytics agree with the valued balance.
type c20 struct{}

func init() { register("C20", func() core.Check { return &c20{} }) }

func (*c20) Level() string { return "exploration" }
func (*c20) Rule() string {
	return "case = generated portfolio journal (deposits/withdrawals against non-A/L accounts, trades between portfolio accounts, price moves, liabilities, several flows per day, portfolios that start empty or are sold off completely on some day, annotated and accrued dividends, period ends on days without any directive) x valuation commodity x window/interval/--last x account/commodity filters x universe files x -m mappings; weights oracle = each commodity's weight equals its share of the A/L totals that `knut balance -v V --csv -s . --close=false` reports for that date (2e-6), group rows equal the sum of their members, top level sums to 1, the row tree is the universe's classification; returns oracle = exactly one line per reference-calendar period labelled with the period end, 0.0% for periods with constant prices and only external flows, V_end/V_start-1 (to the printed 0.1%) for periods without external flows - bookings annotated @performance(targets) count as performance, not as flows, also when @accrue spreads them over months (own expansion: equal parts at the period ends of the accrual window, total a multiple of the part); periods holding an annotation with an empty target list are not judged; non-trivial = weights report with >=2 commodities and >=2 dates, returns report with >=3 periods of which >=1 has no directive on its end date; distinct = hash of journal + argv"
}

func (k *c20) Setup(c *core.Ctx) (int, error) { return c.N(2000, 40000), nil }

func (*c20) Finish(c *core.Ctx) {
	c.Assume("returns are judged only in the two families the statement pins down (no flows; constant prices with external flows only); dates on which the portfolio total is within 1e-6 of zero are not judged for weights")
}

type c20Journal struct {
	j     *gen.Journal
	ref   *gen.Journal // the same journal with its accrued transactions written out (reference side)
	text  string
	coms  []string
	dates []cal.Day
	v     string
}

// c20Gen builds a portfolio journal: a few A/L accounts, external accounts,
// deposits first, then trades, withdrawals and price moves on separate days.
func c20Gen(r *rand.Rand, constantPrices bool) c20Journal {
	lo := cal.FromYMD(2020, 1, 1) + cal.Day(r.Intn(60))
	ndays := 6 + r.Intn(14)
	dates := gen.DatePool(r, lo, lo+cal.Day(120+r.Intn(300)), ndays)
	v := "CHF"
	coms := []string{"CHF", "USD", "AAPL", "BTC", "VT"}[:2+r.Intn(4)]
	al := []string{"Assets:Bank", "Assets:Broker:Depot", "Assets:Broker:Cash", "Liabilities:Card"}[:2+r.Intn(3)]
	ext := []string{"Equity:Opening", "Income:Salary", "Expenses:Living"}
	j := &gen.Journal{}
	first := dates[0]
	for _, a := range append(append([]string{}, al...), ext...) {
		j.Dirs = append(j.Dirs, gen.Dir{Kind: gen.KOpen, Date: first, Acc: a})
	}
	price := map[string]float64{}
	for _, cm := range coms[1:] {
		p := 1 + r.Intn(300)
		price[cm] = float64(p)
		j.Dirs = append(j.Dirs, gen.Dir{Kind: gen.KPrice, Date: first, Com: cm, Tgt: v, Price: fmt.Sprint(p)})
	}
	held := map[string]bool{}
	var expanded []gen.Dir // written-out form of the accrued transactions
	// a third of the portfolios are empty for the first one to three journal days (only
	// opens and prices there): periods in which nothing is held and nothing flows
	lead := 0
	if r.Intn(3) == 0 && len(dates) > 5 {
		lead = 1 + r.Intn(3)
	}
	for di, d := range dates {
		if di < lead {
			// the journal period starts with the first transaction: one that does not touch the portfolio
			j.Dirs = append(j.Dirs, gen.Dir{Kind: gen.KTxn, Date: d, Desc: "outside the portfolio", Bookings: []gen.Booking{{Credit: "Income:Salary", Debit: "Expenses:Living", Qty: fmt.Sprint(1 + r.Intn(90)), Com: v}}})
			continue
		}
		switch {
		case di > lead+1 && r.Intn(12) == 0:
			// the whole portfolio is sold off and paid out: nothing is held at the end of the day
			type pk struct{ acc, com string }
			pos := map[pk]*big.Rat{}
			var keys []pk
			addPos := func(acc, com, qty string, sign int) {
				if !strings.HasPrefix(acc, "Assets") && !strings.HasPrefix(acc, "Liabilities") {
					return
				}
				k := pk{acc, com}
				if pos[k] == nil {
					pos[k] = new(big.Rat)
					keys = append(keys, k)
				}
				q := gen.Rat(qty)
				if sign < 0 {
					q.Neg(q)
				}
				pos[k].Add(pos[k], q)
			}
			for _, src := range [][]gen.Dir{j.Dirs, expanded} {
				for _, x := range src {
					if x.Kind != gen.KTxn || x.Accrual != nil || x.Date > d {
						continue
					}
					for _, b := range x.Bookings {
						addPos(b.Credit, b.Com, b.Qty, -1)
						addPos(b.Debit, b.Com, b.Qty, +1)
					}
				}
			}
			var bks []gen.Booking
			for _, k := range keys {
				q := pos[k]
				switch q.Sign() {
				case 1:
					bks = append(bks, gen.Booking{Credit: k.acc, Debit: "Equity:Opening", Qty: gen.DecString(q), Com: k.com})
				case -1:
					bks = append(bks, gen.Booking{Credit: "Equity:Opening", Debit: k.acc, Qty: gen.DecString(new(big.Rat).Neg(q)), Com: k.com})
				}
			}
			if len(bks) == 0 {
				continue
			}
			j.Dirs = append(j.Dirs, gen.Dir{Kind: gen.KTxn, Date: d, Desc: "liquidation", Bookings: bks})
			for c := range held {
				held[c] = false
			}
		case di == lead || r.Intn(4) == 0:
			// external deposit (or withdrawal of a small amount once something is held)
			cm := coms[r.Intn(len(coms))]
			acc := al[r.Intn(len(al))]
			if strings.HasPrefix(acc, "Liabilities") {
				acc = al[0]
			}
			amt := fmt.Sprintf("%d", 500+r.Intn(5000))
			bk := gen.Booking{Credit: ext[r.Intn(2)], Debit: acc, Qty: amt, Com: cm}
			if di > lead && held[cm] && r.Intn(3) == 0 {
				bk = gen.Booking{Credit: acc, Debit: ext[2], Qty: fmt.Sprintf("%d", 1+r.Intn(200)), Com: cm}
			}
			held[cm] = true
			j.Dirs = append(j.Dirs, gen.Dir{Kind: gen.KTxn, Date: d, Desc: "flow " + gen.Desc(r), Bookings: []gen.Booking{bk}})
			// further flows on the same day: same commodity and direction in a separate
			// transaction or as a second booking, or the opposite direction
			for n := 0; n < 3 && r.Intn(3) == 0; n++ {
				bk2 := bk
				bk2.Qty = fmt.Sprintf("%d", 1+r.Intn(400))
				switch r.Intn(4) {
				case 0:
					bk2.Debit = al[0]
					if !strings.HasPrefix(bk2.Credit, "Assets") {
						bk2.Credit = ext[r.Intn(2)]
					}
				case 1:
					// opposite direction, small
					bk2 = gen.Booking{Credit: acc, Debit: ext[2], Qty: fmt.Sprintf("%d", 1+r.Intn(100)), Com: cm}
				}
				if r.Intn(3) == 0 {
					last := &j.Dirs[len(j.Dirs)-1]
					last.Bookings = append(append([]gen.Booking{}, last.Bookings...), bk2)
				} else {
					j.Dirs = append(j.Dirs, gen.Dir{Kind: gen.KTxn, Date: d, Desc: "flow " + gen.Desc(r), Bookings: []gen.Booking{bk2}})
				}
			}
		case r.Intn(3) == 0 && len(al) > 1:
			// transfer between portfolio accounts (no external flow)
			cm := coms[r.Intn(len(coms))]
			if !held[cm] {
				continue
			}
			a, b := al[r.Intn(len(al))], al[r.Intn(len(al))]
			if a == b {
				continue
			}
			j.Dirs = append(j.Dirs, gen.Dir{Kind: gen.KTxn, Date: d, Desc: "transfer", Bookings: []gen.Booking{{Credit: a, Debit: b, Qty: fmt.Sprintf("%d", 1+r.Intn(100)), Com: cm}}})
		case r.Intn(6) == 0 && held[v] && len(al) > 1 && d+45 <= dates[len(dates)-1]:
			// a dividend with targets that is accrued over some months into another portfolio
			// account: the parts (own expansion: one per period of the window, dated at the
			// period end, equal amounts because the total is a multiple) keep the annotation
			s0 := d + cal.Day(r.Intn(10))
			e0 := s0 + cal.Day(30+r.Intn(70))
			if e0 > dates[len(dates)-1] {
				e0 = dates[len(dates)-1]
			}
			parts := cal.Partition(s0, e0, cal.Monthly, 0)
			q := 1 + r.Intn(40)
			tgt := []string{coms[r.Intn(len(coms))]}
			acr := al[1]
			j.Dirs = append(j.Dirs, gen.Dir{Kind: gen.KTxn, Date: d, Desc: "accrued dividend", HasPerf: true, Perf: tgt,
				Accrual:  &gen.Accrual{Interval: "monthly", Start: s0, End: e0, Account: acr},
				Bookings: []gen.Booking{{Credit: "Income:Salary", Debit: al[0], Qty: fmt.Sprint(q * len(parts)), Com: v}}})
			expanded = append(expanded, gen.Dir{Kind: gen.KTxn, Date: d, Desc: "accrued dividend",
				Bookings: []gen.Booking{{Credit: acr, Debit: al[0], Qty: fmt.Sprint(q * len(parts)), Com: v}}})
			for _, per := range parts {
				expanded = append(expanded, gen.Dir{Kind: gen.KTxn, Date: per.End, Desc: "accrued dividend", HasPerf: true, Perf: tgt,
					Bookings: []gen.Booking{{Credit: "Income:Salary", Debit: acr, Qty: fmt.Sprint(q), Com: v}}})
			}
			held[v] = true
		case r.Intn(5) == 0 && held[v]:
			// a fee or a dividend with a @performance annotation: the return of its own
			// period is not judged, but it must not leak into later periods
			t := gen.Dir{Kind: gen.KTxn, Date: d, Desc: "annotated", HasPerf: true}
			if r.Intn(2) == 0 {
				t.Bookings = []gen.Booking{{Credit: al[0], Debit: "Expenses:Living", Qty: fmt.Sprintf("%d", 1+r.Intn(50)), Com: v}}
			} else {
				t.Perf = []string{coms[r.Intn(len(coms))]}
				t.Bookings = []gen.Booking{{Credit: "Income:Salary", Debit: al[0], Qty: fmt.Sprintf("%d", 1+r.Intn(50)), Com: v}}
			}
			j.Dirs = append(j.Dirs, t)
		case r.Intn(3) == 0 && len(al) == 4:
			// borrowing on the card: liability grows, expense outside the portfolio
			j.Dirs = append(j.Dirs, gen.Dir{Kind: gen.KTxn, Date: d, Desc: "card", Bookings: []gen.Booking{{Credit: "Liabilities:Card", Debit: "Expenses:Living", Qty: fmt.Sprintf("%d", 1+r.Intn(300)), Com: v}}})
			held[v] = true
		default:
			if constantPrices || len(coms) < 2 {
				continue
			}
			cm := coms[1+r.Intn(len(coms)-1)]
			np := price[cm] * (0.7 + r.Float64()*0.8)
			if np < 0.5 {
				np = 0.5
			}
			price[cm] = math.Round(np*100) / 100
			j.Dirs = append(j.Dirs, gen.Dir{Kind: gen.KPrice, Date: d, Com: cm, Tgt: v, Price: strconv.FormatFloat(price[cm], 'f', 2, 64)})
		}
	}
	// make sure the journal period reaches the last date
	j.Dirs = append(j.Dirs, gen.Dir{Kind: gen.KPrice, Date: dates[len(dates)-1], Com: "ZZZ", Tgt: "YYY", Price: "1"})
	if r.Intn(2) == 0 {
		j.Shuffle(r)
	}
	rj := &gen.Journal{}
	for _, d := range j.Dirs {
		if d.Accrual == nil {
			rj.Dirs = append(rj.Dirs, d)
		}
	}
	rj.Dirs = append(rj.Dirs, expanded...)
	return c20Journal{j: j, ref: rj, text: j.Text(), coms: coms, dates: dates, v: v}
}

func (k *c20) RunCase(c *core.Ctx, i int) {
	r := c.Rng(i, "journal")
	constant := i%3 == 0
	w := c20Gen(r, constant)
	dir := c.CaseDir(i)
	defer os.RemoveAll(dir)
	writeFile(dir, "j.knut", w.text)
	k.weights(c, i, dir, w, r)
	k.returns(c, i, dir, w, r, constant)
}

// ---------------------------------------------------------------- weights

func (k *c20) weights(c *core.Ctx, i int, dir string, w c20Journal, r *rand.Rand) {
	f := randPeriodFlags(r, w.dates)
	f.Diff, f.Close = false, false
	if f.Interval == cal.Once && r.Intn(2) == 0 {
		f.Interval = cal.Monthly
	}
	period := f.Argv()
	// strip --close (weights has no such flag)
	var pf []string
	for _, a := range period {
		if !strings.HasPrefix(a, "--close") {
			pf = append(pf, a)
		}
	}
	var filters []string
	if r.Intn(4) == 0 {
		filters = append(filters, "--account", []string{"Assets", "Broker", "Bank|Card"}[r.Intn(3)])
	}
	if r.Intn(4) == 0 {
		filters = append(filters, "--commodity", w.coms[r.Intn(len(w.coms))]+"|"+w.coms[0])
	}
	var extra []string
	universe := map[string][]string{}
	if r.Intn(3) == 0 {
		// universe file
		classes := []string{"Cash", "Equity:Tech", "Equity:World:Dev", "Alt"}
		var b strings.Builder
		byClass := map[string][]string{}
		for _, cm := range w.coms {
			if r.Intn(4) == 0 {
				continue // unclassified -> Other
			}
			cl := classes[r.Intn(len(classes))]
			byClass[cl] = append(byClass[cl], cm)
			universe[cm] = append(strings.Split(cl, ":"), cm)
		}
		var cls []string
		for cl := range byClass {
			cls = append(cls, cl)
		}
		sort.Strings(cls)
		for _, cl := range cls {
			fmt.Fprintf(&b, "\"%s\": [%s]\n", cl, strings.Join(byClass[cl], ", "))
		}
		if b.Len() == 0 {
			b.WriteString("{}\n")
		}
		writeFile(dir, "universe.yaml", b.String())
		extra = append(extra, "--universe", "universe.yaml")
	}
	type mrule struct {
		level, suffix int
		rx            string
	}
	var maps []mrule
	if r.Intn(3) == 0 {
		m := mrule{level: 1 + r.Intn(2), suffix: r.Intn(3)}
		switch r.Intn(4) {
		case 0:
			m.rx = []string{"Equity", "Other", "Cash"}[r.Intn(3)]
		case 1, 2:
			// a rule that folds only one commodity of a class into its group row
			m.rx = w.coms[r.Intn(len(w.coms))] + "$"
		}
		maps = append(maps, m)
		spec := fmt.Sprint(m.level)
		if m.suffix > 0 {
			spec += fmt.Sprintf(":%d", m.suffix)
		}
		if m.rx != "" {
			spec += "," + m.rx
		}
		extra = append(extra, "-m", spec)
	}
	base := append(append([]string{"portfolio", "weights", "-v", w.v, "-a"}, pf...), filters...)
	base = append(base, extra...)
	argsT := append(append([]string{}, base...), "--color=false", "--digits", "4", "j.knut")
	argsC := append(append([]string{}, base...), "--csv", "j.knut")
	// balance: same --to and interval, no --from / --last (weights accumulate from the journal start)
	bal := []string{"balance", "-v", w.v, "--csv", "-s", ".", "--close=false", "-a"}
	if f.To != nil {
		bal = append(bal, "--to", f.To.String())
	}
	if f.Interval != cal.Once {
		bal = append(bal, cal.IntervalFlags[f.Interval])
	}
	bal = append(bal, filters...)
	bal = append(bal, "j.knut")
	rt := knut(c, dir, nil, argsT...)
	rc := knut(c, dir, nil, argsC...)
	rb := knut(c, dir, nil, bal...)
	c.Eval(1)
	fail := func(key, why string) {
		c.Violation(core.Witness{Case: i, Key: key, Why: why, Files: map[string][]byte{"j.knut": []byte(w.text)},
			Cmd:   knutCmd(c, nil, argsC...) + "\n" + knutCmd(c, nil, bal...),
			Extra: map[string]string{"weights.txt": string(rt.Stdout), "weights.csv": string(rc.Stdout), "balance.csv": string(rb.Stdout), "stderr.txt": string(rc.Stderr) + string(rb.Stderr)}})
	}
	if rb.Class != "ok" {
		c.NotJudged(1)
		return
	}
	if rt.Class != "ok" || rc.Class != "ok" {
		fail("weights-failed", "portfolio weights fails although balance -v succeeds: "+fmtErr(rc))
		return
	}
	// balance totals per commodity and date
	brecs, err := tab.ParseCSV(string(rb.Stdout))
	if err != nil || len(brecs) < 2 || len(brecs[0]) < 3 {
		c.NotJudged(1)
		return
	}
	bdates := brecs[0][2:]
	totals := map[string][]float64{} // commodity -> per date
	for _, rec := range brecs[1:] {
		if rec[0] == "Total (A+L)" {
			break
		}
		if rec[1] == "" {
			continue
		}
		if totals[rec[1]] == nil {
			totals[rec[1]] = make([]float64, len(bdates))
		}
		for ci := range bdates {
			v, ok := ratOrZero(rec[2+ci])
			if !ok {
				c.NotJudged(1)
				return
			}
			fv, _ := v.Float64()
			totals[rec[1]][ci] += fv
		}
	}
	// weights rows
	// Only the first column (row names and their indentation) is needed from the
	// text rendering. The geometry of the weights table is not part of this
	// property (percent cells wider than the column misalign it), so the table is
	// cut leniently at the first two bars of each line.
	tt := &tab.TextTable{}
	for _, line := range strings.Split(strings.TrimRight(string(rt.Stdout), "\n"), "\n") {
		if !strings.HasPrefix(line, "|") {
			continue
		}
		rest := line[1:]
		end := strings.Index(rest, "|")
		if end < 2 {
			continue
		}
		cell := rest[:end]
		cell = cell[1 : len(cell)-1]
		tt.Rows = append(tt.Rows, tab.TextRow{Raw: line, Cells: []string{cell}})
	}
	wrecs, err := tab.ParseCSV(string(rc.Stdout))
	if err != nil || len(wrecs) == 0 {
		fail("weights-unreadable", "unreadable weights csv")
		return
	}
	var trows []tab.TextRow
	for _, tr := range tt.Rows {
		if !tr.Blank() {
			trows = append(trows, tr)
		}
	}
	if len(trows) != len(wrecs) {
		// the two renderings cannot be zipped: the tree is unknown, nothing is judged
		c.NotJudged(1)
		c.Count("weights_text_csv_row_mismatch", 1)
		return
	}
	wdates := wrecs[0][1:]
	col := map[string]int{}
	for ci, d := range bdates {
		col[d] = ci
	}
	type node struct {
		path    []string
		vals    []float64
		present []bool
		kids    []int
	}
	var nodes []node
	var stack []int
	for ri := 1; ri < len(wrecs); ri++ {
		name := wrecs[ri][0]
		if strings.TrimSpace(trows[ri].Cells[0]) != name {
			fail("weights-text-csv-mismatch", fmt.Sprintf("row %d: text %q, csv %q", ri, strings.TrimSpace(trows[ri].Cells[0]), name))
			return
		}
		depth := trows[ri].Indent() / 2
		if depth > len(stack) {
			fail("weights-tree", fmt.Sprintf("row %q is indented deeper than its predecessor allows", name))
			return
		}
		stack = stack[:depth]
		var path []string
		for _, s := range stack {
			path = append(path, nodes[s].path[len(nodes[s].path)-1])
		}
		path = append(path, name)
		n := node{path: path, vals: make([]float64, len(wdates)), present: make([]bool, len(wdates))}
		for ci := range wdates {
			cell := wrecs[ri][1+ci]
			if cell == "" {
				continue
			}
			fv, err := strconv.ParseFloat(cell, 64)
			if err != nil {
				fail("weights-cell", fmt.Sprintf("cell %q is not a number", cell))
				return
			}
			n.vals[ci], n.present[ci] = fv, true
		}
		nodes = append(nodes, n)
		idx := len(nodes) - 1
		if depth > 0 {
			p := stack[depth-1]
			nodes[p].kids = append(nodes[p].kids, idx)
		}
		stack = append(stack, idx)
	}
	// expected leaf path of a commodity
	locate := func(cm string) []string {
		p, ok := universe[cm]
		if !ok {
			p = []string{"Other", cm}
		}
		for _, m := range maps {
			if m.rx != "" && !regexp.MustCompile(m.rx).MatchString(strings.Join(p, ":")) {
				continue
			}
			if m.level < len(p)-m.suffix {
				np := append([]string{}, p[:m.level]...)
				np = append(np, p[len(p)-m.suffix:]...)
				p = np
			}
			break
		}
		return p
	}
	// expected weights per leaf path and date
	expLeaf := map[string][]float64{}
	judged := make([]bool, len(wdates))
	for wi, d := range wdates {
		bi, ok := col[d]
		if !ok {
			fail("weights-date", fmt.Sprintf("weights has a column %s that the balance report with the same --to/interval does not have (%v)", d, bdates))
			return
		}
		total := 0.0
		for _, vs := range totals {
			total += vs[bi]
		}
		if math.Abs(total) < 1e-6 {
			continue
		}
		judged[wi] = true
		for cm, vs := range totals {
			key := strings.Join(locate(cm), ":")
			if expLeaf[key] == nil {
				expLeaf[key] = make([]float64, len(wdates))
			}
			expLeaf[key][wi] += vs[bi] / total
		}
	}
	// every partition end date with holdings has a column
	start, end, okw := ref.Window(w.j, f.From, f.To)
	if okw && start <= end {
		for _, p := range cal.Partition(start, end, f.Interval, f.Last) {
			bi, ok := col[p.End.String()]
			if !ok {
				continue
			}
			nonzero := false
			for _, vs := range totals {
				if math.Abs(vs[bi]) > 1e-9 {
					nonzero = true
				}
			}
			found := false
			for _, d := range wdates {
				if d == p.End.String() {
					found = true
				}
			}
			if nonzero && !found {
				fail("weights-missing-date", fmt.Sprintf("holdings are non-zero on the period end %s but weights has no column for it (columns %v)", p.End, wdates))
				return
			}
		}
	}
	const tol = 2e-6
	leafSeen := map[string]bool{}
	for _, n := range nodes {
		key := strings.Join(n.path, ":")
		if len(n.kids) == 0 {
			leafSeen[key] = true
			want := expLeaf[key]
			for wi := range wdates {
				if !judged[wi] {
					continue
				}
				wv := 0.0
				if want != nil {
					wv = want[wi]
				}
				if math.Abs(n.vals[wi]-wv) > tol {
					fail("weight-value", fmt.Sprintf("row %s on %s: weight %.6f, share of the valued balance %.6f", key, wdates[wi], n.vals[wi], wv))
					return
				}
			}
		} else {
			for wi := range wdates {
				if !judged[wi] {
					continue
				}
				sum := 0.0
				for _, kid := range n.kids {
					sum += nodes[kid].vals[wi]
				}
				own := 0.0
				if want := expLeaf[key]; want != nil {
					own = want[wi] // a mapping may collapse commodities onto a group row
				}
				if math.Abs(n.vals[wi]-sum-own) > tol*float64(len(n.kids)+1) {
					fail("group-sum", fmt.Sprintf("group %s on %s: weight %.6f, sum of members %.6f", key, wdates[wi], n.vals[wi], sum+own))
					return
				}
			}
		}
	}
	for key, want := range expLeaf {
		if leafSeen[key] {
			continue
		}
		// a group row may carry collapsed commodities; otherwise the row must exist when non-zero
		isGroup := false
		for _, n := range nodes {
			if strings.Join(n.path, ":") == key {
				isGroup = true
			}
		}
		if isGroup {
			continue
		}
		for wi := range wdates {
			if judged[wi] && math.Abs(want[wi]) > tol {
				fail("weight-row-missing", fmt.Sprintf("commodity row %s has share %.6f of the valued balance on %s but no row in weights", key, want[wi], wdates[wi]))
				return
			}
		}
	}
	// top level sums to 1
	for wi := range wdates {
		if !judged[wi] {
			continue
		}
		sum := 0.0
		for _, n := range nodes {
			if len(n.path) == 1 {
				sum += n.vals[wi]
			}
		}
		if math.Abs(sum-1) > 1e-5 {
			fail("top-level-sum", fmt.Sprintf("top-level weights on %s sum to %.6f", wdates[wi], sum))
			return
		}
	}
	c.Count("weight_cells_checked", len(nodes)*len(wdates))
	if len(totals) >= 2 && len(wdates) >= 2 {
		c.Nontrivial("weights|" + w.text + strings.Join(argsC, " "))
		if c.WantSample() {
			c.Sample(map[string]any{"journal": sampleJournal(w.text), "argv": strings.Join(argsT, " "), "weights": core.Trunc(string(rt.Stdout), 1200), "balance_csv": core.Trunc(string(rb.Stdout), 800)})
		}
	}
}

// ---------------------------------------------------------------- returns

var returnsLine = regexp.MustCompile(`^(\d{4}-\d\d-\d\d) 00:00:00 \+0000 UTC: (-?[0-9.]+|NaN|[+-]Inf)%$`)

func (k *c20) returns(c *core.Ctx, i int, dir string, w c20Journal, r *rand.Rand, constant bool) {
	f := randPeriodFlags(r, w.dates)
	f.Diff, f.Close, f.Last = false, false, 0
	if f.Interval == cal.Once || f.Interval == cal.Daily {
		f.Interval = []cal.Interval{cal.Weekly, cal.Monthly, cal.Quarterly}[r.Intn(3)]
	}
	args := []string{"portfolio", "returns", "-v", w.v}
	for _, a := range f.Argv() {
		if !strings.HasPrefix(a, "--close") {
			args = append(args, a)
		}
	}
	args = append(args, "j.knut")
	res := knut(c, dir, nil, args...)
	c.Eval(1)
	fail := func(key, why string) {
		c.Violation(core.Witness{Case: i, Key: key, Why: why, Files: map[string][]byte{"j.knut": []byte(w.text)},
			Cmd: knutCmd(c, nil, args...), Extra: map[string]string{"returns.txt": string(res.Stdout), "stderr.txt": string(res.Stderr)}})
	}
	if res.Class != "ok" {
		fail("returns-failed", "portfolio returns fails on an accepted journal: "+fmtErr(res))
		return
	}
	start, end, ok := ref.Window(w.ref, f.From, f.To)
	if !ok || start > end {
		c.NotJudged(1)
		return
	}
	periods := cal.Partition(start, end, f.Interval, 0)
	var lines []string
	for _, l := range strings.Split(strings.TrimRight(string(res.Stdout), "\n"), "\n") {
		if l != "" {
			lines = append(lines, l)
		}
	}
	type got struct {
		date string
		val  float64
		raw  string
	}
	var gots []got
	for _, l := range lines {
		m := returnsLine.FindStringSubmatch(l)
		if m == nil {
			fail("returns-line-format", fmt.Sprintf("unexpected output line %q", l))
			return
		}
		v, _ := strconv.ParseFloat(m[2], 64)
		gots = append(gots, got{m[1], v, m[2]})
	}
	if len(gots) != len(periods) {
		var want []string
		for _, p := range periods {
			want = append(want, p.End.String())
		}
		var have []string
		for _, g := range gots {
			have = append(have, g.date)
		}
		fail("returns-period-count", fmt.Sprintf("the partition has %d periods ending %v but returns printed %d lines for %v", len(periods), want, len(gots), have))
		return
	}
	// reference values
	posts, _ := ref.Postings(w.ref)
	pb := ref.NewPriceBook(w.ref, w.v)
	value := func(day cal.Day) (float64, bool) {
		// Σ over A/L postings up to day of q × P(day)
		q := map[string]*big.Rat{}
		for _, p := range posts {
			if ref.IsAL(p.Account) && p.Date <= day {
				if q[p.Com] == nil {
					q[p.Com] = new(big.Rat)
				}
				q[p.Com].Add(q[p.Com], p.Qty)
			}
		}
		total := new(big.Rat)
		for cm, qty := range q {
			if qty.Sign() == 0 {
				continue
			}
			pr, _, ok := pb.At(day, cm)
			if !ok {
				return 0, false
			}
			total.Add(total, new(big.Rat).Mul(qty, pr))
		}
		fv, _ := total.Float64()
		return fv, true
	}
	internal := map[int]bool{}
	for di, d := range w.ref.Dirs {
		if d.Kind == gen.KTxn && d.HasPerf && len(d.Perf) > 0 {
			internal[di] = true
		}
	}
	noDirectiveEnds := 0
	jdays := map[cal.Day]bool{}
	for _, d := range ref.JournalDays(w.ref) {
		jdays[d] = true
	}
	for pi, p := range periods {
		g := gots[pi]
		if g.date != p.End.String() {
			fail("returns-period-label", fmt.Sprintf("line %d is labelled %s, the period ends %s", pi+1, g.date, p.End))
			return
		}
		if !jdays[p.End] {
			noDirectiveEnds++
		}
		// classify the period from the abstract model
		flows, priceMove, internalEffect := false, false, false
		for _, po := range posts {
			if po.Date < p.Start || po.Date > p.End {
				continue
			}
			if ref.IsAL(po.Account) && !ref.IsAL(po.Other) {
				if internal[po.Txn] {
					internalEffect = true
				} else {
					flows = true
				}
			}
		}
		for _, d := range w.ref.Dirs {
			if d.Kind == gen.KPrice && d.Date >= p.Start && d.Date <= p.End && d.Date > w.dates[0] && d.Com != "ZZZ" {
				priceMove = true
			}
		}
		// an annotation with targets makes the booking a performance effect of those targets, not
		// an external flow; what an empty target list means for the total is not pinned
		annotated := false
		for _, d := range w.ref.Dirs {
			if d.Kind == gen.KTxn && d.HasPerf && len(d.Perf) == 0 && d.Date >= p.Start && d.Date <= p.End {
				annotated = true
			}
		}
		if annotated {
			// a @performance annotation changes how the flow is attributed: not one of the two pinned families
			c.Count("returns_periods_not_judged", 1)
			continue
		}
		vStart, ok1 := value(p.Start - 1)
		vEnd, ok2 := value(p.End)
		if !ok1 || !ok2 {
			continue
		}
		switch {
		case !flows:
			if math.Abs(vStart) < 1e-9 {
				// nothing held (or exactly zero net): only "no change" is certain when both are zero
				if math.Abs(vEnd) < 1e-9 && (math.IsNaN(g.val) || math.Abs(g.val) > 0.0501) {
					fail("returns-empty-period", fmt.Sprintf("period ending %s: nothing is held and nothing flows but the return is %s%%", p.End, g.raw))
					return
				}
				continue
			}
			want := (vEnd/vStart - 1) * 100
			if math.IsNaN(g.val) || math.Abs(g.val-want) > 0.0501 {
				fail("returns-no-flow-period", fmt.Sprintf("period %s..%s has no flows: value goes from %.4f to %.4f, expected %.2f%%, printed %s%%", p.Start, p.End, vStart, vEnd, want, g.raw))
				return
			}
			c.Count("returns_no_flow_periods_checked", 1)
			if internalEffect {
				c.Count("returns_periods_with_annotated_effects_checked", 1)
			}
		case flows && !priceMove && !internalEffect:
			// external flows only, prices unchanged
			if math.Abs(vStart) < 1e-9 && vEnd < 0 {
				continue // degenerate: the portfolio goes negative from nothing
			}
			// degenerate as well: a flow on a day that starts with nothing (or less than nothing)
			// held, unless it is a deposit into an empty portfolio - a return on no capital
			degenerate := false
			netByDay := map[cal.Day]float64{}
			for _, po := range posts {
				if po.Date < p.Start || po.Date > p.End || !ref.IsAL(po.Account) || ref.IsAL(po.Other) || internal[po.Txn] {
					continue
				}
				pr, _, ok := pb.At(po.Date, po.Com)
				if !ok {
					degenerate = true
					break
				}
				f, _ := new(big.Rat).Mul(po.Qty, pr).Float64()
				netByDay[po.Date] += f
			}
			for day, net := range netByDay {
				v0 := 0.0
				if prev, ok := pb.PrevDay(day); ok {
					v0, _ = value(prev)
				}
				if v0 < -1e-9 || (math.Abs(v0) <= 1e-9 && net <= 0) {
					degenerate = true
				}
			}
			if degenerate {
				c.Count("returns_periods_not_judged_no_capital", 1)
				continue
			}
			if math.IsNaN(g.val) || math.Abs(g.val) > 0.0501 {
				fail("returns-flow-only-period", fmt.Sprintf("period %s..%s has only external flows at unchanged prices (value %.4f -> %.4f) but the return is %s%%", p.Start, p.End, vStart, vEnd, g.raw))
				return
			}
			c.Count("returns_flow_only_periods_checked", 1)
		default:
			c.Count("returns_periods_not_judged", 1)
		}
	}
	if len(periods) >= 3 && noDirectiveEnds >= 1 {
		c.Nontrivial("returns|" + w.text + strings.Join(args, " "))
	}
}
