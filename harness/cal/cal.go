// Package cal is the harness's own calendar: day-number arithmetic written
// from scratch (no time package), period keys for day / Mon-Sun week / month /
// quarter / year, and from them the reference partition of a window.
package cal

import "fmt"

// Day is a day number: days since 1970-01-01 (proleptic Gregorian).
type Day int

type Interval int

const (
	Once Interval = iota
	Daily
	Weekly
	Monthly
	Quarterly
	Yearly
)

var IntervalFlags = []string{"", "--days", "--weeks", "--months", "--quarters", "--years"}
var IntervalNames = []string{"once", "daily", "weekly", "monthly", "quarterly", "yearly"}

// FromYMD converts a civil date to a day number (Howard Hinnant's algorithm).
func FromYMD(y, m, d int) Day {
	if m <= 2 {
		y--
	}
	var era int
	if y >= 0 {
		era = y / 400
	} else {
		era = (y - 399) / 400
	}
	yoe := y - era*400
	mp := (m + 9) % 12
	doy := (153*mp+2)/5 + d - 1
	doe := yoe*365 + yoe/4 - yoe/100 + doy
	return Day(era*146097 + doe - 719468)
}

func (dn Day) YMD() (int, int, int) {
	z := int(dn) + 719468
	var era int
	if z >= 0 {
		era = z / 146097
	} else {
		era = (z - 146096) / 146097
	}
	doe := z - era*146097
	yoe := (doe - doe/1460 + doe/36524 - doe/146096) / 365
	y := yoe + era*400
	doy := doe - (365*yoe + yoe/4 - yoe/100)
	mp := (5*doy + 2) / 153
	d := doy - (153*mp+2)/5 + 1
	m := mp + 3
	if m > 12 {
		m -= 12
	}
	if m <= 2 {
		y++
	}
	return y, m, d
}

func (dn Day) String() string {
	y, m, d := dn.YMD()
	return fmt.Sprintf("%04d-%02d-%02d", y, m, d)
}

// Parse parses YYYY-MM-DD (no validation beyond shape).
func Parse(s string) (Day, error) {
	var y, m, d int
	if len(s) != 10 || s[4] != '-' || s[7] != '-' {
		return 0, fmt.Errorf("bad date %q", s)
	}
	if _, err := fmt.Sscanf(s, "%04d-%02d-%02d", &y, &m, &d); err != nil {
		return 0, err
	}
	dn := FromYMD(y, m, d)
	if dn.String() != s {
		return 0, fmt.Errorf("invalid calendar date %q", s)
	}
	return dn, nil
}

func MustParse(s string) Day {
	d, err := Parse(s)
	if err != nil {
		panic(err)
	}
	return d
}

// Weekday: Monday = 0 ... Sunday = 6. 1970-01-01 was a Thursday (3).
func (dn Day) Weekday() int {
	w := (int(dn) + 3) % 7
	if w < 0 {
		w += 7
	}
	return w
}

func IsLeap(y int) bool { return y%4 == 0 && (y%100 != 0 || y%400 == 0) }

func DaysInMonth(y, m int) int {
	switch m {
	case 2:
		if IsLeap(y) {
			return 29
		}
		return 28
	case 4, 6, 9, 11:
		return 30
	}
	return 31
}

// UnitStart / UnitEnd give the calendar unit containing d.
func UnitStart(d Day, iv Interval) Day {
	y, m, _ := d.YMD()
	switch iv {
	case Weekly:
		return d - Day(d.Weekday())
	case Monthly:
		return FromYMD(y, m, 1)
	case Quarterly:
		return FromYMD(y, (m-1)/3*3+1, 1)
	case Yearly:
		return FromYMD(y, 1, 1)
	}
	return d
}

func UnitEnd(d Day, iv Interval) Day {
	y, m, _ := d.YMD()
	switch iv {
	case Weekly:
		return d + Day(6-d.Weekday())
	case Monthly:
		return FromYMD(y, m, DaysInMonth(y, m))
	case Quarterly:
		qm := (m-1)/3*3 + 3
		return FromYMD(y, qm, DaysInMonth(y, qm))
	case Yearly:
		return FromYMD(y, 12, 31)
	}
	return d
}

type Period struct{ Start, End Day }

// Partition is the reference partition of [start, end] into calendar units,
// cut to the window; last > 0 keeps the most recent `last` periods.
// start > end gives no period (for Once: the degenerate period is reported as-is
// by the implementation; callers treat it separately).
func Partition(start, end Day, iv Interval, last int) []Period {
	var res []Period
	if start > end {
		return nil
	}
	if iv == Once {
		return []Period{{start, end}}
	}
	for s := start; s <= end; {
		e := UnitEnd(s, iv)
		if e > end {
			e = end
		}
		res = append(res, Period{s, e})
		s = e + 1
	}
	if last > 0 && len(res) > last {
		res = res[len(res)-last:]
	}
	return res
}

// Align returns the end of the period that d is attributed to: the period
// containing it, the first period for earlier dates, ok=false for later ones.
func Align(ps []Period, d Day) (Day, bool) {
	for _, p := range ps {
		if d <= p.End {
			return p.End, true
		}
	}
	return 0, false
}
