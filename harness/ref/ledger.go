// Package ref is the independent reference ledger: exact rational arithmetic
// (math/big), no knut package, written from the property statements and the
// README.
package ref

import (
	"fmt"
	"math/big"
	"regexp"
	"sort"
	"strings"

	"kverif/cal"
	"kverif/gen"
)

type Posting struct {
	Date    cal.Day
	Account string
	Other   string
	Com     string
	Qty     *big.Rat
	Txn     int // index of the directive in the journal (-1 synthetic)
}

func IsAL(acc string) bool {
	return strings.HasPrefix(acc, "Assets") || strings.HasPrefix(acc, "Liabilities")
}

// Postings expands the journal's bookings into signed postings. Journals with
// accruals are refused (the split of an accrued leg is not specified by the
// statement; callers use the printed expansion instead).
func Postings(j *gen.Journal) ([]Posting, error) {
	var res []Posting
	for i, d := range j.Dirs {
		if d.Kind != gen.KTxn {
			continue
		}
		if d.Accrual != nil {
			return nil, fmt.Errorf("accrual in directive %d", i)
		}
		for _, b := range d.Bookings {
			q := gen.Rat(b.Qty)
			res = append(res,
				Posting{Date: d.Date, Account: b.Credit, Other: b.Debit, Com: b.Com, Qty: new(big.Rat).Neg(q), Txn: i},
				Posting{Date: d.Date, Account: b.Debit, Other: b.Credit, Com: b.Com, Qty: q, Txn: i},
			)
		}
	}
	return res, nil
}

// ---------------------------------------------------------------- lifecycle (C04)

type Verdict struct {
	OK      bool
	Culprit int // index into j.Dirs of the first offending directive
	Reason  string
}

// Lifecycle is the account-lifecycle automaton of the statement: days
// ascending; within a day prices, opens, transactions, assertions, closes.
func Lifecycle(j *gen.Journal) Verdict {
	idx := make([]int, len(j.Dirs))
	for i := range idx {
		idx[i] = i
	}
	sort.SliceStable(idx, func(a, b int) bool {
		da, db := j.Dirs[idx[a]], j.Dirs[idx[b]]
		if da.Date != db.Date {
			return da.Date < db.Date
		}
		return da.Kind < db.Kind
	})
	open := map[string]bool{}
	pos := map[string]map[string]*big.Rat{}
	for _, i := range idx {
		d := j.Dirs[i]
		switch d.Kind {
		case gen.KOpen:
			if open[d.Acc] {
				return Verdict{false, i, "already open"}
			}
			open[d.Acc] = true
		case gen.KTxn:
			if d.Accrual != nil {
				// lifecycle of accrual legs is not modelled here
				continue
			}
			for _, b := range d.Bookings {
				if !open[b.Credit] {
					return Verdict{false, i, "account " + b.Credit + " not open"}
				}
				if !open[b.Debit] {
					return Verdict{false, i, "account " + b.Debit + " not open"}
				}
				q := gen.Rat(b.Qty)
				add(pos, b.Credit, b.Com, new(big.Rat).Neg(q))
				add(pos, b.Debit, b.Com, q)
			}
		case gen.KAssert:
			for _, b := range d.Bals {
				if !open[b.Acc] {
					return Verdict{false, i, "account " + b.Acc + " not open"}
				}
				if !IsAL(b.Acc) {
					continue
				}
				have := new(big.Rat)
				if v, ok := pos[b.Acc][b.Com]; ok {
					have = v
				}
				if have.Cmp(gen.Rat(b.Qty)) != 0 {
					return Verdict{false, i, fmt.Sprintf("assertion %s %s %s, position %s", b.Acc, b.Qty, b.Com, gen.DecString(have))}
				}
			}
		case gen.KClose:
			if !open[d.Acc] {
				return Verdict{false, i, "close of account that is not open"}
			}
			for _, q := range pos[d.Acc] {
				if q.Sign() != 0 {
					return Verdict{false, i, "close with non-zero position"}
				}
			}
			delete(pos, d.Acc)
			delete(open, d.Acc)
		}
	}
	return Verdict{OK: true, Culprit: -1}
}

func add(pos map[string]map[string]*big.Rat, acc, com string, q *big.Rat) {
	if !IsAL(acc) {
		return
	}
	m := pos[acc]
	if m == nil {
		m = map[string]*big.Rat{}
		pos[acc] = m
	}
	if m[com] == nil {
		m[com] = new(big.Rat)
	}
	m[com].Add(m[com], q)
}

// ---------------------------------------------------------------- report (C02)

type MapRule struct {
	Level, Suffix int
	Regex         string // "" = matches everything
}

type BalFlags struct {
	From, To    *cal.Day
	Interval    cal.Interval
	Last        int
	Diff, Close bool
	Accounts    []string // --account regexes
	Commodities []string // --commodity regexes
	Maps        []MapRule
	Remap       []string
}

// Argv renders the flags for the knut command line (without -v, --csv etc.).
func (f BalFlags) Argv() []string {
	var a []string
	if f.From != nil {
		a = append(a, "--from", f.From.String())
	}
	if f.To != nil {
		a = append(a, "--to", f.To.String())
	}
	if f.Interval != cal.Once {
		a = append(a, cal.IntervalFlags[f.Interval])
	}
	if f.Last != 0 {
		a = append(a, "--last", fmt.Sprint(f.Last))
	}
	if f.Diff {
		a = append(a, "--diff")
	}
	a = append(a, fmt.Sprintf("--close=%v", f.Close))
	for _, r := range f.Accounts {
		a = append(a, "--account", r)
	}
	for _, r := range f.Commodities {
		a = append(a, "--commodity", r)
	}
	for _, m := range f.Maps {
		s := fmt.Sprint(m.Level)
		if m.Suffix != 0 {
			s += fmt.Sprintf(":%d", m.Suffix)
		}
		if m.Regex != "" {
			s += "," + m.Regex
		}
		a = append(a, "-m", s)
	}
	for _, r := range f.Remap {
		a = append(a, "--remap", r)
	}
	return a
}

// Window computes the clipped reporting window: the flags clipped to [first
// transaction date, last transaction-or-price date].
func Window(j *gen.Journal, from, to *cal.Day) (cal.Day, cal.Day, bool) {
	var minT, maxT cal.Day
	haveT, haveM := false, false
	for _, d := range j.Dirs {
		switch d.Kind {
		case gen.KTxn:
			if !haveT || d.Date < minT {
				minT = d.Date
			}
			haveT = true
			if !haveM || d.Date > maxT {
				maxT = d.Date
			}
			haveM = true
		case gen.KPrice:
			if !haveM || d.Date > maxT {
				maxT = d.Date
			}
			haveM = true
		}
	}
	if !haveT {
		return 0, 0, false
	}
	start, end := minT, maxT
	if from != nil && *from > start {
		start = *from
	}
	if to != nil && *to < end {
		end = *to
	}
	return start, end, true
}

type CellKey struct {
	Account string // mapped account name
	Com     string
}

// Expected is the reference report: per (account, commodity) the per-period
// sums (not yet cumulated), plus the set of accounts that must have a row.
type Expected struct {
	Periods  []cal.Period
	Buckets  map[CellKey][]*big.Rat // per period, raw sign (A/L positive = debit)
	Accounts map[string]bool        // mapped accounts that received >= 1 posting
	Hidden   map[string][]*big.Rat  // per commodity, per period: amounts hidden by level 0
}

func compileAll(rs []string) ([]*regexp.Regexp, error) {
	var res []*regexp.Regexp
	for _, r := range rs {
		c, err := regexp.Compile(r)
		if err != nil {
			return nil, err
		}
		res = append(res, c)
	}
	return res, nil
}

func matchAny(rs []*regexp.Regexp, s string) bool {
	for _, r := range rs {
		if r.MatchString(s) {
			return true
		}
	}
	return false
}

// SwapType swaps Assets<->Liabilities and Income<->Expenses.
func SwapType(acc string) string {
	segs := strings.SplitN(acc, ":", 2)
	var t string
	switch segs[0] {
	case "Assets":
		t = "Liabilities"
	case "Liabilities":
		t = "Assets"
	case "Income":
		t = "Expenses"
	case "Expenses":
		t = "Income"
	default:
		return acc
	}
	if len(segs) == 1 {
		return t
	}
	return t + ":" + segs[1]
}

// Shorten applies the first matching -m rule. hidden=true when the account is
// hidden (level 0).
func Shorten(acc string, rules []MapRule, rx []*regexp.Regexp) (string, bool) {
	for i, rule := range rules {
		if rx[i] != nil && !rx[i].MatchString(acc) {
			continue
		}
		if rule.Level == 0 {
			return "", true
		}
		segs := strings.Split(acc, ":")
		if rule.Level+rule.Suffix >= len(segs) {
			return acc, false
		}
		res := append([]string{}, segs[:rule.Level]...)
		res = append(res, segs[len(segs)-rule.Suffix:]...)
		return strings.Join(res, ":"), false
	}
	return acc, false
}

// Report computes the reference unvalued balance report.
func Report(j *gen.Journal, f BalFlags) (*Expected, error) {
	posts, err := Postings(j)
	if err != nil {
		return nil, err
	}
	start, end, ok := Window(j, f.From, f.To)
	if !ok {
		return nil, fmt.Errorf("no transactions")
	}
	if start > end {
		return nil, fmt.Errorf("empty window")
	}
	periods := cal.Partition(start, end, f.Interval, f.Last)
	accRx, err := compileAll(f.Accounts)
	if err != nil {
		return nil, err
	}
	comRx, err := compileAll(f.Commodities)
	if err != nil {
		return nil, err
	}
	remapRx, err := compileAll(f.Remap)
	if err != nil {
		return nil, err
	}
	mapRx := make([]*regexp.Regexp, len(f.Maps))
	for i, m := range f.Maps {
		if m.Regex != "" {
			if mapRx[i], err = regexp.Compile(m.Regex); err != nil {
				return nil, err
			}
		}
	}
	// window filter
	var in []Posting
	for _, p := range posts {
		if p.Date >= start && p.Date <= end {
			in = append(in, p)
		}
	}
	// closing: synthetic bookings at each shown period start
	if f.Close {
		sort.SliceStable(in, func(a, b int) bool { return in[a].Date < in[b].Date })
		type k struct{ acc, com string }
		acc := map[k]*big.Rat{}
		var order []k
		var out []Posting
		pi := 0
		flush := func(day cal.Day) {
			for _, key := range order {
				q := acc[key]
				if q.Sign() == 0 {
					continue
				}
				out = append(out,
					Posting{Date: day, Account: key.acc, Other: "Equity:Equity", Com: key.com, Qty: new(big.Rat).Neg(q), Txn: -1},
					Posting{Date: day, Account: "Equity:Equity", Other: key.acc, Com: key.com, Qty: new(big.Rat).Set(q), Txn: -1},
				)
				acc[key] = new(big.Rat)
			}
		}
		for _, per := range periods {
			// postings strictly before the period start
			for pi < len(in) && in[pi].Date < per.Start {
				p := in[pi]
				out = append(out, p)
				if !IsAL(p.Account) && p.Account != "Equity:Equity" {
					key := k{p.Account, p.Com}
					if acc[key] == nil {
						acc[key] = new(big.Rat)
						order = append(order, key)
					}
					acc[key].Add(acc[key], p.Qty)
				}
				pi++
			}
			flush(per.Start)
		}
		out = append(out, in[pi:]...)
		in = out
	}
	exp := &Expected{
		Periods:  periods,
		Buckets:  map[CellKey][]*big.Rat{},
		Accounts: map[string]bool{},
		Hidden:   map[string][]*big.Rat{},
	}
	zeroRow := func() []*big.Rat {
		r := make([]*big.Rat, len(periods))
		for i := range r {
			r[i] = new(big.Rat)
		}
		return r
	}
	for _, p := range in {
		if len(accRx) > 0 && !matchAny(accRx, p.Account) {
			continue
		}
		if len(comRx) > 0 && !matchAny(comRx, p.Com) {
			continue
		}
		col := -1
		for i, per := range periods {
			if p.Date <= per.End {
				col = i
				break
			}
		}
		if col < 0 {
			continue // later than the last column: no column
		}
		acc := p.Account
		if matchAny(remapRx, acc) {
			acc = SwapType(acc)
		}
		mapped, hidden := Shorten(acc, f.Maps, mapRx)
		if hidden {
			if exp.Hidden[p.Com] == nil {
				exp.Hidden[p.Com] = zeroRow()
			}
			exp.Hidden[p.Com][col].Add(exp.Hidden[p.Com][col], p.Qty)
			continue
		}
		exp.Accounts[mapped] = true
		key := CellKey{mapped, p.Com}
		if exp.Buckets[key] == nil {
			exp.Buckets[key] = zeroRow()
		}
		exp.Buckets[key][col].Add(exp.Buckets[key][col], p.Qty)
	}
	return exp, nil
}

// Cells turns per-period sums into the displayed cells: cumulative unless
// diff, negated for non-A/L accounts.
func Cells(buckets []*big.Rat, diff, negate bool) []*big.Rat {
	res := make([]*big.Rat, len(buckets))
	run := new(big.Rat)
	for i, b := range buckets {
		v := new(big.Rat)
		if diff {
			v.Set(b)
		} else {
			run.Add(run, b)
			v.Set(run)
		}
		if negate {
			v.Neg(v)
		}
		res[i] = v
	}
	return res
}

func AllZero(rs []*big.Rat) bool {
	for _, r := range rs {
		if r.Sign() != 0 {
			return false
		}
	}
	return true
}
