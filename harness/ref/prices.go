package ref

import (
	"math/big"
	"sort"

	"kverif/cal"
	"kverif/gen"
)

var Eps8 = big.NewRat(1, 100000000)

// Trunc8 truncates toward zero to 8 decimals.
func Trunc8(r *big.Rat) *big.Rat {
	scaled := new(big.Rat).Mul(r, big.NewRat(100000000, 1))
	q := new(big.Int).Quo(scaled.Num(), scaled.Denom()) // truncates toward zero
	return new(big.Rat).SetFrac(q, big.NewInt(100000000))
}

type priceEntry struct {
	P   *big.Rat // exact price (no truncation anywhere)
	Err *big.Rat // bound on |knut's truncated price - P|
}

// PriceBook gives, per journal day, the exact price of each commodity in V
// together with a bound on the deviation caused by per-step truncation.
// It requires the graph of latest declarations to be a forest (unique paths).
type PriceBook struct {
	V      string
	Days   []cal.Day // all journal days (dates carrying any directive), ascending
	tables []map[string]priceEntry
	Forest bool // false if some day's declaration graph has a cycle (prices then not unique)
}

type decl struct {
	com, tgt string // 1 com = p tgt
	p        *big.Rat
}

// JournalDays lists the dates that carry at least one directive.
func JournalDays(j *gen.Journal) []cal.Day {
	seen := map[cal.Day]bool{}
	var days []cal.Day
	for _, d := range j.Dirs {
		if !seen[d.Date] {
			seen[d.Date] = true
			days = append(days, d.Date)
		}
	}
	sort.Slice(days, func(a, b int) bool { return days[a] < days[b] })
	return days
}

func NewPriceBook(j *gen.Journal, v string) *PriceBook {
	pb := &PriceBook{V: v, Forest: true, Days: JournalDays(j)}
	byDay := map[cal.Day][]gen.Dir{}
	for _, d := range j.Dirs {
		if d.Kind == gen.KPrice {
			byDay[d.Date] = append(byDay[d.Date], d)
		}
	}
	type pair struct{ a, b string }
	latest := map[pair]decl{}
	norm := func(a, b string) pair {
		if a < b {
			return pair{a, b}
		}
		return pair{b, a}
	}
	var cur map[string]priceEntry
	for _, day := range pb.Days {
		if ps := byDay[day]; len(ps) > 0 {
			for _, d := range ps {
				latest[norm(d.Com, d.Tgt)] = decl{d.Com, d.Tgt, gen.Rat(d.Price)}
			}
			// adjacency
			adj := map[string][]decl{}
			for _, dc := range latest {
				adj[dc.com] = append(adj[dc.com], dc)
				adj[dc.tgt] = append(adj[dc.tgt], dc)
			}
			cur = map[string]priceEntry{v: {big.NewRat(1, 1), new(big.Rat)}}
			var walk func(u, from string)
			walk = func(u, from string) {
				for _, dc := range adj[u] {
					w := dc.com
					if w == u {
						w = dc.tgt
					}
					if w == from {
						continue
					}
					if _, done := cur[w]; done {
						pb.Forest = false
						continue
					}
					pu := cur[u]
					var e, eUpper, stepErr *big.Rat
					if dc.com == w {
						// 1 w = p u: direct
						e = dc.p
						eUpper = new(big.Rat).Abs(dc.p)
						stepErr = new(big.Rat)
					} else {
						// 1 u = p w: w = 1/p u, stored truncated
						e = new(big.Rat).Inv(dc.p)
						eUpper = new(big.Rat).Add(new(big.Rat).Abs(e), Eps8)
						stepErr = new(big.Rat).Mul(Eps8, new(big.Rat).Add(new(big.Rat).Abs(pu.P), pu.Err))
					}
					p := new(big.Rat).Mul(e, pu.P)
					er := new(big.Rat).Set(Eps8)
					er.Add(er, new(big.Rat).Mul(eUpper, pu.Err))
					er.Add(er, stepErr)
					cur[w] = priceEntry{p, er}
					walk(w, u)
				}
			}
			walk(v, "")
		}
		tbl := cur
		if tbl == nil {
			tbl = map[string]priceEntry{v: {big.NewRat(1, 1), new(big.Rat)}}
		}
		pb.tables = append(pb.tables, tbl)
	}
	return pb
}

// At returns the price of com on the last journal day <= day.
func (pb *PriceBook) At(day cal.Day, com string) (p, err *big.Rat, ok bool) {
	i := sort.Search(len(pb.Days), func(i int) bool { return pb.Days[i] > day }) - 1
	if i < 0 {
		if com == pb.V {
			return big.NewRat(1, 1), new(big.Rat), true
		}
		return nil, nil, false
	}
	e, ok := pb.tables[i][com]
	if !ok {
		return nil, nil, false
	}
	return e.P, e.Err, true
}

// PrevDay returns the last journal day strictly before day.
func (pb *PriceBook) PrevDay(day cal.Day) (cal.Day, bool) {
	i := sort.Search(len(pb.Days), func(i int) bool { return pb.Days[i] >= day }) - 1
	if i < 0 {
		return 0, false
	}
	return pb.Days[i], true
}
