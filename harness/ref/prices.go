package ref

import (
	"math/big"
	"sort"

	"kverif/cal"
	"kverif/gen"
)

var Eps8 = big.NewRat(1, 100000000)

// Trunc8 truncates toward zero to 8 decimals.
func Trunc8(r *big.Rat) *big.Rat {
	scaled := new(big.Rat).Mul(r, big.NewRat(100000000, 1))
	q := new(big.Int).Quo(scaled.Num(), scaled.Denom()) // truncates toward zero
	return new(big.Rat).SetFrac(q, big.NewInt(100000000))
}

type priceEntry struct {
	P   *big.Rat // exact price (no truncation anywhere)
	Err *big.Rat // bound on |knut's truncated price - P|
	Amb bool     // reachable through more than one chain and not declared directly against V
}

// PriceBook gives, per journal day, the exact price of each commodity in V
// together with a bound on the deviation caused by per-step truncation.
// It requires the graph of latest declarations to be a forest (unique paths).
type PriceBook struct {
	V      string
	Days   []cal.Day // all journal days (dates carrying any directive), ascending
	tables []map[string]priceEntry
	Forest bool // false if some day's declaration graph has a cycle (prices then not unique)
}

type decl struct {
	com, tgt string // 1 com = p tgt
	p        *big.Rat
}

// JournalDays lists the dates that carry at least one directive.
func JournalDays(j *gen.Journal) []cal.Day {
	seen := map[cal.Day]bool{}
	var days []cal.Day
	for _, d := range j.Dirs {
		if !seen[d.Date] {
			seen[d.Date] = true
			days = append(days, d.Date)
		}
	}
	sort.Slice(days, func(a, b int) bool { return days[a] < days[b] })
	return days
}

func NewPriceBook(j *gen.Journal, v string) *PriceBook {
	pb := &PriceBook{V: v, Forest: true, Days: JournalDays(j)}
	byDay := map[cal.Day][]gen.Dir{}
	for _, d := range j.Dirs {
		if d.Kind == gen.KPrice {
			byDay[d.Date] = append(byDay[d.Date], d)
		}
	}
	type pair struct{ a, b string }
	latest := map[pair]decl{}
	norm := func(a, b string) pair {
		if a < b {
			return pair{a, b}
		}
		return pair{b, a}
	}
	var cur map[string]priceEntry
	for _, day := range pb.Days {
		if ps := byDay[day]; len(ps) > 0 {
			for _, d := range ps {
				latest[norm(d.Com, d.Tgt)] = decl{d.Com, d.Tgt, gen.Rat(d.Price)}
			}
			// adjacency
			adj := map[string][]decl{}
			for _, dc := range latest {
				adj[dc.com] = append(adj[dc.com], dc)
				adj[dc.tgt] = append(adj[dc.tgt], dc)
			}
			cur = map[string]priceEntry{v: {P: big.NewRat(1, 1), Err: new(big.Rat)}}
			// the component of V: is it a tree?
			comp := map[string]bool{v: true}
			edgesInComp := 0
			stack := []string{v}
			seenEdge := map[pair]bool{}
			for len(stack) > 0 {
				u := stack[len(stack)-1]
				stack = stack[:len(stack)-1]
				for _, dc := range adj[u] {
					pr := norm(dc.com, dc.tgt)
					if !seenEdge[pr] {
						seenEdge[pr] = true
						edgesInComp++
					}
					w := dc.com
					if w == u {
						w = dc.tgt
					}
					if !comp[w] {
						comp[w] = true
						stack = append(stack, w)
					}
				}
			}
			cyclic := edgesInComp != len(comp)-1
			if cyclic {
				pb.Forest = false
			}
			step := func(u, w string, dc decl, amb bool) {
				pu := cur[u]
				var e, eUpper, stepErr *big.Rat
				if dc.com == w {
					// 1 w = p u: direct
					e = dc.p
					eUpper = new(big.Rat).Abs(dc.p)
					stepErr = new(big.Rat)
				} else {
					// 1 u = p w: w = 1/p u, stored truncated
					e = new(big.Rat).Inv(dc.p)
					eUpper = new(big.Rat).Add(new(big.Rat).Abs(e), Eps8)
					stepErr = new(big.Rat).Mul(Eps8, new(big.Rat).Add(new(big.Rat).Abs(pu.P), pu.Err))
				}
				p := new(big.Rat).Mul(e, pu.P)
				er := new(big.Rat).Set(Eps8)
				er.Add(er, new(big.Rat).Mul(eUpper, pu.Err))
				er.Add(er, stepErr)
				cur[w] = priceEntry{P: p, Err: er, Amb: amb}
			}
			// breadth-first: commodities declared directly against V have an unambiguous
			// price whatever else the graph contains; further ones only in a tree
			queue := []string{v}
			for len(queue) > 0 {
				u := queue[0]
				queue = queue[1:]
				for _, dc := range adj[u] {
					w := dc.com
					if w == u {
						w = dc.tgt
					}
					if _, done := cur[w]; done {
						continue
					}
					step(u, w, dc, cyclic && u != v)
					queue = append(queue, w)
				}
			}
		}
		tbl := cur
		if tbl == nil {
			tbl = map[string]priceEntry{v: {P: big.NewRat(1, 1), Err: new(big.Rat)}}
		}
		pb.tables = append(pb.tables, tbl)
	}
	return pb
}

// Ambiguous reports whether the price of com on the last journal day <= day
// could legitimately be derived along more than one chain.
func (pb *PriceBook) Ambiguous(day cal.Day, com string) bool {
	i := sort.Search(len(pb.Days), func(i int) bool { return pb.Days[i] > day }) - 1
	if i < 0 {
		return false
	}
	return pb.tables[i][com].Amb
}

// At returns the price of com on the last journal day <= day.
func (pb *PriceBook) At(day cal.Day, com string) (p, err *big.Rat, ok bool) {
	i := sort.Search(len(pb.Days), func(i int) bool { return pb.Days[i] > day }) - 1
	if i < 0 {
		if com == pb.V {
			return big.NewRat(1, 1), new(big.Rat), true
		}
		return nil, nil, false
	}
	e, ok := pb.tables[i][com]
	if !ok {
		return nil, nil, false
	}
	return e.P, e.Err, true
}

// PrevDay returns the last journal day strictly before day.
func (pb *PriceBook) PrevDay(day cal.Day) (cal.Day, bool) {
	i := sort.Search(len(pb.Days), func(i int) bool { return pb.Days[i] >= day }) - 1
	if i < 0 {
		return 0, false
	}
	return pb.Days[i], true
}
