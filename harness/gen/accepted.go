package gen

import (
	"fmt"
	"math/big"
	"math/rand"
	"sort"
	"strings"

	"kverif/cal"
)

// Opts steers the generator of journals that are accepted by construction.
type Opts struct {
	Lo, Hi       cal.Day
	Days         int // distinct active dates
	Accounts     int // leaf accounts (>= 6)
	Commodities  int
	TxnsPerDay   int // upper bound
	MaxBookings  int
	Small        bool // moderate amounts only (valuation checks)
	NegZero      bool // negative and zero amounts
	Accruals     bool
	Perf         bool
	Prices       bool // spanning tree of prices on the first day + redeclarations
	PriceGraph   bool // additionally non-tree edges (alternative paths)
	Lifecycle    bool // closes and re-opens
	Assertions   bool
	AssertFresh  bool // assertions of 0 on positions that never existed
	Unicode      bool
	SelfBook     bool
	SharedPref   bool // accounts that are prefixes of other accounts
	MinDepth     int  // minimal account depth (default 2)
	MaxDepth     int  // maximal account depth (default 4)
	EquityEquity bool // make sure Equity:Equity is among the accounts
	Depth1       bool // also book directly on a bare type account ("Expenses", "Assets", ...)
	CaseTwins    bool // two commodities that differ only in the case of their letters
	Twins        bool // same-day, same-description transactions whose bookings are a strict prefix of one another
}

func DefaultOpts(r *rand.Rand) Opts {
	lo := cal.FromYMD(2019, 11, 1) + cal.Day(r.Intn(120))
	return Opts{
		Lo: lo, Hi: lo + cal.Day(60+r.Intn(420)),
		Days:        3 + r.Intn(14),
		Accounts:    6 + r.Intn(8),
		Commodities: 1 + r.Intn(4),
		TxnsPerDay:  1 + r.Intn(4),
		MaxBookings: 1 + r.Intn(3),
		NegZero:     true,
		Unicode:     r.Intn(3) == 0,
		SharedPref:  r.Intn(3) == 0,
		MaxDepth:    4,
		Twins:       r.Intn(4) == 0,
		CaseTwins:   r.Intn(4) == 0,
	}
}

// Info is what the generator knows about the journal it built.
type Info struct {
	Accounts    []string
	Commodities []string
	Dates       []cal.Day
	Permanent   map[string]bool // opened on the first date, never closed
}

type acctState struct {
	name   string
	open   bool
	ever   bool
	closed cal.Day // last close date
	perm   bool
}

func isAL(name string) bool {
	return strings.HasPrefix(name, "Assets") || strings.HasPrefix(name, "Liabilities")
}

// MakeAccounts draws n distinct account names covering all five types.
func MakeAccounts(r *rand.Rand, n int, o Opts) []string {
	minD, maxD := o.MinDepth, o.MaxDepth
	if minD < 2 {
		minD = 2
	}
	if maxD < minD {
		maxD = minD + 2
	}
	pool := segPool
	if !o.Unicode {
		var p []string
		for _, s := range segPool {
			ascii := true
			for _, c := range s {
				if c > 127 {
					ascii = false
				}
			}
			if ascii {
				p = append(p, s)
			}
		}
		pool = p
	}
	seen := map[string]bool{}
	var res []string
	add := func(name string) {
		if !seen[name] {
			seen[name] = true
			res = append(res, name)
		}
	}
	if o.EquityEquity {
		add("Equity:Equity")
	}
	if o.Depth1 {
		add(pick(r, TypeNames))
		if r.Intn(2) == 0 {
			add(pick(r, TypeNames))
		}
	}
	mk := func(t string) string {
		depth := minD + r.Intn(maxD-minD+1)
		segs := []string{t}
		for i := 1; i < depth; i++ {
			segs = append(segs, pick(r, pool))
		}
		return strings.Join(segs, ":")
	}
	// at least two A/L, one of each other type
	for _, t := range []string{"Assets", "Assets", "Liabilities", "Equity", "Income", "Expenses"} {
		for tries := 0; tries < 20; tries++ {
			nm := mk(t)
			if !seen[nm] {
				add(nm)
				break
			}
		}
	}
	for tries := 0; len(res) < n && tries < n*20; tries++ {
		if o.SharedPref && r.Intn(3) == 0 && len(res) > 0 {
			// extend or shorten an existing account
			base := pick(r, res)
			segs := strings.Split(base, ":")
			if r.Intn(2) == 0 && len(segs) > 2 {
				add(strings.Join(segs[:len(segs)-1], ":"))
			} else if len(segs) < 5 {
				add(base + ":" + pick(r, pool))
			}
			continue
		}
		add(mk(pick(r, TypeNames)))
	}
	if o.CaseTwins && len(res) > 0 {
		// a sibling that differs from an existing account only in the case of its last segment
		base := pick(r, res)
		segs := strings.Split(base, ":")
		if len(segs) >= 2 {
			last := segs[len(segs)-1]
			tw := strings.ToLower(last)
			if tw == last {
				tw = strings.ToUpper(last)
			}
			if tw != last {
				segs[len(segs)-1] = tw
				add(strings.Join(segs, ":"))
			}
		}
	}
	return res
}

// Accepted builds a journal that satisfies the account lifecycle and all its
// assertions by construction.
func Accepted(r *rand.Rand, o Opts) (*Journal, *Info) {
	if o.Days < 2 {
		o.Days = 2
	}
	if o.Accounts < 6 {
		o.Accounts = 6
	}
	if o.Commodities < 1 {
		o.Commodities = 1
	}
	if o.MaxBookings < 1 {
		o.MaxBookings = 1
	}
	if o.TxnsPerDay < 1 {
		o.TxnsPerDay = 1
	}
	names := MakeAccounts(r, o.Accounts, o)
	coms := append([]string{}, comPool[:3]...)
	r.Shuffle(len(coms), func(a, b int) { coms[a], coms[b] = coms[b], coms[a] })
	rest := append([]string{}, comPool[3:]...)
	if !o.Unicode {
		rest = rest[:len(rest)-1]
	}
	r.Shuffle(len(rest), func(a, b int) { rest[a], rest[b] = rest[b], rest[a] })
	coms = append(coms, rest...)
	if o.Commodities > len(coms) {
		o.Commodities = len(coms)
	}
	coms = coms[:o.Commodities]
	if o.CaseTwins && len(coms) >= 2 {
		// the twin takes a random slot, so that either spelling can come first in file and date order
		a := r.Intn(len(coms))
		b := (a + 1 + r.Intn(len(coms)-1)) % len(coms)
		tw := strings.ToLower(coms[a])
		if r.Intn(2) == 0 {
			rs := []rune(tw)
			tw = strings.ToUpper(string(rs[:1])) + string(rs[1:])
		}
		if tw != coms[a] && indexOf(coms, tw) < 0 {
			coms[b] = tw
		}
	}
	dates := DatePool(r, o.Lo, o.Hi, o.Days)
	info := &Info{Accounts: names, Commodities: coms, Dates: dates, Permanent: map[string]bool{}}
	j := &Journal{}

	accts := make([]*acctState, len(names))
	for i, n := range names {
		accts[i] = &acctState{name: n}
	}
	// positions of A/L accounts
	pos := map[string]map[string]*big.Rat{}
	addPos := func(acc, com string, q *big.Rat) {
		if !isAL(acc) {
			return
		}
		m := pos[acc]
		if m == nil {
			m = map[string]*big.Rat{}
			pos[acc] = m
		}
		if m[com] == nil {
			m[com] = new(big.Rat)
		}
		m[com].Add(m[com], q)
	}

	first := dates[0]
	// prices: spanning tree on the first date
	type edge struct{ a, b string }
	var edges []edge
	if o.Prices && len(coms) > 1 {
		for i := 1; i < len(coms); i++ {
			p := coms[r.Intn(i)]
			e := edge{coms[i], p}
			if r.Intn(2) == 0 {
				e = edge{p, coms[i]}
			}
			edges = append(edges, e)
			j.Dirs = append(j.Dirs, Dir{Kind: KPrice, Date: first, Com: e.a, Tgt: e.b, Price: PriceStr(r)})
		}
		if o.PriceGraph && len(coms) > 2 {
			for k := 0; k < 1+r.Intn(2); k++ {
				a, b := pick(r, coms), pick(r, coms)
				if a == b {
					continue
				}
				dup := false
				for _, e := range edges {
					if (e.a == a && e.b == b) || (e.a == b && e.b == a) {
						dup = true
					}
				}
				if dup {
					continue
				}
				edges = append(edges, edge{a, b})
				j.Dirs = append(j.Dirs, Dir{Kind: KPrice, Date: first, Com: a, Tgt: b, Price: PriceStr(r)})
			}
		}
	}
	// permanent accounts: a core of each type, opened on the first date
	permCount := 0
	for _, a := range accts {
		if r.Intn(2) == 0 || permCount < 5 || a.name == "Equity:Equity" {
			a.open, a.ever, a.perm = true, true, true
			info.Permanent[a.name] = true
			permCount++
			j.Dirs = append(j.Dirs, Dir{Kind: KOpen, Date: first, Acc: a.name})
		}
	}
	// accounts that may serve as accrual accounts: fixed upfront and never
	// asserted, because accrual legs land on other dates than the transaction
	accrualPool := map[string]bool{}
	if o.Accruals {
		var perms []string
		for _, a := range accts {
			if a.perm {
				perms = append(perms, a.name)
			}
		}
		for k := 0; k < 1+r.Intn(2); k++ {
			accrualPool[pick(r, perms)] = true
		}
	}
	openAccts := func() []*acctState {
		var res []*acctState
		for _, a := range accts {
			if a.open {
				res = append(res, a)
			}
		}
		return res
	}
	amount := func() string {
		if o.Small {
			return SmallAmount(r, o.NegZero)
		}
		return Amount(r, o.NegZero, o.NegZero)
	}
	for di, d := range dates {
		// price redeclarations (at most one per unordered pair per day)
		if o.Prices && di > 0 && len(edges) > 0 && r.Intn(2) == 0 {
			perm := r.Perm(len(edges))
			for k := 0; k < 1+r.Intn(len(edges)); k++ {
				e := edges[perm[k]]
				if r.Intn(3) == 0 {
					e = edge{e.b, e.a}
				}
				j.Dirs = append(j.Dirs, Dir{Kind: KPrice, Date: d, Com: e.a, Tgt: e.b, Price: PriceStr(r)})
			}
		}
		// open some closed / never opened accounts
		for _, a := range accts {
			if !a.open && r.Intn(3) == 0 && (!a.ever || a.closed < d) {
				a.open, a.ever = true, true
				j.Dirs = append(j.Dirs, Dir{Kind: KOpen, Date: d, Acc: a.name})
			}
		}
		oa := openAccts()
		ntx := r.Intn(o.TxnsPerDay + 1)
		if di == 0 && ntx == 0 {
			ntx = 1
		}
		for t := 0; t < ntx; t++ {
			tx := Dir{Kind: KTxn, Date: d, Desc: Desc(r)}
			nb := 1 + r.Intn(o.MaxBookings)
			accrual := o.Accruals && r.Intn(4) == 0
			cands := oa
			if accrual {
				cands = nil
				for _, a := range oa {
					if a.perm {
						cands = append(cands, a)
					}
				}
			}
			if len(cands) < 2 {
				continue
			}
			for b := 0; b < nb; b++ {
				cr := pick(r, cands)
				dr := pick(r, cands)
				if cr == dr && !(o.SelfBook && r.Intn(4) == 0) {
					dr = cands[(indexOf(cands, cr)+1+r.Intn(len(cands)-1))%len(cands)]
				}
				bk := Booking{Credit: cr.name, Debit: dr.name, Qty: amount(), Com: pick(r, coms)}
				tx.Bookings = append(tx.Bookings, bk)
				q := Rat(bk.Qty)
				addPos(bk.Debit, bk.Com, q)
				addPos(bk.Credit, bk.Com, new(big.Rat).Neg(q))
			}
			if accrual {
				var perms []*acctState
				for _, a := range oa {
					if accrualPool[a.name] {
						perms = append(perms, a)
					}
				}
				ws := first + cal.Day(r.Intn(int(o.Hi-first)+30))
				we := ws + cal.Day(r.Intn(200))
				if r.Intn(4) == 0 {
					we = ws
				}
				tx.Accrual = &Accrual{
					Interval: pick(r, []string{"daily", "weekly", "monthly", "quarterly"}),
					Start:    ws, End: we, Account: pick(r, perms).name,
				}
				if tx.Accrual.Interval == "daily" && we-ws > 40 {
					tx.Accrual.End = ws + cal.Day(r.Intn(40))
				}
			}
			if o.Perf && r.Intn(3) == 0 {
				tx.HasPerf = true
				for k := r.Intn(4); k > 0; k-- {
					tx.Perf = append(tx.Perf, pick(r, coms))
				}
			}
			j.Dirs = append(j.Dirs, tx)
		}
		// closes: zero out then close
		var closing []*acctState
		if o.Lifecycle && r.Intn(3) == 0 {
			for _, a := range oa {
				if !a.perm && r.Intn(3) == 0 {
					closing = append(closing, a)
				}
			}
		}
		for _, a := range closing {
			if isAL(a.name) {
				var eq *acctState
				for _, e := range oa {
					if e.perm && !isAL(e.name) {
						eq = e
						break
					}
				}
				var keys []string
				for com := range pos[a.name] {
					keys = append(keys, com)
				}
				sort.Strings(keys)
				var bks []Booking
				for _, com := range keys {
					q := pos[a.name][com]
					if q.Sign() == 0 {
						continue
					}
					if eq == nil {
						bks = nil
						break
					}
					// move q out of a: credit a, debit eq
					bks = append(bks, Booking{Credit: a.name, Debit: eq.name, Qty: DecString(q), Com: com})
				}
				nonzero := false
				for _, q := range pos[a.name] {
					if q.Sign() != 0 {
						nonzero = true
					}
				}
				if nonzero && bks == nil {
					continue // cannot zero: do not close
				}
				if len(bks) > 0 {
					j.Dirs = append(j.Dirs, Dir{Kind: KTxn, Date: d, Desc: "zero out " + Desc(r), Bookings: bks})
					for _, bk := range bks {
						addPos(bk.Credit, bk.Com, new(big.Rat).Neg(Rat(bk.Qty)))
					}
				}
			}
		}
		// assertions (after all transactions of the day, before closes)
		if o.Assertions && r.Intn(2) == 0 {
			var als []string
			for _, a := range oa {
				if isAL(a.name) && !accrualPool[a.name] {
					als = append(als, a.name)
				}
			}
			for k := 0; k < 1+r.Intn(3) && len(als) > 0; k++ {
				nb := 1
				if r.Intn(3) == 0 {
					nb = 2 + r.Intn(3)
				}
				as := Dir{Kind: KAssert, Date: d, MultiLine: nb > 1 || r.Intn(4) == 0}
				for b := 0; b < nb; b++ {
					acc := pick(r, als)
					var held []string
					for com := range pos[acc] {
						held = append(held, com)
					}
					sort.Strings(held)
					if len(held) == 0 || (o.AssertFresh && r.Intn(5) == 0) {
						if !o.AssertFresh {
							continue
						}
						com := pick(r, coms)
						q := "0"
						if v, ok := pos[acc][com]; ok {
							q = DecString(v)
						}
						as.Bals = append(as.Bals, Bal{Acc: acc, Qty: q, Com: com})
						continue
					}
					com := pick(r, held)
					qs := DecString(pos[acc][com])
					if r.Intn(4) == 0 && !strings.Contains(qs, ".") {
						qs += ".00"
					}
					as.Bals = append(as.Bals, Bal{Acc: acc, Qty: qs, Com: com})
				}
				if len(as.Bals) > 0 {
					if len(as.Bals) > 1 {
						as.MultiLine = true
					}
					j.Dirs = append(j.Dirs, as)
				}
			}
		}
		for _, a := range closing {
			nonzero := false
			for _, q := range pos[a.name] {
				if q.Sign() != 0 {
					nonzero = true
				}
			}
			if nonzero {
				continue
			}
			a.open = false
			a.closed = d
			delete(pos, a.name)
			j.Dirs = append(j.Dirs, Dir{Kind: KClose, Date: d, Acc: a.name})
		}
	}
	if o.Twins {
		AddTwins(r, j, 1+r.Intn(3))
	}
	return j, info
}

// AddTwins gives up to n transactions a twin on the same day with the same
// description (and targets) whose bookings are the original's plus one more,
// so that one transaction is a strict prefix of the other; a third
// transaction reverses the twin, which leaves all end-of-day positions (and
// with them assertions and closes) unchanged. The twin is placed before or
// after the original at random.
func AddTwins(r *rand.Rand, j *Journal, n int) {
	var idx []int
	for i, d := range j.Dirs {
		if d.Kind == KTxn && d.Accrual == nil && len(d.Bookings) > 0 {
			idx = append(idx, i)
		}
	}
	if len(idx) == 0 {
		return
	}
	chosen := map[int]bool{}
	for k := 0; k < n; k++ {
		chosen[idx[r.Intn(len(idx))]] = true
	}
	var out []Dir
	for i, d := range j.Dirs {
		if !chosen[i] {
			out = append(out, d)
			continue
		}
		twin := d
		twin.Bookings = append(append([]Booking{}, d.Bookings...), d.Bookings[r.Intn(len(d.Bookings))])
		rev := Dir{Kind: KTxn, Date: d.Date, Desc: "reversal of twin"}
		for _, b := range twin.Bookings {
			b.Credit, b.Debit = b.Debit, b.Credit
			rev.Bookings = append(rev.Bookings, b)
		}
		switch r.Intn(3) {
		case 0:
			out = append(out, twin, d, rev)
		case 1:
			out = append(out, d, twin, rev)
		default:
			out = append(out, rev, d, twin)
		}
	}
	j.Dirs = out
}

func indexOf[T comparable](xs []T, x T) int {
	for i, y := range xs {
		if x == y {
			return i
		}
	}
	return -1
}

// Signature is a short description of the journal's shape for evidence.
func (j *Journal) Signature() string {
	var n [5]int
	for _, d := range j.Dirs {
		n[d.Kind]++
	}
	return fmt.Sprintf("p%d o%d t%d a%d c%d", n[0], n[1], n[2], n[3], n[4])
}

// FixAssertions recomputes the asserted quantities of all A/L assertions from
// the journal's bookings (positions at the end of the assertion's day), for use
// after transactions were added to an accepted journal. Accrued transactions
// are ignored (their accounts are never asserted by the generator).
func FixAssertions(j *Journal) {
	for i := range j.Dirs {
		a := &j.Dirs[i]
		if a.Kind != KAssert {
			continue
		}
		bals := append([]Bal{}, a.Bals...)
		for bi := range bals {
			if !isAL(bals[bi].Acc) {
				continue
			}
			sum := new(big.Rat)
			for _, d := range j.Dirs {
				if d.Kind != KTxn || d.Accrual != nil || d.Date > a.Date {
					continue
				}
				for _, b := range d.Bookings {
					if b.Com != bals[bi].Com {
						continue
					}
					if b.Debit == bals[bi].Acc {
						sum.Add(sum, Rat(b.Qty))
					}
					if b.Credit == bals[bi].Acc {
						sum.Sub(sum, Rat(b.Qty))
					}
				}
			}
			bals[bi].Qty = DecString(sum)
		}
		a.Bals = bals
	}
}
