// Package gen produces abstract journals (the ground truth the oracles read)
// and, separately, renderings of them into knut's concrete syntax.
package gen

import (
	"fmt"
	"math/big"
	"math/rand"
	"sort"
	"strings"

	"kverif/cal"
)

type Kind int

const (
	KPrice Kind = iota
	KOpen
	KTxn
	KAssert
	KClose
)

func (k Kind) String() string {
	return [...]string{"price", "open", "txn", "balance", "close"}[k]
}

type Booking struct{ Credit, Debit, Qty, Com string }

type Accrual struct {
	Interval   string
	Start, End cal.Day
	Account    string
}

type Bal struct{ Acc, Qty, Com string }

// Dir is one abstract directive.
type Dir struct {
	Kind Kind
	Date cal.Day

	Com, Tgt, Price string // price: 1 Com = Price Tgt

	Acc string // open / close

	Desc     string // transaction
	Bookings []Booking
	Accrual  *Accrual
	HasPerf  bool
	Perf     []string

	Bals      []Bal // assertion
	MultiLine bool
}

type Journal struct {
	Dirs []Dir
}

func (j *Journal) Clone() *Journal {
	c := &Journal{Dirs: make([]Dir, len(j.Dirs))}
	copy(c.Dirs, j.Dirs)
	return c
}

// Rat parses a decimal string exactly.
func Rat(s string) *big.Rat {
	r, ok := new(big.Rat).SetString(s)
	if !ok {
		panic("bad decimal " + s)
	}
	return r
}

// DecString renders a rational with a power-of-ten denominator exactly, the
// way a decimal library prints it without trailing zeros.
func DecString(r *big.Rat) string {
	if r.IsInt() {
		return r.Num().String()
	}
	// find the number of decimals
	for n := 1; n <= 60; n++ {
		s := r.FloatString(n)
		back, _ := new(big.Rat).SetString(s)
		if back.Cmp(r) == 0 {
			s = strings.TrimRight(s, "0")
			s = strings.TrimSuffix(s, ".")
			return s
		}
	}
	return r.FloatString(60)
}

// ---------------------------------------------------------------- rendering

// RenderDir renders a directive in the plain canonical style (one space
// between tokens, trailing newline, no trailing blank line).
func RenderDir(d Dir) string {
	var b strings.Builder
	switch d.Kind {
	case KPrice:
		fmt.Fprintf(&b, "%s price %s %s %s\n", d.Date, d.Com, d.Price, d.Tgt)
	case KOpen:
		fmt.Fprintf(&b, "%s open %s\n", d.Date, d.Acc)
	case KClose:
		fmt.Fprintf(&b, "%s close %s\n", d.Date, d.Acc)
	case KAssert:
		if len(d.Bals) == 1 && !d.MultiLine {
			fmt.Fprintf(&b, "%s balance %s %s %s\n", d.Date, d.Bals[0].Acc, d.Bals[0].Qty, d.Bals[0].Com)
		} else {
			fmt.Fprintf(&b, "%s balance\n", d.Date)
			for _, bl := range d.Bals {
				fmt.Fprintf(&b, "%s %s %s\n", bl.Acc, bl.Qty, bl.Com)
			}
		}
	case KTxn:
		if d.Accrual != nil {
			fmt.Fprintf(&b, "@accrue %s %s %s %s\n", d.Accrual.Interval, d.Accrual.Start, d.Accrual.End, d.Accrual.Account)
		}
		if d.HasPerf {
			fmt.Fprintf(&b, "@performance(%s)\n", strings.Join(d.Perf, ","))
		}
		fmt.Fprintf(&b, "%s \"%s\"\n", d.Date, d.Desc)
		for _, bk := range d.Bookings {
			fmt.Fprintf(&b, "%s %s %s %s\n", bk.Credit, bk.Debit, bk.Qty, bk.Com)
		}
	}
	return b.String()
}

// Text renders the journal as one file in the order of Dirs, directives
// separated by one blank line.
func (j *Journal) Text() string {
	var b strings.Builder
	for _, d := range j.Dirs {
		b.WriteString(RenderDir(d))
		b.WriteString("\n")
	}
	return b.String()
}

// SortChrono orders directives by (date, kind), stable.
func (j *Journal) SortChrono() {
	sort.SliceStable(j.Dirs, func(a, b int) bool {
		if j.Dirs[a].Date != j.Dirs[b].Date {
			return j.Dirs[a].Date < j.Dirs[b].Date
		}
		return j.Dirs[a].Kind < j.Dirs[b].Kind
	})
}

// Shuffle permutes the directives.
func (j *Journal) Shuffle(r *rand.Rand) {
	r.Shuffle(len(j.Dirs), func(a, b int) { j.Dirs[a], j.Dirs[b] = j.Dirs[b], j.Dirs[a] })
}

// SplitTree distributes the directives over an include tree rooted at
// "main.knut". depth/fanout bound the tree; relative paths use ./x and sub/../y
// forms. It returns the files and the number of files.
// SplitWide distributes the directives over a wide two-level include tree:
// main.knut includes k index files (k = 8..24), each of which includes one to
// three leaf files; every file, the root included, carries directives.
func (j *Journal) SplitWide(r *rand.Rand) map[string][]byte {
	k := 8 + r.Intn(17)
	type file struct {
		path  string
		items []string
	}
	files := []*file{{path: "main.knut"}}
	for i := 0; i < k; i++ {
		idx := &file{path: fmt.Sprintf("w%d/index.knut", i)}
		files = append(files, idx)
		files[0].items = append(files[0].items, fmt.Sprintf("include \"w%d/index.knut\"\n", i))
		for l := 0; l < 1+r.Intn(3); l++ {
			leaf := &file{path: fmt.Sprintf("w%d/leaf%d.knut", i, l)}
			files = append(files, leaf)
			idx.items = append(idx.items, fmt.Sprintf("include \"leaf%d.knut\"\n", l))
		}
	}
	for _, d := range j.Dirs {
		f := files[r.Intn(len(files))]
		pos := r.Intn(len(f.items) + 1)
		f.items = append(f.items[:pos], append([]string{RenderDir(d)}, f.items[pos:]...)...)
	}
	res := map[string][]byte{}
	for _, f := range files {
		text := strings.Join(f.items, "\n") + "\n"
		if r.Intn(4) == 0 {
			text = strings.TrimRight(text, "\n")
		}
		res[f.path] = []byte(text)
	}
	return res
}

func (j *Journal) SplitTree(r *rand.Rand, maxDepth, maxFanout int) map[string][]byte {
	type node struct {
		path     string // path relative to root dir
		dirs     []Dir
		children []*node
		depth    int
		rel      string // include path as written in the parent, relative to the parent's directory
	}
	root := &node{path: "main.knut"}
	nodes := []*node{root}
	nfiles := 1 + r.Intn(maxFanout*maxDepth+1)
	for i := 1; i < nfiles; i++ {
		// pick a parent with room
		var cands []*node
		for _, n := range nodes {
			if n.depth < maxDepth && len(n.children) < maxFanout {
				cands = append(cands, n)
			}
		}
		if len(cands) == 0 {
			break
		}
		p := cands[r.Intn(len(cands))]
		dir := ""
		if k := strings.LastIndex(p.path, "/"); k >= 0 {
			dir = p.path[:k+1]
		}
		sub := ""
		if r.Intn(2) == 0 {
			sub = fmt.Sprintf("d%d/", i)
		}
		ext := ".knut"
		if r.Intn(5) == 0 {
			ext = ".prices"
		}
		ch := &node{path: fmt.Sprintf("%s%sf%d%s", dir, sub, i, ext), depth: p.depth + 1}
		ch.rel = strings.TrimPrefix(ch.path, dir)
		if dir != "" && r.Intn(4) == 0 {
			// a file in a sibling directory of the parent's, reached through ".."
			up := strings.TrimSuffix(dir, "/")
			upDir := ""
			if k := strings.LastIndex(up, "/"); k >= 0 {
				upDir = up[:k+1]
			}
			name := fmt.Sprintf("s%d/f%d%s", i, i, ext)
			ch.path = upDir + name
			ch.rel = "../" + name
		}
		p.children = append(p.children, ch)
		nodes = append(nodes, ch)
	}
	for _, d := range j.Dirs {
		n := nodes[r.Intn(len(nodes))]
		n.dirs = append(n.dirs, d)
	}
	files := map[string][]byte{}
	for _, n := range nodes {
		var b strings.Builder
		// includes interleaved at random positions
		type item struct {
			text string
		}
		var items []item
		for _, d := range n.dirs {
			items = append(items, item{RenderDir(d)})
		}
		for _, ch := range n.children {
			rel := ch.rel
			switch r.Intn(4) {
			case 0:
				rel = "./" + rel
			case 1:
				rel = "zz/../" + rel
			}
			inc := fmt.Sprintf("include \"%s\"\n", rel)
			pos := r.Intn(len(items) + 1)
			items = append(items[:pos], append([]item{{inc}}, items[pos:]...)...)
		}
		for _, it := range items {
			b.WriteString(it.text)
			b.WriteString("\n")
		}
		text := b.String()
		if r.Intn(4) == 0 {
			// the file ends with the last character of its last directive or include
			text = strings.TrimRight(text, "\n")
		}
		files[n.path] = []byte(text)
	}
	return files
}

// ---------------------------------------------------------------- vocabulary

var segPool = []string{
	"Bank", "Cash", "Broker", "Depot", "Savings", "Wallet", "Card", "Loan", "Mortgage",
	"Salary", "Bonus", "Interest", "Dividends", "Food", "Rent", "Tax", "Travel", "Fees",
	"Ärzte", "現金", "Öl", "A1", "B", "C2", "Zürich", "X9", "Opening", "Retained", "Misc",
	"Kids", "Auto", "P2P", "ÉtéÜber", "Я", "a", "z",
	"FixedAssets", "CurrentLiabilities", "Assets", "Income", "EquityFunds", "OtherExpenses",
	"Donaudampfschifffahrtsgesellschaftskapitänsmützenabzeichen2020", "Überstundenzuschlagsrückstellungskontokorrentverrechnung",
}

var TypeNames = []string{"Assets", "Liabilities", "Equity", "Income", "Expenses"}

var comPool = []string{"CHF", "USD", "EUR", "AAPL", "BTC", "GOLD", "VT", "JPY", "X1", "Ünit"}

var descWords = []string{
	"Migros", "rent", "salary", "coffee", "SBB", "insurance", "Zürich", "transfer", "fees", "dividend",
	"buy", "sell", "ATM", "refund", "tax", "日本", "été", "#hash", "a;b", "x,y", "it's", "100%",
	"%s", "%d%%", "%[1]v", "back\\slash", "{{.}}", "$(x)", "<b>&amp;", "`tick`", "'single'",
}

func pick[T any](r *rand.Rand, xs []T) T { return xs[r.Intn(len(xs))] }

// Desc makes a transaction description (never containing a double quote).
func Desc(r *rand.Rand) string {
	n := 1 + r.Intn(4)
	var ws []string
	for i := 0; i < n; i++ {
		ws = append(ws, pick(r, descWords))
	}
	return strings.Join(ws, " ")
}

// Amount draws a decimal string from the boundary-rich distribution.
func Amount(r *rand.Rand, allowZero, allowNeg bool) string {
	var s string
	switch r.Intn(14) {
	case 0:
		s = fmt.Sprintf("%d", 1+r.Intn(9))
	case 1:
		s = fmt.Sprintf("%d", 1+r.Intn(100000))
	case 2:
		s = fmt.Sprintf("%d.%02d", r.Intn(10000), r.Intn(100))
	case 3:
		s = fmt.Sprintf("%d.50", r.Intn(1000)) // trailing zero
	case 4:
		s = fmt.Sprintf("%d.5", r.Intn(1000)) // rounding boundary
	case 5:
		s = "999.5"
	case 6:
		s = fmt.Sprintf("0.%08d", 1+r.Intn(99999999))
	case 7:
		s = "0.00000001"
	case 8:
		s = fmt.Sprintf("%d.%08d", r.Intn(100000), r.Intn(100000000))
	case 9:
		s = fmt.Sprintf("%d", 1000000000000000-r.Intn(1000)) // ~1e15
	case 10:
		s = fmt.Sprintf("%d.%d", r.Intn(100), r.Intn(10))
	case 11:
		s = fmt.Sprintf("%d000", 1+r.Intn(999))
	case 12:
		s = fmt.Sprintf("%d.%03d", r.Intn(1000), 5+10*r.Intn(99)) // x.yy5
	default:
		s = fmt.Sprintf("%d.%02d", 1+r.Intn(500), r.Intn(100))
	}
	if allowZero && r.Intn(25) == 0 {
		s = pick(r, []string{"0", "0.00", "0.0", "-0", "-0.00"})
	}
	if allowNeg && r.Intn(6) == 0 && Rat(s).Sign() != 0 {
		s = "-" + s
	}
	return s
}

// SmallAmount draws a moderate amount (for valuation checks).
func SmallAmount(r *rand.Rand, allowNeg bool) string {
	var s string
	switch r.Intn(5) {
	case 0:
		s = fmt.Sprintf("%d", 1+r.Intn(500))
	case 1:
		s = fmt.Sprintf("%d.%02d", 1+r.Intn(5000), r.Intn(100))
	case 2:
		s = fmt.Sprintf("%d.%04d", 1+r.Intn(100), r.Intn(10000))
	case 3:
		s = fmt.Sprintf("%d.5", 1+r.Intn(100))
	default:
		s = fmt.Sprintf("%d.%08d", 1+r.Intn(50), r.Intn(100000000))
	}
	if allowNeg && r.Intn(6) == 0 {
		s = "-" + s
	}
	return s
}

// PriceStr draws a price > 0.
func PriceStr(r *rand.Rand) string {
	switch r.Intn(5) {
	case 0:
		return fmt.Sprintf("%d", 1+r.Intn(300))
	case 1:
		return fmt.Sprintf("0.%02d", 1+r.Intn(99))
	case 2:
		return fmt.Sprintf("%d.%04d", 1+r.Intn(200), r.Intn(10000))
	case 3:
		return fmt.Sprintf("%d.%02d", 1+r.Intn(50000), r.Intn(100))
	default:
		return fmt.Sprintf("%d.%d", 1+r.Intn(20), 1+r.Intn(9))
	}
}

// ---------------------------------------------------------------- dates

// DatePool draws n distinct dates clustered around period boundaries inside
// [lo, hi].
func DatePool(r *rand.Rand, lo, hi cal.Day, n int) []cal.Day {
	seen := map[cal.Day]bool{}
	var res []cal.Day
	for tries := 0; len(res) < n && tries < n*50; tries++ {
		var d cal.Day
		switch r.Intn(5) {
		case 0, 1:
			d = lo + cal.Day(r.Intn(int(hi-lo)+1))
		default:
			// near a boundary
			base := lo + cal.Day(r.Intn(int(hi-lo)+1))
			iv := cal.Interval(2 + r.Intn(4))
			if r.Intn(2) == 0 {
				d = cal.UnitEnd(base, iv)
			} else {
				d = cal.UnitStart(base, iv)
			}
			d += cal.Day(r.Intn(3) - 1)
		}
		if d < lo || d > hi || seen[d] {
			continue
		}
		seen[d] = true
		res = append(res, d)
	}
	sort.Slice(res, func(a, b int) bool { return res[a] < res[b] })
	return res
}

// ShiftFar moves every directive dated on or after a randomly chosen journal
// date (never the first) three hundred to some thousand years into the future,
// keeping the order of dates (choices = how many of the four distances may be drawn): the journal then mixes ordinary dates with dates
// beyond 2262-04-11, where nanosecond timestamps no longer fit 64 bits.
func ShiftFar(r *rand.Rand, j *Journal, choices int) {
	seen := map[cal.Day]bool{}
	var dates []cal.Day
	for _, d := range j.Dirs {
		if !seen[d.Date] {
			seen[d.Date] = true
			dates = append(dates, d.Date)
		}
	}
	if len(dates) < 2 {
		return
	}
	sort.Slice(dates, func(a, b int) bool { return dates[a] < dates[b] })
	pivot := dates[1+r.Intn(len(dates)-1)]
	if choices < 1 || choices > 4 {
		choices = 4
	}
	delta := []cal.Day{102269, 213633, 1000000, 2700000}[r.Intn(choices)] // +280, +585, +2738, +7392 years
	for i := range j.Dirs {
		d := &j.Dirs[i]
		if d.Date < pivot {
			continue
		}
		d.Date += delta
		if d.Accrual != nil {
			a := *d.Accrual
			a.Start += delta
			a.End += delta
			d.Accrual = &a
		}
	}
}
