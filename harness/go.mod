module kverif

go 1.21

require (
	github.com/anishathalye/porcupine v1.3.0
	github.com/sboehler/knut v0.0.0
	github.com/shopspring/decimal v1.3.1
)

require (
	github.com/sourcegraph/conc v0.3.0 // indirect
	golang.org/x/exp v0.0.0-20230817173708-d852ddb80c63 // indirect
	golang.org/x/sync v0.3.0 // indirect
)

replace github.com/sboehler/knut => /repo
