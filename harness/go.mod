module kverif

go 1.21

require (
	github.com/anishathalye/porcupine v1.3.0
	github.com/sboehler/knut v0.0.0
	github.com/shopspring/decimal v1.3.1
)

replace github.com/sboehler/knut => /repo
