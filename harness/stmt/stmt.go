// Package stmt holds, per bank importer of knut, a generator of well-formed
// account statements together with the expected row model (which transactions,
// assertions and prices the statement carries), and an independent reader of
// knut's journal syntax (reader.go) used to judge what an importer emitted.
//
// One file per importer; every file registers its generator in init(). The
// grammars are derived from the golden inputs in
// /repo/cmd/importer/*/testdata (header lines, encodings, delimiters, amount
// formats) — a generated statement stays inside the shape a real export has.
// Nothing in this package imports knut code.
package stmt

import (
	"fmt"
	"math/big"
	"math/rand"
	"sort"
	"strings"

	"kverif/cal"
)

// Opts steers one generated statement.
type Opts struct {
	// Hostile: free-text fields are drawn from the hostile alphabet (quotes,
	// delimiters, comment characters, addon look-alikes, non-ASCII, very long
	// fields, CR/LF where the format quotes fields).
	Hostile bool
	// NoQuote replaces every `"` of the free text by `'` after all random
	// draws, so that the same (seed, Opts) yields the same statement minus the
	// double quotes (counterfactual used to attribute a parse failure).
	NoQuote bool
	// NoOddSymbols suppresses ticker symbols which are not purely
	// alphanumeric (BRK.B, BRK B); same draw sequence otherwise.
	NoOddSymbols bool
}

// Txn is one expected transaction.
type Txn struct {
	Date cal.Day
	// Import: commodity -> signed effect on the import account (no zero entries
	// unless the row itself has amount zero, in which case the entry is kept).
	Import map[string]*big.Rat
	// Others: account -> commodity -> signed effect, for the counter accounts
	// the statement format itself determines (fee column etc.); nil = not
	// modelled.
	Others map[string]map[string]*big.Rat
	// Row is the index of the (first) booking row this transaction stems from.
	Row int
	// Note names the row kind ("purchase", "fx sell", "conversion", ...).
	Note string
}

// Assertion is one expected balance assertion carried by the statement.
type Assertion struct {
	Date      cal.Day
	Account   string
	Commodity string
	Amount    *big.Rat
}

// Price is one expected price carried by the statement.
type Price struct {
	Date      cal.Day
	Commodity string
	Target    string
	Price     *big.Rat
}

// Statement is a generated statement with its row model.
type Statement struct {
	Importer string   // knut's importer name, e.g. "ch.cumulus"
	Short    string   // key prefix, e.g. "cumulus"
	FileName string   // name of the statement file
	File     []byte   // byte-exact content
	Flags    []string // flags between the importer name and the file
	Account  string   // the import account ("" for ch.viac)
	Accounts []string // every account that may legitimately appear in the output

	BookingRows int // rows that must yield transactions
	OtherRows   int // header / total / ignored rows present in the file
	Txns        []Txn
	Assertions  []Assertion
	Prices      []Price

	HasQuote     bool            // some free-text field contains `"`
	HasOddSymbol bool            // some ticker is not purely alphanumeric
	Features     map[string]bool // generator features exercised (for evidence)
	RowNotes     []string        // one human-readable line per booking row
}

// Argv returns the arguments after the binary name.
func (s *Statement) Argv() []string {
	a := []string{"import", s.Importer}
	a = append(a, s.Flags...)
	return append(a, s.FileName)
}

func (s *Statement) feature(f string) {
	if s.Features == nil {
		s.Features = map[string]bool{}
	}
	s.Features[f] = true
}

// FeatureList returns the sorted features.
func (s *Statement) FeatureList() []string {
	var fs []string
	for f := range s.Features {
		fs = append(fs, f)
	}
	sort.Strings(fs)
	return fs
}

// Generator produces statements of one importer.
type Generator interface {
	Name() string  // importer name
	Short() string // key prefix
	// Deviations documents where the format itself departs from "exactly one
	// transaction per row".
	Deviations() string
	Generate(r *rand.Rand, o Opts) *Statement
}

var generators []Generator

// Register adds a generator (called from the init of each importer file).
func Register(g Generator) { generators = append(generators, g) }

// All returns the generators sorted by importer name.
func All() []Generator {
	gs := append([]Generator{}, generators...)
	sort.Slice(gs, func(i, j int) bool { return gs[i].Name() < gs[j].Name() })
	return gs
}

// ------------------------------------------------------------------ decimals

// Dec is an exact decimal V / 10^S.
type Dec struct {
	V int64
	S int
}

func D(v int64, s int) Dec { return Dec{v, s} }

// Cents is a two-decimal amount.
func Cents(v int64) Dec { return Dec{v, 2} }

func pow10(n int) int64 {
	p := int64(1)
	for i := 0; i < n; i++ {
		p *= 10
	}
	return p
}

func (d Dec) Rat() *big.Rat { return big.NewRat(d.V, pow10(d.S)) }
func (d Dec) Neg() Dec      { return Dec{-d.V, d.S} }
func (d Dec) IsZero() bool  { return d.V == 0 }
func (d Dec) Sign() int     { return big.NewInt(d.V).Sign() }
func (d Dec) Abs() Dec {
	if d.V < 0 {
		return Dec{-d.V, d.S}
	}
	return d
}

// Add adds two decimals (result has the larger scale).
func (d Dec) Add(e Dec) Dec {
	for d.S < e.S {
		d.V *= 10
		d.S++
	}
	for e.S < d.S {
		e.V *= 10
		e.S++
	}
	return Dec{d.V + e.V, d.S}
}

func (d Dec) Sub(e Dec) Dec { return d.Add(e.Neg()) }

// Fixed renders with exactly S decimals: -1234.50
func (d Dec) Fixed() string { return d.Group("") }

// Group renders with exactly S decimals and sep between groups of three
// integer digits: -1'234.50
func (d Dec) Group(sep string) string {
	neg := d.V < 0
	v := d.V
	if neg {
		v = -v
	}
	p := pow10(d.S)
	ip, fp := v/p, v%p
	is := fmt.Sprintf("%d", ip)
	if sep != "" {
		var parts []string
		for len(is) > 3 {
			parts = append([]string{is[len(is)-3:]}, parts...)
			is = is[:len(is)-3]
		}
		parts = append([]string{is}, parts...)
		is = strings.Join(parts, sep)
	}
	res := is
	if d.S > 0 {
		res += "." + fmt.Sprintf("%0*d", d.S, fp)
	}
	if neg {
		res = "-" + res
	}
	return res
}

// Short renders without trailing zeros (and without a trailing point): 1139.6
func (d Dec) Short() string {
	s := d.Fixed()
	if strings.Contains(s, ".") {
		s = strings.TrimRight(s, "0")
		s = strings.TrimSuffix(s, ".")
	}
	return s
}

// MulInt multiplies by an integer.
func (d Dec) MulInt(n int64) Dec { return Dec{d.V * n, d.S} }

// randCents draws a positive two-decimal amount with a spread of magnitudes
// (so that amounts with zero, one and two group separators all occur).
func randCents(r *rand.Rand) Dec {
	switch r.Intn(10) {
	case 0:
		return Cents(int64(1 + r.Intn(99))) // 0.01 .. 0.99
	case 1:
		return Cents(int64(1+r.Intn(200)) * 100) // round
	case 2, 3:
		return Cents(int64(100000 + r.Intn(900000))) // 1'000.00 .. 9'999.99
	case 4:
		return Cents(int64(100000000 + r.Intn(900000000))) // 1'000'000.00 ..
	case 5:
		return Cents(int64(1+r.Intn(99)) * 10) // x.x0
	default:
		return Cents(int64(100 + r.Intn(99900))) // 1.00 .. 999.99
	}
}

// randCentsOrZero is randCents, except that one row in thirty carries the amount 0.00
// (card verifications, waived fees): the row still is a booking row.
func randCentsOrZero(r *rand.Rand, st *Statement) Dec {
	if r.Intn(30) == 0 {
		st.feature("zero-amount")
		return Cents(0)
	}
	return randCents(r)
}

// ------------------------------------------------------------------ effects

func eff(kv ...any) map[string]*big.Rat {
	m := map[string]*big.Rat{}
	for i := 0; i+1 < len(kv); i += 2 {
		c := kv[i].(string)
		var v *big.Rat
		switch x := kv[i+1].(type) {
		case Dec:
			v = x.Rat()
		case *big.Rat:
			v = new(big.Rat).Set(x)
		}
		if old, ok := m[c]; ok {
			v = new(big.Rat).Add(old, v)
		}
		m[c] = v
	}
	return m
}

// ------------------------------------------------------------------ dates

// randStart draws a statement start date, biased to month / year ends and
// leap days.
func randStart(r *rand.Rand) cal.Day {
	y := 2012 + r.Intn(14)
	switch r.Intn(6) {
	case 0:
		return cal.FromYMD(y, 12, 20+r.Intn(10))
	case 1:
		return cal.FromYMD(2012+4*r.Intn(4), 2, 24+r.Intn(5))
	case 2:
		m := 1 + r.Intn(12)
		return cal.FromYMD(y, m, cal.DaysInMonth(y, m)-r.Intn(3))
	default:
		m := 1 + r.Intn(12)
		return cal.FromYMD(y, m, 1+r.Intn(cal.DaysInMonth(y, m)))
	}
}

// dmy renders dd.mm.yyyy (sep = ".") or dd-mm-yyyy (sep = "-").
func dmy(d cal.Day, sep string) string {
	y, m, dd := d.YMD()
	return fmt.Sprintf("%02d%s%02d%s%04d", dd, sep, m, sep, y)
}

var monthsShort = []string{"Jan", "Feb", "Mar", "Apr", "May", "Jun", "Jul", "Aug", "Sep", "Oct", "Nov", "Dec"}
var monthsLong = []string{"January", "February", "March", "April", "May", "June", "July", "August", "September", "October", "November", "December"}

func hms(r *rand.Rand) string {
	return fmt.Sprintf("%02d:%02d:%02d", r.Intn(24), r.Intn(60), r.Intn(60))
}

// rowCount draws 0..40 with weight on the edges.
func rowCount(r *rand.Rand) int {
	switch r.Intn(12) {
	case 0:
		return 0
	case 1:
		return 1
	case 2:
		return 2
	case 3:
		return 40
	default:
		return 3 + r.Intn(38)
	}
}

// ------------------------------------------------------------------ free text

// textGen draws free text.
type textGen struct {
	r  *rand.Rand
	o  Opts
	st *Statement
	// newlines: the format quotes its fields, CR/LF may occur inside a field
	newlines bool
	// latin1: only characters of ISO-8859-1
	latin1 bool
	// quoteMode is drawn once per statement: 0 = not drawn yet, 1 = double
	// quotes occur, 2 = they are replaced by apostrophes (two thirds of the
	// hostile statements, so that the other hostile characters are judged all
	// the way through the oracle)
	quoteMode int
}

var benignWords = []string{
	"Migros", "Coop-1234", "SBB CFF FFS", "Zürich HB", "Café Odeon", "Desc", "Kiosk AG", "Apotheke", "Amazon.de",
	"Restaurant Rössli", "TWINT", "Galaxus", "Bäckerei Müller", "Parking 12", "Ihre Zahlung - Besten Dank", "Genève",
	"Uber *Trip", "PayPal", "Spotify P0E1D2", "Hôtel de Ville", "Lidl 0042", "Swisscom (Schweiz) AG",
}

var hostileFrags = []string{
	`"`, `"quoted"`, `say "hi" twice "ok"`, `trailing"`, `"leading`,
	`;`, `a;b;c`, `,`, `x, y, z`, `'`, `O'Reilly's`, `#`, `# comment`, `*`, `* heading`, `@`, `@accrue monthly`, `@performance(CHF)`,
	`// not a comment`, `\`, `back\slash\"`, `include "evil.knut"`, `2020-01-01 open Assets:Evil`, `Expenses:TBD Assets:X 1 CHF`,
	"tab\there", `日本語のテキスト`, `€ £ ¥`, `Ünïcödé Çà`, `Ελληνικά`, `emoji 🙂🚀`, `ｆｕｌｌｗｉｄｔｈ`, `{}[]()<>|&%$!?=+~^`, `  padded  `, `--flag`, `=1+1`,
}

var hostileFragsLatin1 = []string{
	`"`, `"quoted"`, `say "hi" twice "ok"`, `trailing"`, `"leading`,
	`;`, `a;b;c`, `,`, `x, y, z`, `'`, `O'Reilly's`, `#`, `# comment`, `*`, `* heading`, `@`, `@accrue monthly`, `@performance(CHF)`,
	`// not a comment`, `\`, `include "evil.knut"`, `2020-01-01 open Assets:Evil`, `Expenses:TBD Assets:X 1 CHF`,
	`ÄÖÜ äöü éèà ç`, `£ ¥ § ° ½`, `ÿ þ ð`, `{}[]()<>|&%$!?=+~^`, `  padded  `, `--flag`,
}

var newlineFrags = []string{"\n", "\r\n", "line1\nline2", "a\r\nb", "\n\n", "x\n# y", "x\n2020-01-01 open Assets:Evil\n", "end\n"}

// free draws one free-text value (never empty).
func (t *textGen) free() string {
	r := t.r
	var s string
	if t.quoteMode == 0 {
		t.quoteMode = 1
		if r.Intn(3) != 0 {
			t.quoteMode = 2
		}
	}
	if !t.o.Hostile || r.Intn(4) == 0 {
		s = benignWords[r.Intn(len(benignWords))]
		if r.Intn(2) == 0 {
			s += fmt.Sprintf(" %d", r.Intn(10000))
		}
		if t.latin1 {
			s = toLatin1Safe(s)
		}
	} else {
		frags := hostileFrags
		if t.latin1 {
			frags = hostileFragsLatin1
		}
		n := 1 + r.Intn(4)
		var parts []string
		for i := 0; i < n; i++ {
			k := r.Intn(20)
			switch {
			case k == 0: // very long field
				w := frags[r.Intn(len(frags))]
				parts = append(parts, strings.Repeat(w+" ", 1+(500+r.Intn(1500))/(len(w)+1)))
			case k == 1 && t.newlines:
				parts = append(parts, newlineFrags[r.Intn(len(newlineFrags))])
			case k < 6:
				parts = append(parts, benignWords[r.Intn(len(benignWords))])
			default:
				parts = append(parts, frags[r.Intn(len(frags))])
			}
		}
		s = strings.Join(parts, []string{" ", "", " ", "  "}[r.Intn(4)])
		if t.latin1 {
			s = toLatin1Safe(s)
		}
		if strings.TrimSpace(s) == "" {
			s += "x"
		}
	}
	if t.o.NoQuote || t.quoteMode == 2 {
		s = strings.ReplaceAll(s, `"`, `'`)
	}
	if strings.Contains(s, `"`) {
		t.st.HasQuote = true
		t.st.feature("text:quote")
	}
	if t.o.Hostile {
		for _, c := range []struct{ ch, name string }{{";", "semicolon"}, {",", "comma"}, {"'", "apostrophe"}, {"#", "hash"}, {"*", "star"}, {"@", "at"}, {"\n", "newline"}, {"\r", "cr"}, {"\\", "backslash"}} {
			if strings.Contains(s, c.ch) {
				t.st.feature("text:" + c.name)
			}
		}
		if len(s) > 400 {
			t.st.feature("text:long")
		}
		for _, ru := range s {
			if ru > 127 {
				t.st.feature("text:non-ascii")
				break
			}
		}
	}
	return s
}

// toLatin1Safe drops runes outside ISO-8859-1.
func toLatin1Safe(s string) string {
	var b strings.Builder
	for _, ru := range s {
		if ru < 256 {
			b.WriteRune(ru)
		}
	}
	if b.Len() == 0 {
		return "x"
	}
	return b.String()
}

// encodeLatin1 converts a string of runes < 256 to ISO-8859-1 bytes.
func encodeLatin1(s string) []byte {
	res := make([]byte, 0, len(s))
	for _, ru := range s {
		if ru > 255 {
			panic(fmt.Sprintf("stmt: rune %q outside ISO-8859-1", ru))
		}
		res = append(res, byte(ru))
	}
	return res
}

// ------------------------------------------------------------------ CSV

// csvField renders one CSV field per RFC 4180: quoted (with doubled quotes)
// when always is set or when the field contains the delimiter, a quote, CR or
// LF.
func csvField(s string, delim byte, always bool) string {
	need := always
	if !need {
		if strings.ContainsAny(s, "\"\r\n") || strings.IndexByte(s, delim) >= 0 {
			need = true
		}
	}
	if !need {
		return s
	}
	return `"` + strings.ReplaceAll(s, `"`, `""`) + `"`
}

// csvLine joins already rendered fields.
func csvLine(delim byte, fields ...string) string {
	return strings.Join(fields, string(delim))
}

// lines joins lines with the chosen line ending; every line is terminated.
type fileBuilder struct {
	eol string
	b   strings.Builder
}

func (f *fileBuilder) line(s string)  { f.b.WriteString(s); f.b.WriteString(f.eol) }
func (f *fileBuilder) String() string { return f.b.String() }

func randEOL(r *rand.Rand, st *Statement) string {
	if r.Intn(5) == 0 {
		st.feature("crlf")
		return "\r\n"
	}
	return "\n"
}

var currencies = []string{"CHF", "EUR", "USD", "GBP", "NZD", "AUD", "JPY", "SEK"}

func otherCurrency(r *rand.Rand, not string) string {
	for {
		c := currencies[r.Intn(len(currencies))]
		if c != not {
			return c
		}
	}
}

var tickers = []string{"AAPL", "VWRL", "NESN", "ROG", "MSFT", "VT", "CSSMI", "IWDA", "UBSG", "ABBN", "X7", "3M"}

func isin(r *rand.Rand) string {
	return []string{"IE00B3RBWM25", "US0378331005", "CH0038863350", "CH0012032048", "US5949181045", "US9220427424"}[r.Intn(6)]
}
