package stmt

import (
	"fmt"
	"math/big"
	"sort"
	"strings"
	"unicode"

	"kverif/cal"
)

// An independent reader of knut's journal syntax, sufficient for what the
// journal printer emits (and a bit more): comments, @performance addons,
// transactions with multi-line descriptions, open / close / balance (one-line
// and block form) / price. It is written from the syntax description, not from
// knut's parser, and is *tolerant at top level*: a top-level line which starts
// no directive is recorded as garbage and skipped, so that stray output can be
// told apart from a malformed directive.

// JBooking is one booking line: Credit loses Qty, Debit gains Qty.
type JBooking struct {
	Credit, Debit string
	Qty           *big.Rat
	Commodity     string
}

// JBalance is one asserted balance.
type JBalance struct {
	Account   string
	Qty       *big.Rat
	Commodity string
}

// JDir is one directive.
type JDir struct {
	Kind              string // txn | open | close | balance | price
	Date              cal.Day
	Line              int // 1-based line of the date
	Desc              string
	HasPerf           bool
	Targets           []string
	Bookings          []JBooking
	Account           string     // open / close
	Balances          []JBalance // balance
	Commodity, Target string     // price
	Price             *big.Rat
}

// Garbage is a top-level line that starts no directive.
type Garbage struct {
	Line int
	Text string
}

// Journal is what the reader found.
type Journal struct {
	Dirs    []JDir
	Garbage []Garbage
}

// ReadError is a malformed directive.
type ReadError struct {
	Line int
	Msg  string
}

func (e *ReadError) Error() string { return fmt.Sprintf("line %d: %s", e.Line, e.Msg) }

type jreader struct {
	s    string
	pos  int
	line int
}

func (r *jreader) eof() bool { return r.pos >= len(r.s) }

// restOfLine returns the text up to (excluding) the next '\n' without consuming.
func (r *jreader) restOfLine() string {
	i := strings.IndexByte(r.s[r.pos:], '\n')
	if i < 0 {
		return r.s[r.pos:]
	}
	return r.s[r.pos : r.pos+i]
}

// nextLine consumes through the next '\n'.
func (r *jreader) nextLine() string {
	l := r.restOfLine()
	r.pos += len(l)
	if r.pos < len(r.s) {
		r.pos++ // '\n'
		r.line++
	}
	return l
}

func isBlank(s string) bool { return strings.Trim(s, " \t\r") == "" }

func isDateAt(s string) bool {
	if len(s) < 10 {
		return false
	}
	for i := 0; i < 10; i++ {
		c := s[i]
		if i == 4 || i == 7 {
			if c != '-' {
				return false
			}
		} else if c < '0' || c > '9' {
			return false
		}
	}
	return true
}

func validAccount(s string) bool {
	if s == "" {
		return false
	}
	for _, seg := range strings.Split(s, ":") {
		if !validName(seg) {
			return false
		}
	}
	return true
}

func validName(s string) bool {
	if s == "" {
		return false
	}
	for _, c := range s {
		if !unicode.IsLetter(c) && !unicode.IsDigit(c) {
			return false
		}
	}
	return true
}

func parseQty(s string) (*big.Rat, bool) {
	t := strings.TrimPrefix(s, "-")
	if t == "" {
		return nil, false
	}
	dots := 0
	for i, c := range t {
		if c == '.' {
			dots++
			if i == 0 || i == len(t)-1 || dots > 1 {
				return nil, false
			}
		} else if c < '0' || c > '9' {
			return nil, false
		}
	}
	q, ok := new(big.Rat).SetString(s)
	return q, ok
}

func fieldsWS(s string) []string {
	return strings.FieldsFunc(s, func(c rune) bool { return c == ' ' || c == '\t' || c == '\r' })
}

// ReadJournal reads journal text. A malformed directive yields a *ReadError
// (with what had been read so far); stray top-level lines are collected.
func ReadJournal(text string) (*Journal, error) {
	r := &jreader{s: text, line: 1}
	j := &Journal{}
	var pendingPerf *JDir
	for !r.eof() {
		l := r.restOfLine()
		switch {
		case isBlank(l):
			r.nextLine()
		case strings.HasPrefix(l, "#") || strings.HasPrefix(l, "*") || strings.HasPrefix(l, "//"):
			r.nextLine()
		case strings.HasPrefix(l, "@performance("):
			line := r.line
			r.nextLine()
			end := strings.IndexByte(l, ')')
			if end < 0 || !isBlank(l[end+1:]) {
				return j, &ReadError{line, "malformed @performance addon"}
			}
			d := &JDir{HasPerf: true}
			inner := strings.TrimSpace(l[len("@performance("):end])
			if inner != "" {
				for _, t := range strings.Split(inner, ",") {
					t = strings.TrimSpace(t)
					if !validName(t) {
						return j, &ReadError{line, "malformed @performance target"}
					}
					d.Targets = append(d.Targets, t)
				}
			}
			if pendingPerf != nil {
				return j, &ReadError{line, "two @performance addons"}
			}
			pendingPerf = d
		case isDateAt(l) && len(l) > 10 && (l[10] == ' ' || l[10] == '\t'):
			d := JDir{Line: r.line}
			if pendingPerf != nil {
				d.HasPerf, d.Targets = true, pendingPerf.Targets
				pendingPerf = nil
			}
			day, err := cal.Parse(l[:10])
			if err != nil {
				return j, &ReadError{r.line, "invalid date " + l[:10]}
			}
			d.Date = day
			if err := r.directive(&d); err != nil {
				return j, err
			}
			if d.HasPerf && d.Kind != "txn" {
				return j, &ReadError{d.Line, "addon on a non-transaction"}
			}
			j.Dirs = append(j.Dirs, d)
		default:
			if pendingPerf != nil {
				return j, &ReadError{r.line, "addon not followed by a transaction"}
			}
			j.Garbage = append(j.Garbage, Garbage{r.line, l})
			r.nextLine()
		}
	}
	if pendingPerf != nil {
		return j, &ReadError{r.line, "addon at end of file"}
	}
	return j, nil
}

// directive reads one directive; r.pos is at the date.
func (r *jreader) directive(d *JDir) error {
	start := r.line
	r.pos += 10
	for !r.eof() && (r.s[r.pos] == ' ' || r.s[r.pos] == '\t') {
		r.pos++
	}
	if r.eof() {
		return &ReadError{start, "date without directive"}
	}
	if r.s[r.pos] == '"' {
		d.Kind = "txn"
		r.pos++
		end := strings.IndexByte(r.s[r.pos:], '"')
		if end < 0 {
			return &ReadError{start, "unterminated description"}
		}
		d.Desc = r.s[r.pos : r.pos+end]
		r.line += strings.Count(d.Desc, "\n")
		r.pos += end + 1
		if rest := r.nextLine(); !isBlank(rest) {
			return &ReadError{r.line - 1, fmt.Sprintf("text after the description: %q", trunc(rest, 60))}
		}
		for !r.eof() {
			l := r.restOfLine()
			if isBlank(l) {
				break
			}
			if l[0] == ' ' || l[0] == '\t' || l[0] == '\r' {
				return &ReadError{r.line, "indented line inside a transaction"}
			}
			f := fieldsWS(l)
			if len(f) != 4 {
				return &ReadError{r.line, fmt.Sprintf("booking with %d fields: %q", len(f), trunc(l, 80))}
			}
			q, ok := parseQty(f[2])
			if !validAccount(f[0]) || !validAccount(f[1]) || !ok || !validName(f[3]) {
				return &ReadError{r.line, fmt.Sprintf("malformed booking: %q", trunc(l, 80))}
			}
			d.Bookings = append(d.Bookings, JBooking{f[0], f[1], q, f[3]})
			r.nextLine()
		}
		if len(d.Bookings) == 0 {
			return &ReadError{start, "transaction without bookings"}
		}
		return nil
	}
	l := r.nextLine()
	f := fieldsWS(l)
	if len(f) == 0 {
		return &ReadError{start, "date without directive"}
	}
	switch f[0] {
	case "open", "close":
		if len(f) != 2 || !validAccount(f[1]) {
			return &ReadError{start, "malformed " + f[0]}
		}
		d.Kind, d.Account = f[0], f[1]
	case "price":
		if len(f) != 4 || !validName(f[1]) || !validName(f[3]) {
			return &ReadError{start, "malformed price"}
		}
		p, ok := parseQty(f[2])
		if !ok {
			return &ReadError{start, "malformed price"}
		}
		d.Kind, d.Commodity, d.Price, d.Target = "price", f[1], p, f[3]
	case "balance":
		d.Kind = "balance"
		if len(f) == 4 {
			b, ok := parseBal(f[1:])
			if !ok {
				return &ReadError{start, "malformed balance"}
			}
			d.Balances = []JBalance{b}
			return nil
		}
		if len(f) != 1 {
			return &ReadError{start, "malformed balance"}
		}
		for !r.eof() {
			l := r.restOfLine()
			if isBlank(l) {
				break
			}
			b, ok := parseBal(fieldsWS(l))
			if !ok || l[0] == ' ' || l[0] == '\t' {
				return &ReadError{r.line, "malformed balance line"}
			}
			d.Balances = append(d.Balances, b)
			r.nextLine()
		}
		if len(d.Balances) == 0 {
			return &ReadError{start, "empty balance block"}
		}
	default:
		return &ReadError{start, fmt.Sprintf("unknown directive %q", trunc(f[0], 30))}
	}
	return nil
}

func parseBal(f []string) (JBalance, bool) {
	if len(f) != 3 || !validAccount(f[0]) || !validName(f[2]) {
		return JBalance{}, false
	}
	q, ok := parseQty(f[1])
	if !ok {
		return JBalance{}, false
	}
	return JBalance{f[0], q, f[2]}, true
}

func trunc(s string, n int) string {
	if len(s) <= n {
		return s
	}
	return s[:n] + "..."
}

// ------------------------------------------------------------------ views

// Effects returns commodity -> net effect of the transaction on account.
// touched lists the commodities with at least one booking on the account (so
// that a zero-amount booking still shows up as an entry).
func (d *JDir) Effects(account string) map[string]*big.Rat {
	m := map[string]*big.Rat{}
	add := func(c string, q *big.Rat) {
		if m[c] == nil {
			m[c] = new(big.Rat)
		}
		m[c].Add(m[c], q)
	}
	for _, b := range d.Bookings {
		if b.Debit == account {
			add(b.Commodity, b.Qty)
		}
		if b.Credit == account {
			add(b.Commodity, new(big.Rat).Neg(b.Qty))
		}
	}
	return m
}

// AccountsUsed returns the sorted set of accounts in bookings and assertions.
func (j *Journal) AccountsUsed() []string {
	set := map[string]bool{}
	for _, d := range j.Dirs {
		for _, b := range d.Bookings {
			set[b.Credit], set[b.Debit] = true, true
		}
		for _, b := range d.Balances {
			set[b.Account] = true
		}
		if d.Account != "" {
			set[d.Account] = true
		}
	}
	var res []string
	for a := range set {
		res = append(res, a)
	}
	sort.Strings(res)
	return res
}

// MinDate returns the earliest directive date.
func (j *Journal) MinDate() (cal.Day, bool) {
	if len(j.Dirs) == 0 {
		return 0, false
	}
	m := j.Dirs[0].Date
	for _, d := range j.Dirs {
		if d.Date < m {
			m = d.Date
		}
	}
	return m, true
}

// Canon renders a directive canonically (exact values, no layout), for
// multiset comparison of two readings.
func (d *JDir) Canon() string {
	var b strings.Builder
	fmt.Fprintf(&b, "%s %s", d.Date, d.Kind)
	switch d.Kind {
	case "txn":
		fmt.Fprintf(&b, " %q", d.Desc)
		if d.HasPerf {
			fmt.Fprintf(&b, " perf(%s)", strings.Join(d.Targets, ","))
		}
		for _, bk := range d.Bookings {
			fmt.Fprintf(&b, " | %s %s %s %s", bk.Credit, bk.Debit, bk.Qty.RatString(), bk.Commodity)
		}
	case "open", "close":
		b.WriteString(" " + d.Account)
	case "balance":
		for _, bl := range d.Balances {
			fmt.Fprintf(&b, " | %s %s %s", bl.Account, bl.Qty.RatString(), bl.Commodity)
		}
	case "price":
		fmt.Fprintf(&b, " %s %s %s", d.Commodity, d.Price.RatString(), d.Target)
	}
	return b.String()
}

// EffectKey renders date + effects canonically: "2020-01-02 CHF:-12.5 EUR:3".
func EffectKey(date cal.Day, m map[string]*big.Rat) string {
	var cs []string
	for c := range m {
		cs = append(cs, c)
	}
	sort.Strings(cs)
	var b strings.Builder
	b.WriteString(date.String())
	for _, c := range cs {
		fmt.Fprintf(&b, " %s:%s", c, RatDec(m[c]))
	}
	return b.String()
}

// RatDec renders a rational as a decimal string when it is one, else as a/b.
func RatDec(q *big.Rat) string {
	if q.IsInt() {
		return q.Num().String()
	}
	for p := 1; p <= 30; p++ {
		s := q.FloatString(p)
		if back, ok := new(big.Rat).SetString(s); ok && back.Cmp(q) == 0 {
			return s
		}
	}
	return q.RatString()
}
