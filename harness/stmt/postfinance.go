package stmt

import (
	"fmt"
	"math/rand"

	"kverif/cal"
)

// ch.postfinance — e-finance CSV export: UTF-8 with BOM, `;`-separated,
// `key:;="value"` preamble, 8-column rows newest first, `Disclaimer:` tail.
type postfinance struct{}

func init() { Register(postfinance{}) }

func (postfinance) Name() string  { return "ch.postfinance" }
func (postfinance) Short() string { return "postfinance" }
func (postfinance) Deviations() string {
	return "preamble (`key:;=\"value\"`), column header, blank lines and the `Disclaimer:` tail: 0 transactions; every 8-column row: 1"
}

func (postfinance) Generate(r *rand.Rand, o Opts) *Statement {
	st := &Statement{Importer: "ch.postfinance", Short: "postfinance", FileName: "export.csv"}
	st.Account = []string{"Assets:Postfinance", "Assets:Konten:PostFinance:Privat", "Assets:Bank:Zürich"}[r.Intn(3)]
	st.Flags = []string{"--account", st.Account}
	st.Accounts = []string{st.Account, "Expenses:TBD"}
	tg := &textGen{r: r, o: o, st: st}
	fb := &fileBuilder{eol: randEOL(r, st)}
	cur := "CHF"
	if r.Intn(5) == 0 {
		cur = []string{"EUR", "USD"}[r.Intn(2)]
		st.feature("foreign-currency-account")
	}
	fb.line("\ufeffBuchungsart:;=\"Alle Buchungen\"")
	fb.line(fmt.Sprintf("Konto:;=\"CH%02d0900000%011d\"", r.Intn(100), r.Int63n(100000000000)))
	fb.line(fmt.Sprintf("Währung:;=\"%s\"", cur))
	fb.line("")
	fb.line(fmt.Sprintf("Buchungsdatum;Avisierungstext;Gutschrift in %s;Lastschrift in %s;Label;Kategorie;Valuta;Saldo in %s", cur, cur, cur))
	fb.line("")
	st.OtherRows += 4

	n := rowCount(r)
	type row struct {
		day, valuta      cal.Day
		text, label, cat string
		amt              Dec // signed
		bal              Dec
	}
	rows := make([]row, n)
	day := randStart(r)
	bal := Cents(0)
	labels := []string{"", "", "", "foo", "Ferien 2022", "Haushalt"}
	cats := []string{"", "", "bar", "Lebensmittel", "Wohnen & Energie", "Übriges"}
	for i := range rows {
		day += cal.Day(r.Intn(3))
		a := randCentsOrZero(r, st)
		if r.Intn(4) != 0 {
			a = a.Neg()
		}
		bal = bal.Add(a)
		rw := row{day: day, valuta: day + cal.Day(r.Intn(2)), text: tg.free(), amt: a, bal: bal}
		rw.label, rw.cat = labels[r.Intn(len(labels))], cats[r.Intn(len(cats))]
		if o.Hostile && r.Intn(5) == 0 {
			rw.label = tg.free()
		}
		if r.Intn(4) == 0 {
			rw.text += " " // trailing blank as in the golden file
		}
		rows[i] = rw
	}
	short := r.Intn(2) == 0 // the golden file drops trailing zeros (-1139.6, -19)
	f := func(d Dec) string {
		if short {
			return d.Short()
		}
		return d.Fixed()
	}
	for i := n - 1; i >= 0; i-- { // newest first
		rw := rows[i]
		var cr, db string
		if rw.amt.V > 0 {
			cr = f(rw.amt)
			st.feature("credit")
		} else {
			db = f(rw.amt) // carries its minus sign
		}
		balS := f(rw.bal)
		if r.Intn(4) == 0 {
			balS = "" // same-day rows carry the balance only once
		}
		fb.line(csvLine(';', dmy(rw.day, "."), csvField(rw.text, ';', false), cr, db, csvField(rw.label, ';', false), csvField(rw.cat, ';', false), dmy(rw.valuta, "."), balS))
	}
	for i, rw := range rows {
		st.Txns = append(st.Txns, Txn{Date: rw.day, Import: eff(cur, rw.amt), Row: i, Note: "booking"})
		st.RowNotes = append(st.RowNotes, fmt.Sprintf("%s %s %s", rw.day, rw.amt.Fixed(), cur))
	}
	st.BookingRows = n
	fb.line("")
	fb.line("Disclaimer:")
	fb.line("Dies ist kein durch PostFinance AG erstelltes Dokument. PostFinance AG ist nicht verantwortlich für den Inhalt.")
	st.OtherRows += 2
	st.File = []byte(fb.String())
	return st
}
