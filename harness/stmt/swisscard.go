package stmt

import (
	"fmt"
	"math/rand"

	"kverif/cal"
)

// ch.swisscard — Swisscard CSV before mid 2023: `,`-separated, 11 columns,
// text cells quoted, amount `[-]CHF1'234.50`, newest first.
type swisscard struct{}

func init() { Register(swisscard{}) }

func (swisscard) Name() string  { return "ch.swisscard" }
func (swisscard) Short() string { return "swisscard" }
func (swisscard) Deviations() string {
	return "column header: 0 transactions; every 11-column row: 1 (credits carry `-CHF…` and flag C)"
}

func (swisscard) Generate(r *rand.Rand, o Opts) *Statement {
	st := &Statement{Importer: "ch.swisscard", Short: "swisscard", FileName: "swisscard.csv"}
	st.Account = []string{"Liabilities:CreditCard", "Liabilities:Swisscard:Amex", "Liabilities:Cashback1"}[r.Intn(3)]
	st.Flags = []string{"--account", st.Account}
	st.Accounts = []string{st.Account, "Expenses:TBD"}
	tg := &textGen{r: r, o: o, st: st, newlines: true}
	fb := &fileBuilder{eol: randEOL(r, st)}
	fb.line("Transaction Date, Posting Date, Card Number ,Billing Amount, Description, Merchant City , Merchant State , Merchant Zip , Reference Number , Debit/Credit Flag , SICMCC Code")
	st.OtherRows++
	n := rowCount(r)
	card := fmt.Sprintf("%04d", r.Intn(10000))
	type row struct {
		day  cal.Day
		line string
		e    Dec
	}
	var rows []row
	day := randStart(r)
	for i := 0; i < n; i++ {
		day += cal.Day(r.Intn(3))
		amt := randCentsOrZero(r, st)
		if amt.V >= 100000 {
			st.feature("thousands-separator")
		}
		desc := tg.free()
		credit := r.Intn(6) == 0
		a := "CHF" + amt.Group("'")
		flag := "D"
		e := amt.Neg()
		if credit {
			a, flag, e = "-CHF"+amt.Group("'"), "C", amt
			st.feature("credit")
		}
		city, state, zip, mcc := `""`, "", "", ""
		if !credit && r.Intn(4) != 0 {
			c := []string{"ZURICH", "town", "Genève", "BERN 3000"}[r.Intn(4)]
			if o.Hostile && r.Intn(4) == 0 {
				c = tg.free()
			}
			city, state, zip, mcc = csvField(c, ',', true), "CHE", fmt.Sprintf("%04d", 1000+r.Intn(9000)), fmt.Sprintf("%04d", r.Intn(10000))
		}
		ref := fmt.Sprintf(` "%d"`, r.Intn(100000))
		if r.Intn(10) == 0 {
			ref = ` ""`
		}
		line := csvLine(',', dmy(day, "."), dmy(day+cal.Day(r.Intn(3)), "."), card, a, csvField(desc, ',', true), city, state, zip, ref, flag, mcc)
		rows = append(rows, row{day, line, e})
		if r.Intn(12) == 0 {
			rows = append(rows, row{day, line, e}) // the same purchase twice: two rows, two transactions
			st.feature("duplicate-row")
		}
	}
	for i := len(rows) - 1; i >= 0; i-- {
		fb.line(rows[i].line)
	}
	for i, rw := range rows {
		st.Txns = append(st.Txns, Txn{Date: rw.day, Import: eff("CHF", rw.e), Row: i, Note: "booking"})
		st.RowNotes = append(st.RowNotes, fmt.Sprintf("%s %s CHF", rw.day, rw.e.Fixed()))
	}
	st.BookingRows = len(rows)
	st.File = []byte(fb.String())
	return st
}
