package stmt

import (
	"fmt"
	"math/rand"

	"kverif/cal"
)

// ch.cumulus — tabula CSV of the Cumulus Mastercard PDF statement.
//
//	Verbucht am,Beschreibung,Gutschrift CHF,Belastung CHF          (4-column header)
//	"",Saldovortrag letzte Rechnung,,1'234.56                      (carried balance: not a booking)
//	04.09.2020,Ihre LSV-Zahlung - Besten Dank,1'234.56,            (payment of the last bill: ignored by design, pinned by the golden file)
//	Einkaufs-Datum,Verbucht am,Beschreibung,Gutschrift CHF,Belastung CHF   (5-column header, repeated per PDF page)
//	22.08.2020,24.08.2020,Desc0,,12.34                             (booking)
//	"",,"FXComment1",,                                             (continuation of the previous description)
//	23.09.2020,Rundungskorrektur,0.02,                             (4-column booking)
type cumulus struct{}

func init() { Register(cumulus{}) }

func (cumulus) Name() string  { return "ch.cumulus" }
func (cumulus) Short() string { return "cumulus" }
func (cumulus) Deviations() string {
	return "continuation rows (\"\",,\"text\",,) extend the previous row's description: 0 transactions; header rows, `Saldovortrag letzte Rechnung` and the 4-column payment row `Ihre LSV-Zahlung` (dropped by the importer by design, pinned by its golden file): 0; `Rundungskorrektur` 4-column rows: 1"
}

func (cumulus) Generate(r *rand.Rand, o Opts) *Statement {
	st := &Statement{Importer: "ch.cumulus", Short: "cumulus", FileName: "statement.csv"}
	st.Account = []string{"Liabilities:Cumulus", "Liabilities:Karten:Cumulus2", "Liabilities:Crédit:Cumulus"}[r.Intn(3)]
	st.Flags = []string{"--account", st.Account}
	st.Accounts = []string{st.Account, "Expenses:TBD"}
	tg := &textGen{r: r, o: o, st: st, newlines: true}
	fb := &fileBuilder{eol: randEOL(r, st)}
	const h4 = "Verbucht am,Beschreibung,Gutschrift CHF,Belastung CHF"
	const h5 = "Einkaufs-Datum,Verbucht am,Beschreibung,Gutschrift CHF,Belastung CHF"

	start := randStart(r)
	n := rowCount(r)
	// preamble
	if r.Intn(4) != 0 {
		fb.line(h4)
		st.OtherRows++
		carried := randCents(r)
		fb.line(csvLine(',', `""`, "Saldovortrag letzte Rechnung", "", carried.Group("'")))
		st.OtherRows++
		if r.Intn(3) != 0 {
			fb.line(csvLine(',', dmy(start+cal.Day(r.Intn(5)), "."), "Ihre LSV-Zahlung - Besten Dank", carried.Group("'"), ""))
			st.OtherRows++
			st.feature("lsv-payment-row")
		}
	}
	fb.line(h5)
	st.OtherRows++
	day := start
	perPage := 5 + r.Intn(30)
	for i := 0; i < n; i++ {
		if i > 0 && i%perPage == 0 {
			fb.line(h5)
			st.OtherRows++
			st.feature("repeated-header")
		}
		day += cal.Day(r.Intn(3))
		booked := day + cal.Day(r.Intn(4))
		amt := randCentsOrZero(r, st)
		desc := tg.free()
		credit := r.Intn(7) == 0
		var cr, db string
		e := amt.Neg()
		if credit {
			cr, e = amt.Group("'"), amt
			st.feature("credit")
		} else {
			db = amt.Group("'")
		}
		if amt.V >= 100000 {
			st.feature("thousands-separator")
		}
		fb.line(csvLine(',', dmy(day, "."), dmy(booked, "."), csvField(desc, ',', false), cr, db))
		st.Txns = append(st.Txns, Txn{Date: day, Import: eff("CHF", e), Row: st.BookingRows, Note: "purchase"})
		st.RowNotes = append(st.RowNotes, fmt.Sprintf("%s %s CHF", day, e.Fixed()))
		st.BookingRows++
		if r.Intn(6) == 0 {
			fx := fmt.Sprintf("%s %s Kurs 1.%04d vom %s", otherCurrency(r, "CHF"), randCents(r).Fixed(), r.Intn(10000), dmy(day, "."))
			if o.Hostile && r.Intn(2) == 0 {
				fx = tg.free()
			}
			fb.line(csvLine(',', `""`, "", csvField(fx, ',', true), "", ""))
			st.OtherRows++
			st.feature("fx-continuation")
		}
	}
	if r.Intn(3) == 0 {
		fb.line(h4)
		st.OtherRows++
		day += cal.Day(r.Intn(3))
		amt := Cents(int64(1 + r.Intn(4)))
		e := amt
		var cr, db string
		if r.Intn(2) == 0 {
			cr = amt.Fixed()
		} else {
			db, e = amt.Fixed(), amt.Neg()
		}
		fb.line(csvLine(',', dmy(day, "."), "Rundungskorrektur", cr, db))
		st.Txns = append(st.Txns, Txn{Date: day, Import: eff("CHF", e), Row: st.BookingRows, Note: "rounding"})
		st.RowNotes = append(st.RowNotes, fmt.Sprintf("%s %s CHF (Rundungskorrektur)", day, e.Fixed()))
		st.BookingRows++
		st.feature("rounding-row")
	}
	st.File = []byte(fb.String())
	return st
}
