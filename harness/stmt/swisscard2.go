package stmt

import (
	"fmt"
	"math/rand"

	"kverif/cal"
)

// ch.swisscard2 — Swisscard CSV from mid 2023: `,`-separated, 12 columns, every
// cell quoted, plain signed amounts (credits negative), newest first.
type swisscard2 struct{}

func init() { Register(swisscard2{}) }

func (swisscard2) Name() string  { return "ch.swisscard2" }
func (swisscard2) Short() string { return "swisscard2" }
func (swisscard2) Deviations() string {
	return "column header: 0 transactions; every 12-column row: 1 (only rows with status `Gebucht` are generated)"
}

func (swisscard2) Generate(r *rand.Rand, o Opts) *Statement {
	st := &Statement{Importer: "ch.swisscard2", Short: "swisscard2", FileName: "swisscard2.csv"}
	st.Account = []string{"Liabilities:CreditCard", "Liabilities:Swisscard:Amex", "Liabilities:Karte7"}[r.Intn(3)]
	st.Flags = []string{"--account", st.Account}
	st.Accounts = []string{st.Account, "Expenses:TBD"}
	tg := &textGen{r: r, o: o, st: st, newlines: true}
	fb := &fileBuilder{eol: randEOL(r, st)}
	fb.line("Transaktionsdatum,Beschreibung,Händler,Kartennummer,Währung,Betrag,Fremdwährung,Betrag in Fremdwährung,Debit/Kredit,Status,Händlerkategorie,Registrierte Kategorie")
	st.OtherRows++
	cur := "CHF"
	if r.Intn(10) == 0 {
		cur = "EUR"
		st.feature("eur-card")
	}
	cats := [][2]string{{"Familie & Haushalt", "FAMILY CLOTHING STORES"}, {"Auto", "AUTOMOBILE TRUCK DEALERS, SALES, SERVICE"}, {"Lebensmittel", "DEPARTMENT STORES"},
		{"Gesundheit und Schönheit", "DRUG STORES and Pharmacies"}, {"", ""}}
	n := rowCount(r)
	type row struct {
		day  cal.Day
		line string
		e    Dec
	}
	var rows []row
	day := randStart(r)
	q := func(s string) string { return csvField(s, ',', true) }
	for i := 0; i < n; i++ {
		day += cal.Day(r.Intn(3))
		amt := randCentsOrZero(r, st)
		if amt.V >= 10000000 {
			amt = Cents(1 + amt.V%10000000) // no group separator is known for this format
		}
		desc, merchant := tg.free(), tg.free()
		cat := cats[r.Intn(len(cats))]
		betrag, dk := amt.Fixed(), "Belastung"
		e := amt.Neg()
		if r.Intn(6) == 0 {
			betrag, dk, e = amt.Neg().Fixed(), "Gutschrift", amt
			st.feature("credit")
		}
		fc, fa := "", ""
		if r.Intn(6) == 0 {
			fc, fa = otherCurrency(r, cur), randCents(r).Fixed()
			st.feature("foreign-purchase")
		}
		line := csvLine(',', q(dmy(day, ".")), q(desc), q(merchant), q(fmt.Sprintf("%02d", r.Intn(100))), q(cur), q(betrag), q(fc), q(fa), q(dk), q("Gebucht"), q(cat[0]), q(cat[1]))
		rows = append(rows, row{day, line, e})
	}
	for i := len(rows) - 1; i >= 0; i-- {
		fb.line(rows[i].line)
	}
	for i, rw := range rows {
		st.Txns = append(st.Txns, Txn{Date: rw.day, Import: eff(cur, rw.e), Row: i, Note: "booking"})
		st.RowNotes = append(st.RowNotes, fmt.Sprintf("%s %s %s", rw.day, rw.e.Fixed(), cur))
	}
	st.BookingRows = n
	st.File = []byte(fb.String())
	return st
}
