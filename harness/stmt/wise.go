package stmt

import (
	"fmt"
	"math/big"
	"math/rand"

	"kverif/cal"
)

// com.wise — Wise transaction export: `,`-separated, 18 columns, cells with
// blanks / punctuation quoted, ISO timestamps.
type wise struct{}

func init() { Register(wise{}) }

func (wise) Name() string  { return "com.wise" }
func (wise) Short() string { return "wise" }
func (wise) Deviations() string {
	return "column header, CANCELLED rows and NEUTRAL rows within one currency: 0 transactions; same-currency OUT/IN rows: 1 (effect ∓source amount − fee); cross-currency NEUTRAL rows (conversion between own balances): 1 transaction with two legs (−source amount − fee, +target amount); cross-currency OUT rows (card spend in a foreign currency): 2 transactions — the conversion and the spend of the target amount in the target currency. Cross-currency IN rows are not generated (the statement format does not say which balance receives what)"
}

func wiseField(s string) string {
	plain := s != ""
	for _, c := range s {
		if !(c >= 'a' && c <= 'z' || c >= 'A' && c <= 'Z' || c >= '0' && c <= '9' || c == '.' || c == '-') {
			plain = false
		}
	}
	if plain || s == "" {
		return s
	}
	return csvField(s, ',', true)
}

func (wise) Generate(r *rand.Rand, o Opts) *Statement {
	st := &Statement{Importer: "com.wise", Short: "wise", FileName: "wise.csv"}
	st.Account = []string{"Assets:Accounts:Wise", "Assets:Wise", "Assets:Konten:Wise:Multi"}[r.Intn(3)]
	fee := []string{"Expenses:Fees", "Expenses:Bank:Gebühren"}[r.Intn(2)]
	trading := []string{"Expenses:Trading", "Income:FX"}[r.Intn(2)]
	st.Flags = []string{"--account", st.Account, "--fee", fee, "--trading", trading}
	st.Accounts = []string{st.Account, "Expenses:TBD", fee, trading}
	tg := &textGen{r: r, o: o, st: st, newlines: true}
	fb := &fileBuilder{eol: randEOL(r, st)}
	fb.line(`ID,Status,Direction,"Created on","Finished on","Source fee amount","Source fee currency","Target fee amount","Target fee currency","Source name","Source amount (after fees)","Source currency","Target name","Target amount (after fees)","Target currency","Exchange rate",Reference,Batch`)
	st.OtherRows++
	owner := []string{"Rocky Balboa", "Anna Müller-Meier", "J. Doe"}[r.Intn(3)]
	home := []string{"CHF", "EUR", "USD"}[r.Intn(3)]
	n := rowCount(r)
	day := randStart(r)
	var lines []string
	amt2 := func() Dec {
		a := randCents(r)
		if a.V >= 10000000 {
			a = Cents(1 + a.V%10000000)
		}
		return a
	}
	for i := 0; i < n; i++ {
		day += cal.Day(r.Intn(3))
		created := fmt.Sprintf("%s %s", day, hms(r))
		finished := created
		if r.Intn(4) == 0 {
			finished = fmt.Sprintf("%s %s", day+cal.Day(1+r.Intn(2)), hms(r))
			st.feature("finished-later")
		}
		id := fmt.Sprintf("%d", 10+r.Intn(100000))
		src := home
		if r.Intn(4) == 0 {
			src = otherCurrency(r, "")
		}
		a := amt2()
		f := Cents(0)
		if r.Intn(3) == 0 {
			f = Cents(int64(1 + r.Intn(600)))
			st.feature("fee")
		}
		target := tg.free()
		ref := ""
		if r.Intn(4) == 0 {
			ref = tg.free()
		}
		// the fee can be charged on the target side instead of the source side
		// (separate columns); on a same-currency row the effect is the same
		asTargetFee := false
		rec := func(idp, status, dir, feeAmt, feeCur, srcAmt, srcCur, tgtName, tgtAmt, tgtCur, rate string) string {
			sfa, sfc, tfa, tfc := feeAmt, feeCur, "", ""
			if asTargetFee {
				sfa, sfc, tfa, tfc = "", "", feeAmt, feeCur
			}
			return csvLine(',', wiseField(idp+"-"+id), status, dir, wiseField(created), wiseField(finished), sfa, sfc, tfa, tfc, wiseField(owner), srcAmt, srcCur, wiseField(tgtName), tgtAmt, tgtCur, rate, wiseField(ref), "")
		}
		note := ""
		switch k := r.Intn(20); {
		case k == 0: // cancelled card payment
			lines = append(lines, rec("CARD_TRANSACTION", "CANCELLED", "OUT", "", "", a.Fixed(), src, target, a.Fixed(), src, "1"))
			st.OtherRows++
			st.feature("cancelled-row")
			continue
		case k == 1: // neutral within one currency (move between own jars)
			lines = append(lines, rec("BALANCE_TRANSACTION", "COMPLETED", "NEUTRAL", "0.00", src, a.Fixed(), src, owner, a.Fixed(), src, "1.0"))
			st.OtherRows++
			st.feature("neutral-same-currency-row")
			continue
		case k <= 3: // conversion between own balances
			tc := otherCurrency(r, src)
			ta := amt2()
			lines = append(lines, rec("BALANCE_TRANSACTION", "COMPLETED", "NEUTRAL", f.Fixed(), src, a.Fixed(), src, owner, ta.Fixed(), tc, fmt.Sprintf("%d.%08d", r.Intn(3), r.Intn(100000000))))
			st.Txns = append(st.Txns, Txn{Date: day, Import: eff(src, a.Neg(), src, f.Neg(), tc, ta), Row: st.BookingRows, Note: "conversion",
				Others: wiseOthers(fee, f, src, trading, a, src, ta, tc, "", Dec{}, "")})
			note = fmt.Sprintf("%s convert %s %s (+fee %s) to %s %s", day, a.Fixed(), src, f.Fixed(), ta.Fixed(), tc)
			st.feature("conversion-row")
		case k <= 6: // card spend in a foreign currency: conversion + spend
			tc := otherCurrency(r, src)
			ta := amt2()
			lines = append(lines, rec("CARD_TRANSACTION", "COMPLETED", "OUT", f.Fixed(), src, a.Fixed(), src, target, ta.Fixed(), tc, fmt.Sprintf("%d.%08d", r.Intn(3), r.Intn(100000000))))
			st.Txns = append(st.Txns,
				Txn{Date: day, Import: eff(src, a.Neg(), src, f.Neg(), tc, ta), Row: st.BookingRows, Note: "conversion of a foreign spend",
					Others: wiseOthers(fee, f, src, trading, a, src, ta, tc, "", Dec{}, "")},
				Txn{Date: day, Import: eff(tc, ta.Neg()), Row: st.BookingRows, Note: "foreign spend",
					Others: map[string]map[string]*big.Rat{"Expenses:TBD": eff(tc, ta)}})
			note = fmt.Sprintf("%s spend %s %s paid with %s %s (+fee %s): 2 transactions", day, ta.Fixed(), tc, a.Fixed(), src, f.Fixed())
			st.feature("foreign-spend-row")
		case k <= 9: // incoming transfer
			if !f.IsZero() && r.Intn(2) == 0 {
				asTargetFee = true
				st.feature("target-fee")
			}
			lines = append(lines, rec("TRANSFER", "COMPLETED", "IN", f.Fixed(), src, a.Fixed(), src, owner, a.Fixed(), src, "1.0"))
			st.Txns = append(st.Txns, Txn{Date: day, Import: eff(src, a, src, f.Neg()), Row: st.BookingRows, Note: "transfer in",
				Others: wiseOthers(fee, f, src, "", Dec{}, "", Dec{}, "", "Expenses:TBD", a.Neg(), src)})
			note = fmt.Sprintf("%s +%s %s (fee %s)", day, a.Fixed(), src, f.Fixed())
			st.feature("in-row")
		default: // card payment / outgoing transfer in the balance currency
			kind := []string{"CARD_TRANSACTION", "TRANSFER"}[r.Intn(2)]
			feeS := f.Fixed()
			rate := []string{"1.00000000", "1.0", "1"}[r.Intn(3)]
			if !f.IsZero() && r.Intn(3) == 0 {
				asTargetFee = true
				st.feature("target-fee")
			}
			lines = append(lines, rec(kind, "COMPLETED", "OUT", feeS, src, a.Fixed(), src, target, a.Fixed(), src, rate))
			st.Txns = append(st.Txns, Txn{Date: day, Import: eff(src, a.Neg(), src, f.Neg()), Row: st.BookingRows, Note: "spend",
				Others: wiseOthers(fee, f, src, "", Dec{}, "", Dec{}, "", "Expenses:TBD", a, src)})
			note = fmt.Sprintf("%s -%s %s (fee %s)", day, a.Fixed(), src, f.Fixed())
		}
		st.RowNotes = append(st.RowNotes, note)
		st.BookingRows++
	}
	// the export is not ordered by date (see the golden file)
	r.Shuffle(len(lines), func(a, b int) { lines[a], lines[b] = lines[b], lines[a] })
	for _, l := range lines {
		fb.line(l)
	}
	st.File = []byte(fb.String())
	return st
}

func wiseOthers(feeAcc string, f Dec, fc string, trading string, sa Dec, sc string, ta Dec, tc string, tbd string, tbdAmt Dec, tbdCur string) map[string]map[string]*big.Rat {
	m := map[string]map[string]*big.Rat{}
	if !f.IsZero() {
		m[feeAcc] = eff(fc, f)
	}
	if trading != "" {
		m[trading] = eff(sc, sa, tc, ta.Neg())
	}
	if tbd != "" {
		m[tbd] = eff(tbdCur, tbdAmt)
	}
	return m
}
