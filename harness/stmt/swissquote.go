package stmt

import (
	"fmt"
	"math/rand"

	"kverif/cal"
)

// ch.swissquote — transactions overview: `;`-separated, 13 columns,
// `dd-mm-yyyy hh:mm:ss`, newest first, `'` group separators, one currency per
// row, forex as two consecutive rows.
type swissquote struct{}

func init() { Register(swissquote{}) }

func (swissquote) Name() string  { return "ch.swissquote" }
func (swissquote) Short() string { return "swissquote" }
func (swissquote) Deviations() string {
	return "column header: 0 transactions; two consecutive forex rows (Forex-Gutschrift + Forex-Belastung, or the `Fx-… Comp.` pair) form ONE transaction with both currency legs on the import account; Kauf/Verkauf rows: 1 transaction with a cash leg (Nettobetrag) and a security leg (±Anzahl of the symbol); every other row: 1 transaction with effect Nettobetrag in the row currency"
}

func (swissquote) Generate(r *rand.Rand, o Opts) *Statement {
	st := &Statement{Importer: "ch.swissquote", Short: "swissquote", FileName: "transactions.csv"}
	st.Account = []string{"Assets:Swissquote", "Assets:Broker:Swissquote:Depot1"}[r.Intn(2)]
	div, fee, tax, interest, trading := "Income:Dividends", "Expenses:Fees", "Expenses:Tax", "Income:Interest", "Expenses:Trading"
	if r.Intn(2) == 0 {
		div, fee, tax, interest, trading = "Income:Erträge:Dividenden", "Expenses:Gebühren", "Expenses:Steuern:Quellensteuer", "Income:Zinsen", "Income:Trading"
	}
	st.Flags = []string{"--account", st.Account, "--dividend", div, "--fee", fee, "--interest", interest, "--tax", tax, "--trading", trading}
	st.Accounts = []string{st.Account, "Expenses:TBD", div, fee, tax, interest, trading}
	tg := &textGen{r: r, o: o, st: st}
	fb := &fileBuilder{eol: randEOL(r, st)}
	fb.line("Datum;Auftrag #;Transaktionen;Symbol;Name;ISIN;Anzahl;Stückpreis;Kosten;Aufgelaufene Zinsen;Nettobetrag;Saldo;Währung")
	st.OtherRows++
	n := rowCount(r)
	day := randStart(r)
	bal := map[string]Dec{}
	var blocks [][]string // one block per booking unit, oldest first
	g := func(d Dec) string { return d.Group("'") }
	ts := func(d cal.Day) string { return dmy(d, "-") + " " + hms(r) }
	q := func(s string) string { return csvField(s, ';', false) }
	symbol := func() string {
		s := tickers[r.Intn(len(tickers))]
		if r.Intn(200) == 0 {
			st.HasOddSymbol = true
			if o.NoOddSymbols {
				s = "BRKB"
			} else {
				s = "BRK.B"
				st.feature("symbol-with-dot")
			}
		}
		return s
	}
	small := func() Dec {
		a := randCents(r)
		if a.V >= 100000000 {
			a = Cents(1 + a.V%100000000)
		}
		return a
	}
	for i := 0; i < n; i++ {
		day += cal.Day(r.Intn(4))
		cur := []string{"CHF", "CHF", "USD", "EUR"}[r.Intn(4)]
		row := func(when, order, typ, sym, name, is string, qty string, price, cost Dec, net Dec, c string) string {
			bal[c] = bal[c].Add(net)
			return csvLine(';', when, order, typ, sym, q(name), is, qty, g(price), g(cost), "0.00", g(net), g(bal[c]), c)
		}
		var note string
		switch k := r.Intn(20); {
		case k <= 4: // Kauf / Verkauf
			sym, name, is := symbol(), tg.free(), isin(r)
			qn := int64(1 + r.Intn(300))
			qty := fmt.Sprintf("%d.0", qn)
			qd := D(qn, 0)
			if r.Intn(6) == 0 {
				qd = D(qn*10+5, 1)
				qty = qd.Fixed()
				st.feature("fractional-quantity")
			}
			price := Cents(int64(100 + r.Intn(50000)))
			if r.Intn(6) == 0 {
				price = Cents(int64(1 + r.Intn(150))) // penny stock: the fee can exceed the gross amount
				st.feature("penny-stock")
			}
			gross := Dec{price.V * qd.V, 2 + qd.S} // exact
			for gross.S > 2 && gross.V%10 == 0 {
				gross = Dec{gross.V / 10, gross.S - 1}
			}
			if gross.S > 2 { // keep cash amounts at two decimals like the bank does
				gross = Cents(gross.V / pow10(gross.S-2))
			}
			cost := Cents(int64(r.Intn(5000)))
			order := fmt.Sprintf("%08d", r.Intn(100000000))
			if r.Intn(3) != 0 {
				net := gross.Add(cost).Neg()
				blocks = append(blocks, []string{row(ts(day), order, "Kauf", sym, name, is, qty, price, cost, net, cur)})
				st.Txns = append(st.Txns, Txn{Date: day, Import: eff(cur, net, sym, qd), Row: st.BookingRows, Note: "Kauf"})
				note = fmt.Sprintf("%s Kauf %s %s net %s %s", day, qty, sym, net.Fixed(), cur)
			} else {
				net := gross.Sub(cost)
				if net.V == 0 {
					cost = Cents(0)
					net = gross
				}
				if net.V < 0 {
					st.feature("sale-with-negative-net-amount")
				}
				blocks = append(blocks, []string{row(ts(day), order, "Verkauf", sym, name, is, qty, price, cost, net, cur)})
				st.Txns = append(st.Txns, Txn{Date: day, Import: eff(cur, net, sym, qd.Neg()), Row: st.BookingRows, Note: "Verkauf"})
				note = fmt.Sprintf("%s Verkauf %s %s net %s %s", day, qty, sym, net.Fixed(), cur)
			}
			st.feature("trade-row")
		case k <= 7: // forex pair
			oc := otherCurrency(r, cur)
			x, y := small(), small()
			when := ts(day)
			a, b := "Forex-Gutschrift", "Forex-Belastung"
			if r.Intn(4) == 0 {
				a, b = "Fx-Gutschrift Comp.", "Fx-Belastung Comp."
			}
			// oldest first inside the block; the file is written newest first, so
			// the credit row comes first in the file as in the golden input
			blocks = append(blocks, []string{
				row(when, "00000000", b, "", "", "", "1.0", y, Cents(0), y.Neg(), oc),
				row(when, "00000000", a, "", "", "", "1.0", x, Cents(0), x, cur),
			})
			st.Txns = append(st.Txns, Txn{Date: day, Import: eff(cur, x, oc, y.Neg()), Row: st.BookingRows, Note: "forex pair"})
			note = fmt.Sprintf("%s forex +%s %s / -%s %s (2 rows)", day, x.Fixed(), cur, y.Fixed(), oc)
			st.OtherRows++ // the second row of the pair yields no transaction of its own
			st.feature("forex-pair")
		case k <= 10: // dividend-like
			typ := []string{"Dividende", "Dividende", "Capital Gain", "Kapitalrückzahlung"}[r.Intn(4)]
			sym, name, is := symbol(), tg.free(), isin(r)
			gross := small()
			taxAmt := Cents(0)
			if r.Intn(2) == 0 {
				taxAmt = Cents(gross.V * 35 / 100)
				st.feature("withholding-tax")
			}
			net := gross.Sub(taxAmt)
			blocks = append(blocks, []string{row(ts(day), "00000000", typ, sym, name, is, "1.0", gross, taxAmt, net, cur)})
			st.Txns = append(st.Txns, Txn{Date: day, Import: eff(cur, net), Row: st.BookingRows, Note: typ})
			note = fmt.Sprintf("%s %s %s net %s %s", day, typ, sym, net.Fixed(), cur)
			st.feature("dividend-row")
		case k == 11: // custody fees
			base := small()
			vat := Cents(base.V * 77 / 1000)
			net := base.Add(vat).Neg()
			blocks = append(blocks, []string{row(ts(day), "00000000", "Depotgebühren", "", "", "", "1.0", base, vat, net, cur)})
			st.Txns = append(st.Txns, Txn{Date: day, Import: eff(cur, net), Row: st.BookingRows, Note: "Depotgebühren"})
			note = fmt.Sprintf("%s Depotgebühren %s %s", day, net.Fixed(), cur)
			st.feature("custody-fee-row")
		case k <= 14: // money transfer
			typ := []string{"Einzahlung", "Vergütung", "Auszahlung", "Belastung"}[r.Intn(4)]
			a := small()
			net := a
			if typ == "Auszahlung" || typ == "Belastung" {
				net = a.Neg()
			}
			blocks = append(blocks, []string{row(ts(day), "00000000", typ, "", "", "", "1.0", a, Cents(0), net, cur)})
			st.Txns = append(st.Txns, Txn{Date: day, Import: eff(cur, net), Row: st.BookingRows, Note: typ})
			note = fmt.Sprintf("%s %s %s %s", day, typ, net.Fixed(), cur)
			st.feature("transfer-row")
		case k <= 16: // interest
			a := Cents(int64(1 + r.Intn(5000)))
			net := a
			if r.Intn(3) == 0 {
				net = a.Neg()
			}
			blocks = append(blocks, []string{row(ts(day), "00000000", "Zins", "", "", "", "1.0", a, Cents(0), net, cur)})
			st.Txns = append(st.Txns, Txn{Date: day, Import: eff(cur, net), Row: st.BookingRows, Note: "Zins"})
			note = fmt.Sprintf("%s Zins %s %s", day, net.Fixed(), cur)
			st.feature("interest-row")
		default: // any other transaction type
			typ := []string{"Spesen Steuerauszug", "Berichtigung Börsengeb.", "Rückvergütung", "Gebühr Titellieferung", "Stempelsteuer"}[r.Intn(5)]
			a := small()
			net := a.Neg()
			if typ == "Rückvergütung" {
				net = a
			}
			blocks = append(blocks, []string{row(ts(day), "00000000", typ, "", "", "", "1.0", a, Cents(0), net, cur)})
			st.Txns = append(st.Txns, Txn{Date: day, Import: eff(cur, net), Row: st.BookingRows, Note: "other: " + typ})
			note = fmt.Sprintf("%s %s %s %s", day, typ, net.Fixed(), cur)
			st.feature("other-row")
		}
		st.RowNotes = append(st.RowNotes, note)
		st.BookingRows++
	}
	for i := len(blocks) - 1; i >= 0; i-- {
		for j := len(blocks[i]) - 1; j >= 0; j-- {
			fb.line(blocks[i][j])
		}
	}
	if r.Intn(2) == 0 {
		fb.line("") // the export ends with an empty line
	}
	st.File = []byte(fb.String())
	return st
}
