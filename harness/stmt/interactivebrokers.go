package stmt

import (
	"fmt"
	"math/big"
	"math/rand"
	"sort"
	"strings"

	"kverif/cal"
)

// us.interactivebrokers — activity statement CSV: one section per line prefix
// (`Statement`, `Account Information`, `Open Positions`, `Forex Balances`,
// `Trades`, `Deposits & Withdrawals`, `Dividends`, `Withholding Tax`,
// `Interest`), each with `Header` / `Data` / `SubTotal` / `Total` lines, `,`
// group separators in quoted cells, `yyyy-mm-dd, hh:mm:ss` trade timestamps.
//
// All cash amounts and quantities are generated with at most two decimals: the
// importer rounds several columns to two decimals, which the statement of the
// property does not speak about.
type ibkr struct{}

func init() { Register(ibkr{}) }

func (ibkr) Name() string  { return "us.interactivebrokers" }
func (ibkr) Short() string { return "interactivebrokers" }
func (ibkr) Deviations() string {
	return "`Header`, `SubTotal`, `Total` lines and the `Statement` / `Account Information` sections: 0 transactions; stock trade: 1 transaction with the security leg (+quantity) and the cash leg (proceeds + commission); forex trade (symbol `AAA.BBB`): 1 transaction with legs quantity AAA, proceeds BBB and commission in the base currency; deposit/withdrawal, dividend, withholding tax, interest rows: 1 each; `Open Positions` summary rows and `Forex Balances` rows: one balance assertion each at the statement's end date"
}

// ibNum renders with `,` group separators, CSV-quoted when a separator occurs.
func ibNum(d Dec, short bool) string {
	s := d.Group(",")
	if short && strings.Contains(s, ".") {
		s = strings.TrimSuffix(strings.TrimRight(s, "0"), ".")
	}
	return csvField(s, ',', false)
}

func (ibkr) Generate(r *rand.Rand, o Opts) *Statement {
	st := &Statement{Importer: "us.interactivebrokers", Short: "interactivebrokers", FileName: "activity.csv"}
	st.Account = []string{"Assets:IB", "Assets:Broker:InteractiveBrokers:U1234567"}[r.Intn(2)]
	div, fee, tax, interest, trading := "Income:Dividends", "Expenses:Fees", "Expenses:Tax", "Expenses:Interest", "Expenses:Trading"
	if r.Intn(2) == 0 {
		div, fee, tax, interest, trading = "Income:Erträge:Dividenden", "Expenses:Gebühren", "Expenses:Steuern:Quellensteuer", "Income:Zinsen", "Income:Trading"
	}
	st.Flags = []string{"--account", st.Account, "--dividend", div, "--fee", fee, "--tax", tax, "--interest", interest, "--trading", trading}
	st.Accounts = []string{st.Account, "Expenses:TBD", div, fee, tax, interest, trading}
	tg := &textGen{r: r, o: o, st: st, newlines: true}
	eol := randEOL(r, st)
	base := []string{"EUR", "CHF", "USD"}[r.Intn(3)]
	n := rowCount(r)
	start := randStart(r)
	span := 1 + r.Intn(120)
	end := start + cal.Day(span)
	pos := map[string]*big.Rat{}
	cash := map[string]*big.Rat{}
	add := func(m map[string]*big.Rat, k string, d Dec) {
		if m[k] == nil {
			m[k] = new(big.Rat)
		}
		m[k].Add(m[k], d.Rat())
	}
	var trades, forex, deposits, dividends, taxes, interests []string
	symCur := map[string]string{}
	symbol := func() string {
		s := tickers[r.Intn(len(tickers))]
		if r.Intn(200) == 0 {
			st.HasOddSymbol = true
			if o.NoOddSymbols {
				s = "BRKB"
			} else {
				s = "BRK B"
				st.feature("symbol-with-blank")
			}
		}
		return s
	}
	small := func() Dec {
		a := randCents(r)
		if a.V >= 100000000 {
			a = Cents(1 + a.V%100000000)
		}
		return a
	}
	for i := 0; i < n; i++ {
		day := start + cal.Day(r.Intn(span+1))
		cur := []string{"USD", "USD", "EUR", "CHF", "GBP"}[r.Intn(5)]
		var note string
		switch k := r.Intn(20); {
		case k <= 5: // stock trade
			sym := symbol()
			if c, ok := symCur[sym]; ok {
				cur = c
			}
			symCur[sym] = cur
			qn := int64(1 + r.Intn(400))
			if r.Intn(120) == 0 {
				qn = int64(1000 + r.Intn(4000))
			}
			qty := D(qn, 0)
			price := Cents(int64(100 + r.Intn(60000)))
			proceeds := Cents(-price.V * qn)
			// a sale only out of an existing long position (no short positions)
			if held := pos[sym]; held != nil && held.Cmp(qty.Rat()) >= 0 && r.Intn(2) == 0 {
				qty, proceeds = qty.Neg(), proceeds.Neg()
				st.feature("stock-sale")
			}
			comm := Cents(-int64(r.Intn(2000)))
			trades = append(trades, csvLine(',', "Trades", "Data", "Order", "Stocks", cur, sym, fmt.Sprintf(`"%s, %s"`, day, hms(r)),
				ibNum(qty, true), price.Short(), price.Short(), ibNum(proceeds, true), comm.Short(), ibNum(proceeds.Add(comm).Neg(), true), "0", "0", "0", "O"))
			if r.Intn(3) == 0 {
				// the activity statement can list, below an order, its executions, closed
				// lots and a per-symbol subtotal: detail rows that repeat the order, not bookings
				ts := fmt.Sprintf(`"%s, %s"`, day, hms(r))
				trades = append(trades, csvLine(',', "Trades", "Data", "Trade", "Stocks", cur, sym, ts,
					ibNum(qty, true), price.Short(), price.Short(), ibNum(proceeds, true), comm.Short(), ibNum(proceeds.Add(comm).Neg(), true), "0", "0", "0", "O"))
				if r.Intn(2) == 0 {
					trades = append(trades, csvLine(',', "Trades", "Data", "ClosedLot", "Stocks", cur, sym, fmt.Sprintf(`"%s"`, day),
						ibNum(qty, true), price.Short(), "", "", "", ibNum(proceeds.Neg(), true), "0", "0", "0", "ST"))
				}
				trades = append(trades, csvLine(',', "Trades", "SubTotal", "", "Stocks", cur, sym, "",
					ibNum(qty, true), "", "", ibNum(proceeds, true), comm.Short(), ibNum(proceeds.Add(comm).Neg(), true), "0", "", "0", ""))
				st.OtherRows += 2
				st.feature("trade-detail-rows")
			}
			add(pos, sym, qty)
			add(cash, cur, proceeds)
			add(cash, cur, comm)
			st.Txns = append(st.Txns, Txn{Date: day, Import: eff(sym, qty, cur, proceeds, cur, comm), Row: st.BookingRows, Note: "stock trade"})
			note = fmt.Sprintf("%s trade %s %s proceeds %s comm %s %s", day, qty.Fixed(), sym, proceeds.Fixed(), comm.Fixed(), cur)
			st.feature("stock-trade")
			if qn >= 1000 {
				st.feature("quantity-with-separator")
			}
		case k <= 7: // forex trade AAA.BBB
			a := otherCurrency(r, cur)
			qty := small()
			proceeds := small().Neg()
			if r.Intn(2) == 0 {
				qty, proceeds = qty.Neg(), proceeds.Neg()
			}
			comm := Cents(-int64(r.Intn(300)))
			if r.Intn(8) == 0 {
				comm = Cents(int64(1 + r.Intn(200))) // a rebate or correction: the commission column is positive
				st.feature("forex-positive-commission")
			}
			forex = append(forex, csvLine(',', "Trades", "Data", "Order", "Forex", cur, a+"."+cur, fmt.Sprintf(`"%s, %s"`, day, hms(r)),
				ibNum(qty, true), fmt.Sprintf("1.%05d", r.Intn(100000)), "", ibNum(proceeds, true), comm.Short(), "", "", "", "0", ""))
			add(cash, a, qty)
			add(cash, cur, proceeds)
			add(cash, base, comm)
			st.Txns = append(st.Txns, Txn{Date: day, Import: eff(a, qty, cur, proceeds, base, comm), Row: st.BookingRows, Note: "forex trade"})
			note = fmt.Sprintf("%s forex %s %s / %s %s comm %s %s", day, qty.Fixed(), a, proceeds.Fixed(), cur, comm.Fixed(), base)
			st.feature("forex-trade")
		case k <= 10: // deposit / withdrawal
			a := small()
			if r.Intn(4) == 0 {
				a = a.Neg()
			}
			desc := []string{"Electronic Fund Transfer", "Cash Receipts / Electronic Fund Transfers", "Disbursement Initiated by John Doe"}[r.Intn(3)]
			if o.Hostile && r.Intn(3) == 0 {
				desc = tg.free()
			}
			deposits = append(deposits, csvLine(',', "Deposits & Withdrawals", "Data", cur, day.String(), csvField(desc, ',', false), ibNum(a, true)))
			add(cash, cur, a)
			st.Txns = append(st.Txns, Txn{Date: day, Import: eff(cur, a), Row: st.BookingRows, Note: "deposit/withdrawal"})
			note = fmt.Sprintf("%s deposit/withdrawal %s %s", day, a.Fixed(), cur)
			st.feature("deposit-row")
		case k <= 14: // dividend, often with withholding tax
			sym := tickers[r.Intn(len(tickers))]
			a := small()
			kind := "(Ordinary Dividend)"
			if o.Hostile && r.Intn(2) == 0 {
				kind = "(" + tg.free() + ")"
			}
			desc := fmt.Sprintf("%s(%s) Cash Dividend %s 0.%02d per Share %s", sym, isin(r), cur, 1+r.Intn(99), kind)
			dividends = append(dividends, csvLine(',', "Dividends", "Data", cur, day.String(), csvField(desc, ',', false), ibNum(a, false)))
			add(cash, cur, a)
			st.Txns = append(st.Txns, Txn{Date: day, Import: eff(cur, a), Row: st.BookingRows, Note: "dividend"})
			note = fmt.Sprintf("%s dividend %s %s %s", day, sym, a.Fixed(), cur)
			st.feature("dividend-row")
			if r.Intn(2) == 0 {
				st.RowNotes = append(st.RowNotes, note)
				st.BookingRows++
				t := Cents(-(a.V * 15 / 100))
				if t.V == 0 {
					t = Cents(-1)
				}
				tdesc := fmt.Sprintf("%s(%s) Cash Dividend %s 0.%02d per Share - US Tax", sym, isin(r), cur, 1+r.Intn(99))
				taxes = append(taxes, csvLine(',', "Withholding Tax", "Data", cur, day.String(), csvField(tdesc, ',', false), ibNum(t, false), ""))
				add(cash, cur, t)
				st.Txns = append(st.Txns, Txn{Date: day, Import: eff(cur, t), Row: st.BookingRows, Note: "withholding tax"})
				note = fmt.Sprintf("%s withholding tax %s %s %s", day, sym, t.Fixed(), cur)
				st.feature("withholding-tax-row")
			}
		default: // interest
			a := Cents(int64(1 + r.Intn(20000)))
			what := "Credit"
			if r.Intn(2) == 0 {
				a, what = a.Neg(), "Debit"
			}
			y, m, _ := day.YMD()
			desc := fmt.Sprintf("%s %s Interest for %s-%d", cur, what, monthsShort[m-1], y)
			if o.Hostile && r.Intn(3) == 0 {
				desc = tg.free()
			}
			interests = append(interests, csvLine(',', "Interest", "Data", cur, day.String(), csvField(desc, ',', false), ibNum(a, false)))
			add(cash, cur, a)
			st.Txns = append(st.Txns, Txn{Date: day, Import: eff(cur, a), Row: st.BookingRows, Note: "interest"})
			note = fmt.Sprintf("%s interest %s %s", day, a.Fixed(), cur)
			st.feature("interest-row")
		}
		st.RowNotes = append(st.RowNotes, note)
		st.BookingRows++
	}

	fb := &fileBuilder{eol: eol}
	other := func(s string) { fb.line(s); st.OtherRows++ }
	sy, sm, sd := start.YMD()
	ey, em, ed := end.YMD()
	other("Statement,Header,Field Name,Field Value")
	other("Statement,Data,BrokerName,Interactive Brokers")
	other("Statement,Data,BrokerAddress,")
	other("Statement,Data,Title,Activity Statement")
	other(fmt.Sprintf(`Statement,Data,Period,"%s %d, %d - %s %d, %d"`, monthsLong[sm-1], sd, sy, monthsLong[em-1], ed, ey))
	other(fmt.Sprintf(`Statement,Data,WhenGenerated,"%s, %s EDT"`, end+1, hms(r)))
	other("Account Information,Header,Field Name,Field Value")
	name := "John Doe"
	if o.Hostile && r.Intn(3) == 0 {
		name = tg.free()
	}
	other("Account Information,Data,Name," + csvField(name, ',', false))
	other("Account Information,Data,Account Type,Individual")
	other("Account Information,Data,Base Currency," + base)

	// assertions the statement carries: open positions and forex balances at
	// the end date, consistent with the rows (opening balance zero)
	var syms []string
	for s, q := range pos {
		if q.Sign() != 0 {
			syms = append(syms, s)
		}
	}
	sort.Strings(syms)
	if len(syms) > 0 {
		other("Open Positions,Header,DataDiscriminator,Asset Category,Currency,Symbol,Quantity,Mult,Cost Price,Cost Basis,Close Price,Value,Unrealized P/L,Unrealized P/L %,Code")
		for _, s := range syms {
			q := pos[s]
			qs := q.Num().String()
			if new(big.Rat).Abs(q).Cmp(big.NewRat(1000, 1)) >= 0 {
				qs = ibNum(D(q.Num().Int64(), 0), true)
				st.feature("position-with-separator")
			}
			fb.line(csvLine(',', "Open Positions", "Data", "Summary", "Stocks", symCur[s], s, qs, "1", "100.00", "100.00", "100.00", "100.00", "0.00", "0.00", ""))
			st.Assertions = append(st.Assertions, Assertion{Date: end, Account: st.Account, Commodity: s, Amount: new(big.Rat).Set(q)})
		}
		other("Open Positions,Total,,Stocks," + base + ",,,,,100.00,,100.00,0.00,,")
	}
	var curs []string
	for c := range cash {
		curs = append(curs, c)
	}
	sort.Strings(curs)
	if len(curs) > 0 && r.Intn(5) != 0 {
		other("Forex Balances,Header,Asset Category,Currency,Description,Quantity,Cost Price,Cost Basis in " + base + ",Close Price,Value in " + base + ",Unrealized P/L in " + base + ",Code")
		for _, c := range curs {
			v := cash[c]
			cents := new(big.Rat).Mul(v, big.NewRat(100, 1))
			d := Cents(cents.Num().Int64())
			fb.line(csvLine(',', "Forex Balances", "Data", "Forex", base, c, ibNum(d, true), "1", ibNum(d.Neg(), true), "1", ibNum(d, true), "0", ""))
			st.Assertions = append(st.Assertions, Assertion{Date: end, Account: st.Account, Commodity: c, Amount: new(big.Rat).Set(v)})
		}
		other("Forex Balances,Total,,,,,,0,,0,0,")
		st.feature("forex-balances")
	}
	section := func(header string, rows []string, totals ...string) {
		if len(rows) == 0 {
			return
		}
		other(header)
		for _, l := range rows {
			fb.line(l)
		}
		for _, t := range totals {
			other(t)
		}
	}
	section("Trades,Header,DataDiscriminator,Asset Category,Currency,Symbol,Date/Time,Quantity,T. Price,C. Price,Proceeds,Comm/Fee,Basis,Realized P/L,Realized P/L %,MTM P/L,Code",
		trades, "Trades,Total,,Stocks,USD,,,,,,0,0,0,0,,0,")
	section("Trades,Header,DataDiscriminator,Asset Category,Currency,Symbol,Date/Time,Quantity,T. Price,,Proceeds,Comm in "+base+",,,,MTM in "+base+",Code",
		forex, "Trades,Total,,Forex,USD,,,,,,0,0,,,,0,")
	section("Deposits & Withdrawals,Header,Currency,Settle Date,Description,Amount", deposits,
		"Deposits & Withdrawals,Data,Total,,,0", "Deposits & Withdrawals,Data,Total in "+base+",,,0", "Deposits & Withdrawals,Data,Total Deposits & Withdrawals in "+base+",,,0")
	section("Dividends,Header,Currency,Date,Description,Amount", dividends, "Dividends,Data,Total,,,0", "Dividends,Data,Total in "+base+",,,0")
	section("Withholding Tax,Header,Currency,Date,Description,Amount,Code", taxes, "Withholding Tax,Data,Total,,,0,", "Withholding Tax,Data,Total in "+base+",,,0,")
	section("Interest,Header,Currency,Date,Description,Amount", interests, "Interest,Data,Total,,,0", "Interest,Data,Total in "+base+",,,0")
	st.File = []byte(fb.String())
	return st
}
