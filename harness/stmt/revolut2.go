package stmt

import (
	"fmt"
	"math/big"
	"math/rand"

	"kverif/cal"
)

// revolut2 — the newer Revolut export: `,`-separated, 10 columns, ISO
// timestamps, oldest first, signed amount, separate fee column, running
// balance per currency; rows which are not completed have no completed date.
type revolut2 struct{}

func init() { Register(revolut2{}) }

func (revolut2) Name() string  { return "revolut2" }
func (revolut2) Short() string { return "revolut2" }
func (revolut2) Deviations() string {
	return "column header and rows without a completed date (PENDING / REVERTED): 0 transactions; every completed row: 1 transaction whose effect on the import account is Amount − Fee (the fee goes to the --fee account); the statement also carries one balance per (date, currency) = balance column of the last row of that day"
}

func (revolut2) Generate(r *rand.Rand, o Opts) *Statement {
	st := &Statement{Importer: "revolut2", Short: "revolut2", FileName: "account-statement.csv"}
	st.Account = []string{"Assets:Accounts:Revolut", "Assets:Revolut", "Assets:Konten:Revolut2"}[r.Intn(3)]
	fee := []string{"Expenses:Fees", "Expenses:Bank:Gebühren"}[r.Intn(2)]
	st.Flags = []string{"--account", st.Account, "--fee", fee}
	st.Accounts = []string{st.Account, "Expenses:TBD", fee}
	tg := &textGen{r: r, o: o, st: st}
	fb := &fileBuilder{eol: randEOL(r, st)}
	fb.line("Type,Product,Started Date,Completed Date,Description,Amount,Fee,Currency,State,Balance")
	st.OtherRows++
	curs := []string{[]string{"CHF", "EUR", "USD", "GBP"}[r.Intn(4)]}
	if r.Intn(5) == 0 {
		curs = append(curs, otherCurrency(r, curs[0]))
		st.feature("two-currencies")
	}
	bal := map[string]Dec{}
	for _, c := range curs {
		bal[c] = Cents(0)
	}
	n := rowCount(r)
	day := randStart(r)
	secs := 0
	ts := func(d cal.Day, s int) string { return fmt.Sprintf("%s %02d:%02d:%02d", d, s/3600, s/60%60, s%60) }
	type key struct {
		d cal.Day
		c string
	}
	last := map[key]Dec{}
	var order []key
	for i := 0; i < n; i++ {
		if r.Intn(3) == 0 {
			day += cal.Day(1 + r.Intn(3))
			secs = 0
		}
		secs += 1 + r.Intn((86399-secs)/(n-i+1)+1)
		if secs > 86399 {
			secs = 86399
		}
		cur := curs[r.Intn(len(curs))]
		a := randCents(r)
		if a.V >= 10000000 {
			a = Cents(1 + a.V%10000000)
		}
		f := Cents(0)
		if r.Intn(5) == 0 {
			f = Cents(int64(1 + r.Intn(500)))
			st.feature("fee")
		}
		typ := "CARD_PAYMENT"
		signed := a.Neg()
		switch {
		case bal[cur].V-a.V-f.V < 0:
			typ, signed = "TOPUP", a
		case r.Intn(8) == 0:
			typ, signed = []string{"TOPUP", "CARD_REFUND", "TRANSFER"}[r.Intn(3)], a
		case r.Intn(8) == 0:
			typ = []string{"EXCHANGE", "TRANSFER", "ATM", "FEE"}[r.Intn(4)]
		case r.Intn(40) == 0:
			signed = Cents(0) // card verification
			st.feature("zero-amount")
		}
		desc := tg.free()
		started := day - cal.Day(r.Intn(3))
		if r.Intn(8) == 0 { // not completed: no completed date, no balance
			state := []string{"PENDING", "REVERTED"}[r.Intn(2)]
			fb.line(csvLine(',', typ, "Current", ts(day, secs), "", csvField(desc, ',', false), signed.Fixed(), "0.00", cur, state, ""))
			st.OtherRows++
			st.feature("not-completed-row")
			continue
		}
		bal[cur] = bal[cur].Add(signed).Sub(f)
		fb.line(csvLine(',', typ, "Current", ts(started, r.Intn(86400)), ts(day, secs), csvField(desc, ',', false), signed.Fixed(), f.Fixed(), cur, "COMPLETED", bal[cur].Fixed()))
		e := signed.Sub(f)
		others := map[string]map[string]*big.Rat{"Expenses:TBD": eff(cur, signed.Neg())}
		if !f.IsZero() {
			others[fee] = eff(cur, f)
		}
		st.Txns = append(st.Txns, Txn{Date: day, Import: eff(cur, e), Others: others, Row: st.BookingRows, Note: typ})
		st.RowNotes = append(st.RowNotes, fmt.Sprintf("%s amount %s fee %s %s", day, signed.Fixed(), f.Fixed(), cur))
		st.BookingRows++
		k := key{day, cur}
		if _, ok := last[k]; !ok {
			order = append(order, k)
		}
		last[k] = bal[cur]
	}
	for _, k := range order {
		st.Assertions = append(st.Assertions, Assertion{Date: k.d, Account: st.Account, Commodity: k.c, Amount: last[k].Rat()})
	}
	st.File = []byte(fb.String())
	return st
}
