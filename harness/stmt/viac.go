package stmt

import (
	"fmt"
	"math/big"
	"math/rand"
	"strings"

	"kverif/cal"
)

// ch.viac — the JSON answer of VIAC's "performance" call:
// {"dailyWealth":[{"date":"2018-06-19","value":0}, ...]} — one value per day,
// leading zeros before the first deposit, many decimals.
type viac struct{}

func init() { Register(viac{}) }

func (viac) Name() string  { return "ch.viac" }
func (viac) Short() string { return "viac" }
func (viac) Deviations() string {
	return "no bookings at all: each daily value ≠ 0 dated on or after --from yields one price (commodity → CHF) rounded to 2 decimals; values are generated without rounding ties, so the expected price does not depend on the tie rule"
}

func (viac) Generate(r *rand.Rand, o Opts) *Statement {
	st := &Statement{Importer: "ch.viac", Short: "viac", FileName: "performance.json"}
	com := []string{"Viac", "VIAC3a", "Säule3a", "V1"}[r.Intn(4)]
	st.Flags = []string{"--commodity", com}
	n := rowCount(r)
	start := randStart(r)
	var from cal.Day
	hasFrom := r.Intn(3) == 0
	if hasFrom {
		from = start + cal.Day(r.Intn(n+2)) - 1
		st.Flags = append(st.Flags, "--from", from.String())
		st.feature("from-flag")
	}
	zeros := 0
	if r.Intn(2) == 0 {
		zeros = r.Intn(3)
	}
	var items []string
	value := int64(100000 + r.Intn(5000000)) // cents
	for i := 0; i < n; i++ {
		d := start + cal.Day(i)
		if i < zeros {
			items = append(items, fmt.Sprintf(`{"date":"%s","value":%s}`, d, []string{"0", "0.0", "0.00"}[r.Intn(3)]))
			st.OtherRows++
			st.feature("zero-value-day")
			continue
		}
		value += int64(r.Intn(20001)) - 9000
		if value < 10000 {
			value = 10000 + int64(r.Intn(1000))
		}
		var text string
		exp := Cents(value)
		switch r.Intn(5) {
		case 4: // exactly half a rappen: rounds away from zero
			text = exp.Fixed() + "5"
			exp = Cents(value + 1)
			st.feature("half-rappen-tie")
		case 0: // integer
			exp = Cents(value / 100 * 100)
			text = fmt.Sprintf("%d", value/100)
		case 1: // two decimals
			text = exp.Short()
			if !strings.Contains(text, ".") && r.Intn(2) == 0 {
				text += ".0"
			}
		default: // long tail as in the real answer; never an exact tie
			tail := ""
			tl := 3 + r.Intn(18)
			for len(tail) < tl {
				tail += fmt.Sprintf("%d", r.Intn(10))
			}
			if strings.Trim(tail[1:], "0") == "" && tail[0] == '5' {
				tail = tail[:len(tail)-1] + "1"
			}
			text = exp.Fixed() + tail
			if tail[0] >= '5' {
				exp = Cents(value + 1)
			}
			st.feature("long-decimals")
		}
		items = append(items, fmt.Sprintf(`{"date":"%s","value":%s}`, d, text))
		if hasFrom && d < from {
			st.OtherRows++
			st.feature("day-before-from")
			continue
		}
		st.Prices = append(st.Prices, Price{Date: d, Commodity: com, Target: "CHF", Price: new(big.Rat).Set(exp.Rat())})
		st.RowNotes = append(st.RowNotes, fmt.Sprintf("%s value %s -> price %s", d, trunc(text, 40), exp.Fixed()))
		st.BookingRows++
	}
	st.File = []byte(`{"dailyWealth":[` + strings.Join(items, ",") + `]}`)
	if r.Intn(2) == 0 {
		st.File = append(st.File, '\n')
	}
	return st
}
