package stmt

import (
	"fmt"
	"math/rand"

	"kverif/cal"
)

// revolut — the old per-currency app export: `;`-separated, 9 columns, the
// account currency in the header (`Paid Out (EUR)`), dates `2 Jan 2006`,
// newest first, amounts prefixed by NBSP + blank with `'` group separators, a
// running balance per row.
type revolut struct{}

func init() { Register(revolut{}) }

func (revolut) Name() string  { return "revolut" }
func (revolut) Short() string { return "revolut" }
func (revolut) Deviations() string {
	return "column header: 0 transactions; every row: 1; `Sold X to Y` / `Bought X from Y` rows: 1 transaction with two legs on the import account (header currency and the currency of the Exchange Out/In cell); the statement also carries one balance per distinct date (balance column of the newest row of that date)"
}

const nbsp = "\u00a0 " // NBSP + blank, as in the real export

func (revolut) Generate(r *rand.Rand, o Opts) *Statement {
	st := &Statement{Importer: "revolut", Short: "revolut", FileName: "revolut.csv"}
	st.Account = []string{"Assets:Accounts:Revolut", "Assets:Revolut", "Assets:Konten:Revolut:EUR1"}[r.Intn(3)]
	st.Flags = []string{"--account", st.Account}
	valuation := "Income" + st.Account[len("Assets"):]
	st.Accounts = []string{st.Account, "Expenses:TBD", valuation}
	tg := &textGen{r: r, o: o, st: st}
	fb := &fileBuilder{eol: randEOL(r, st)}
	cur := []string{"EUR", "CHF", "USD", "GBP"}[r.Intn(4)]
	fb.line(fmt.Sprintf("Completed Date;Reference;Paid Out (%s);Paid In (%s);Exchange Out;Exchange In; Balance (%s);Exchange Rate;Category", cur, cur, cur))
	st.OtherRows++
	cats := []string{"General", "Transport", "Travel", "Restaurants", "Groceries", "Shopping", "Services", "Entertainment"}
	n := rowCount(r)
	type row struct {
		day  cal.Day
		line string
	}
	var rows []row
	day := randStart(r)
	bal := Cents(0)
	amt := func(d Dec) string { return nbsp + d.Group("'") }
	date := func(d cal.Day) string {
		y, m, dd := d.YMD()
		return fmt.Sprintf("%d %s %d", dd, monthsShort[m-1], y)
	}
	lastOfDay := map[cal.Day]Dec{}
	for i := 0; i < n; i++ {
		day += cal.Day(r.Intn(3))
		a := randCents(r)
		if a.V >= 100000 {
			st.feature("thousands-separator")
		}
		var line string
		kind := r.Intn(10)
		out := r.Intn(5) != 0
		if bal.V-a.V < 0 {
			out = false // Revolut accounts cannot be overdrawn: a top-up instead
		}
		switch {
		case kind == 0: // FX
			oc := otherCurrency(r, cur)
			oa := randCents(r)
			rate := fmt.Sprintf("FX-rate \u20ac\u00a0 1\u2008=\u2008%s\u00a0 1.%04d", oc, r.Intn(10000))
			if out {
				bal = bal.Sub(a)
				line = csvLine(';', date(day), fmt.Sprintf("Sold %s to %s", cur, oc), amt(a), "", oc+" "+nbsp+oa.Group("'"), "", amt(bal), rate, "General")
				st.Txns = append(st.Txns, Txn{Date: day, Import: eff(cur, a.Neg(), oc, oa), Row: i, Note: "fx sell"})
				st.RowNotes = append(st.RowNotes, fmt.Sprintf("%s -%s %s +%s %s (fx)", day, a.Fixed(), cur, oa.Fixed(), oc))
			} else {
				bal = bal.Add(a)
				line = csvLine(';', date(day), fmt.Sprintf("Bought %s from %s", cur, oc), "", amt(a), "", oc+" "+nbsp+oa.Group("'"), amt(bal), rate, "General")
				st.Txns = append(st.Txns, Txn{Date: day, Import: eff(cur, a, oc, oa.Neg()), Row: i, Note: "fx buy"})
				st.RowNotes = append(st.RowNotes, fmt.Sprintf("%s +%s %s -%s %s (fx)", day, a.Fixed(), cur, oa.Fixed(), oc))
			}
			st.feature("fx-row")
		default:
			ref := tg.free()
			e := a
			po, pi := "", amt(a)
			if out {
				e = a.Neg()
				po, pi = amt(a), ""
			} else {
				st.feature("paid-in")
			}
			bal = bal.Add(e)
			xo, xi, rate := "", "", nbsp
			if r.Intn(5) == 0 {
				// a card payment (or refund) in a foreign currency: the export fills the
				// Exchange column with the foreign amount, but it is an ordinary booking
				oc := otherCurrency(r, cur)
				oa := randCents(r)
				if out {
					xo = oc + " " + nbsp + oa.Group("'")
				} else {
					xi = oc + " " + nbsp + oa.Group("'")
				}
				rate = fmt.Sprintf("FX-rate \u20ac\u00a0 1\u2008=\u2008%s\u00a0 1.%04d", oc, r.Intn(10000))
				st.feature("foreign-card-payment")
			}
			line = csvLine(';', date(day), csvField(ref, ';', false), po, pi, xo, xi, amt(bal), rate, cats[r.Intn(len(cats))])
			st.Txns = append(st.Txns, Txn{Date: day, Import: eff(cur, e), Row: i, Note: "booking"})
			st.RowNotes = append(st.RowNotes, fmt.Sprintf("%s %s %s", day, e.Fixed(), cur))
		}
		lastOfDay[day] = bal
		rows = append(rows, row{day, line})
	}
	for i := len(rows) - 1; i >= 0; i-- {
		fb.line(rows[i].line)
	}
	seen := map[cal.Day]bool{}
	for _, rw := range rows {
		if !seen[rw.day] {
			seen[rw.day] = true
			st.Assertions = append(st.Assertions, Assertion{Date: rw.day, Account: st.Account, Commodity: cur, Amount: lastOfDay[rw.day].Rat()})
		}
	}
	st.BookingRows = n
	st.File = []byte(fb.String())
	return st
}
