package stmt

import (
	"fmt"
	"math/rand"
	"strings"

	"kverif/cal"
)

// ch.supercard — TopCard/Supercard CSV: ISO-8859-1, first line `sep=;`,
// 13 columns, empty cells are a single blank, no group separators.
type supercard struct{}

func init() { Register(supercard{}) }

func (supercard) Name() string  { return "ch.supercard" }
func (supercard) Short() string { return "supercard" }
func (supercard) Deviations() string {
	return "`sep=;` line, column header and `Saldovortrag` rows: 0 transactions; every other 13-column row with an account number: 1"
}

func (supercard) Generate(r *rand.Rand, o Opts) *Statement {
	st := &Statement{Importer: "ch.supercard", Short: "supercard", FileName: "transactions.csv"}
	st.Account = []string{"Liabilities:CreditCard", "Liabilities:Karten:Supercard", "Liabilities:Visa3"}[r.Intn(3)]
	st.Flags = []string{"--account", st.Account}
	st.Accounts = []string{st.Account, "Expenses:TBD"}
	tg := &textGen{r: r, o: o, st: st, latin1: true}
	fb := &fileBuilder{eol: randEOL(r, st)}
	fb.line("sep=;")
	fb.line("Kontonummer;Kartennummer;Konto-/Karteninhaber;Einkaufsdatum;Buchungstext;Branche;Betrag;Originalwährung;Kurs;Währung;Belastung;Gutschrift;Buchung")
	st.OtherRows += 2
	cur := "CHF"
	if r.Intn(10) == 0 {
		cur = "EUR"
		st.feature("eur-card")
	}
	konto := fmt.Sprintf("%04d %04d %04d", r.Intn(10000), r.Intn(10000), r.Intn(10000))
	karte := fmt.Sprintf("%04d %04d %04d %04d", r.Intn(10000), r.Intn(10000), r.Intn(10000), r.Intn(10000))
	owner := []string{"OWNER", "MUSTER HANS", "MÜLLER-MEIER ANNA"}[r.Intn(3)]
	branchen := []string{"Tankstelle", "Mitgliedschaft in Sportclubs", "Ärztliche Dienstleistungen", "Elektronikgeschäfte, Radio/TV", "Warenhaus", "Lebensmittelgeschäfte, Supermärkte", " "}
	const blank = " "
	day := randStart(r)
	if r.Intn(3) == 0 {
		fb.line(csvLine(';', konto, karte, owner, dmy(day, "."), "Saldovortrag", blank, blank, blank, blank, cur, randCents(r).Fixed(), blank, dmy(day, ".")))
		st.OtherRows++
		st.feature("saldovortrag-row")
	}
	n := rowCount(r)
	for i := 0; i < n; i++ {
		day += cal.Day(r.Intn(3))
		amt := randCentsOrZero(r, st)
		if amt.V >= 10000000 {
			amt = Cents(amt.V % 10000000) // card purchases stay below 100'000; the format has no group separator
			if amt.V == 0 {
				amt = Cents(1)
			}
		}
		text := tg.free()
		branche := branchen[r.Intn(len(branchen))]
		origCur, kurs, betrag := cur, blank, amt
		if r.Intn(6) == 0 {
			origCur = otherCurrency(r, cur)
			kurs = fmt.Sprintf("1.%04d", r.Intn(10000))
			betrag = randCents(r)
			st.feature("foreign-purchase")
		}
		bel, gut := amt.Fixed(), blank
		e := amt.Neg()
		if r.Intn(7) == 0 {
			bel, gut, e = blank, amt.Fixed(), amt
			st.feature("credit")
		}
		line := csvLine(';', konto, karte, owner, dmy(day, "."), csvField(text, ';', false), csvField(branche, ';', false),
			betrag.Fixed(), origCur, kurs, cur, bel, gut, dmy(day+cal.Day(1+r.Intn(3)), "."))
		copies := 1
		if r.Intn(12) == 0 {
			copies = 2 // the same purchase twice: two rows, two transactions
			st.feature("duplicate-row")
		}
		for k := 0; k < copies; k++ {
			fb.line(line)
			st.Txns = append(st.Txns, Txn{Date: day, Import: eff(cur, e), Row: len(st.Txns), Note: "purchase"})
			st.RowNotes = append(st.RowNotes, fmt.Sprintf("%s %s %s", day, e.Fixed(), cur))
		}
	}
	st.BookingRows = len(st.Txns)
	s := fb.String()
	if strings.ContainsRune(s, '€') {
		panic("stmt: supercard text outside ISO-8859-1")
	}
	st.File = encodeLatin1(s)
	st.feature("iso-8859-1")
	return st
}
