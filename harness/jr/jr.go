// Package jr is the harness's own reader of knut journal text in the shape
// `knut print` and the importers emit (it is not a general parser of the
// syntax and shares no code with knut).
package jr

import (
	"fmt"
	"math/big"
	"regexp"
	"strings"
)

type Booking struct{ Credit, Debit, Qty, Com string }

type Bal struct{ Acc, Qty, Com string }

type Dir struct {
	Kind     string // price | open | close | balance | txn
	Date     string
	Com, Tgt string // price
	Price    string
	Acc      string // open/close
	Desc     string
	Bookings []Booking
	HasPerf  bool
	Perf     []string
	Accrual  string // raw text after "@accrue "
	Bals     []Bal
	Line     int
}

var dateRe = regexp.MustCompile(`^\d{4}-\d\d-\d\d$`)

// Read parses journal text. It is strict about the shapes it knows and
// returns an error with a line number otherwise.
func Read(text string) ([]Dir, error) {
	lines := strings.Split(text, "\n")
	var res []Dir
	i := 0
	var pendPerf *[]string
	pendAccrual := ""
	for i < len(lines) {
		line := strings.TrimRight(lines[i], " \t\r")
		if strings.TrimSpace(line) == "" {
			i++
			continue
		}
		if strings.HasPrefix(line, "@performance(") {
			inner := strings.TrimSuffix(strings.TrimPrefix(line, "@performance("), ")")
			var targets []string
			for _, t := range strings.Split(inner, ",") {
				if t = strings.TrimSpace(t); t != "" {
					targets = append(targets, t)
				}
			}
			pendPerf = &targets
			i++
			continue
		}
		if strings.HasPrefix(line, "@accrue ") {
			pendAccrual = strings.TrimPrefix(line, "@accrue ")
			i++
			continue
		}
		if strings.HasPrefix(line, "#") || strings.HasPrefix(line, "*") || strings.HasPrefix(line, "//") {
			i++
			continue
		}
		if strings.HasPrefix(line, "include ") {
			i++
			continue
		}
		sp := strings.IndexAny(line, " \t")
		if sp < 0 || !dateRe.MatchString(line[:sp]) {
			return nil, fmt.Errorf("line %d: expected a directive, got %q", i+1, line)
		}
		d := Dir{Date: line[:sp], Line: i + 1}
		rest := strings.TrimLeft(line[sp:], " \t")
		if strings.HasPrefix(rest, "\"") {
			d.Kind = "txn"
			// description may span lines
			body := rest[1:]
			for {
				if q := strings.IndexByte(body, '"'); q >= 0 {
					d.Desc += body[:q]
					if strings.TrimSpace(body[q+1:]) != "" {
						return nil, fmt.Errorf("line %d: text after the closing quote: %q", i+1, body[q+1:])
					}
					break
				}
				d.Desc += body + "\n"
				i++
				if i >= len(lines) {
					return nil, fmt.Errorf("line %d: unterminated description", d.Line)
				}
				body = lines[i]
			}
			i++
			for i < len(lines) && strings.TrimSpace(lines[i]) != "" {
				f := strings.Fields(lines[i])
				if len(f) != 4 {
					return nil, fmt.Errorf("line %d: booking with %d fields: %q", i+1, len(f), lines[i])
				}
				d.Bookings = append(d.Bookings, Booking{f[0], f[1], f[2], f[3]})
				i++
			}
			if len(d.Bookings) == 0 {
				return nil, fmt.Errorf("line %d: transaction without bookings", d.Line)
			}
			if pendPerf != nil {
				d.HasPerf, d.Perf = true, *pendPerf
				pendPerf = nil
			}
			d.Accrual, pendAccrual = pendAccrual, ""
			res = append(res, d)
			continue
		}
		if pendPerf != nil || pendAccrual != "" {
			return nil, fmt.Errorf("line %d: annotation before a non-transaction", i+1)
		}
		f := strings.Fields(rest)
		switch {
		case len(f) == 2 && f[0] == "open":
			d.Kind, d.Acc = "open", f[1]
		case len(f) == 2 && f[0] == "close":
			d.Kind, d.Acc = "close", f[1]
		case len(f) == 4 && f[0] == "price":
			d.Kind, d.Com, d.Price, d.Tgt = "price", f[1], f[2], f[3]
		case len(f) == 4 && f[0] == "balance":
			d.Kind = "balance"
			d.Bals = []Bal{{f[1], f[2], f[3]}}
		case len(f) == 1 && f[0] == "balance":
			d.Kind = "balance"
			i++
			for i < len(lines) && strings.TrimSpace(lines[i]) != "" {
				bf := strings.Fields(lines[i])
				if len(bf) != 3 {
					return nil, fmt.Errorf("line %d: balance line with %d fields: %q", i+1, len(bf), lines[i])
				}
				d.Bals = append(d.Bals, Bal{bf[0], bf[1], bf[2]})
				i++
			}
			res = append(res, d)
			continue
		default:
			return nil, fmt.Errorf("line %d: unknown directive %q", i+1, line)
		}
		res = append(res, d)
		i++
	}
	return res, nil
}

// Canon renders a decimal string canonically (exact, no trailing zeros).
func Canon(s string) string {
	r, ok := new(big.Rat).SetString(s)
	if !ok {
		return "?" + s
	}
	if r.IsInt() {
		return r.Num().String()
	}
	for n := 1; n <= 40; n++ {
		fs := r.FloatString(n)
		back, _ := new(big.Rat).SetString(fs)
		if back.Cmp(r) == 0 {
			return strings.TrimSuffix(strings.TrimRight(fs, "0"), ".")
		}
	}
	return r.FloatString(40)
}

// Key renders a directive as a canonical comparison key: amounts canonical,
// negative bookings swapped to their positive form.
func (d Dir) Key() string {
	var b strings.Builder
	fmt.Fprintf(&b, "%s|%s|", d.Date, d.Kind)
	switch d.Kind {
	case "price":
		fmt.Fprintf(&b, "%s|%s|%s", d.Com, Canon(d.Price), d.Tgt)
	case "open", "close":
		b.WriteString(d.Acc)
	case "balance":
		for _, bl := range d.Bals {
			fmt.Fprintf(&b, "%s %s %s;", bl.Acc, Canon(bl.Qty), bl.Com)
		}
	case "txn":
		fmt.Fprintf(&b, "%q|", d.Desc)
		if d.HasPerf {
			fmt.Fprintf(&b, "perf(%s)|", strings.Join(d.Perf, ","))
		}
		for _, bk := range d.Bookings {
			cr, dr, q := bk.Credit, bk.Debit, Canon(bk.Qty)
			if strings.HasPrefix(q, "-") {
				cr, dr, q = dr, cr, q[1:]
			}
			fmt.Fprintf(&b, "%s %s %s %s;", cr, dr, q, bk.Com)
		}
	}
	return b.String()
}
