// Package bean is the harness's own reader of the beancount text that
// `knut transcode` emits. It is line based and quote aware (a transaction's
// description may contain newlines and any character except the double
// quote). It knows exactly four entry shapes and rejects everything else with
// a line number; it shares no code with knut.
//
//	option "<name>" "<value>"
//	YYYY-MM-DD open <account>
//	YYYY-MM-DD close <account>
//	YYYY-MM-DD * "<description>"
//	  <account> <amount> <currency>      (one or more posting lines)
package bean

import (
	"fmt"
	"math/big"
	"regexp"
	"strings"
)

type Kind int

const (
	Option Kind = iota
	Open
	Close
	Txn
)

func (k Kind) String() string { return [...]string{"option", "open", "close", "txn"}[k] }

type Posting struct {
	Account  string
	Amount   *big.Rat
	Text     string // the amount as printed
	Currency string
	Line     int
}

type Entry struct {
	Kind Kind
	Line int    // 1-based line of the entry's first line
	Date string // YYYY-MM-DD (empty for options)

	Name, Value string // option

	Account string // open / close

	Desc     string // txn
	Postings []Posting
}

type Ledger struct {
	Entries []Entry
}

var (
	dateRe   = regexp.MustCompile(`^\d{4}-\d{2}-\d{2}$`)
	amountRe = regexp.MustCompile(`^-?\d+(\.\d+)?$`)
	optionRe = regexp.MustCompile(`^option "([^"]*)" "([^"]*)"$`)
)

// Read parses the text. Every line must belong to an entry of a known shape
// or be blank.
func Read(text string) (*Ledger, error) {
	lines := strings.Split(text, "\n")
	l := &Ledger{}
	i := 0
	for i < len(lines) {
		raw := lines[i]
		line := strings.TrimRight(raw, " \t\r")
		if line == "" {
			i++
			continue
		}
		if raw[0] == ' ' || raw[0] == '\t' {
			return nil, fmt.Errorf("line %d: indented line outside a transaction: %q", i+1, raw)
		}
		if strings.HasPrefix(line, "option ") {
			m := optionRe.FindStringSubmatch(line)
			if m == nil {
				return nil, fmt.Errorf("line %d: malformed option: %q", i+1, line)
			}
			l.Entries = append(l.Entries, Entry{Kind: Option, Line: i + 1, Name: m[1], Value: m[2]})
			i++
			continue
		}
		sp := strings.IndexByte(line, ' ')
		if sp < 0 || !dateRe.MatchString(line[:sp]) {
			return nil, fmt.Errorf("line %d: expected an entry, got %q", i+1, line)
		}
		e := Entry{Line: i + 1, Date: line[:sp]}
		rest := line[sp+1:]
		switch {
		case strings.HasPrefix(rest, "open ") || strings.HasPrefix(rest, "close "):
			f := strings.Fields(rest)
			if len(f) != 2 {
				return nil, fmt.Errorf("line %d: %s with %d fields: %q", i+1, f[0], len(f), line)
			}
			e.Kind = Open
			if f[0] == "close" {
				e.Kind = Close
			}
			e.Account = f[1]
			l.Entries = append(l.Entries, e)
			i++
		case strings.HasPrefix(rest, `* "`):
			e.Kind = Txn
			// the description runs to the next double quote, possibly lines later;
			// use the untrimmed text so that trailing blanks inside it survive
			body := strings.TrimRight(raw, "\r")[sp+1+len(`* "`):]
			for {
				if q := strings.IndexByte(body, '"'); q >= 0 {
					e.Desc += body[:q]
					if strings.TrimSpace(body[q+1:]) != "" {
						return nil, fmt.Errorf("line %d: text after the closing quote of the description: %q", i+1, body[q+1:])
					}
					break
				}
				e.Desc += body + "\n"
				i++
				if i >= len(lines) {
					return nil, fmt.Errorf("line %d: unterminated description", e.Line)
				}
				body = lines[i]
			}
			i++
			for i < len(lines) {
				pr := lines[i]
				if pr == "" || (pr[0] != ' ' && pr[0] != '\t') {
					break
				}
				if strings.TrimSpace(pr) == "" {
					break
				}
				f := strings.Fields(pr)
				if len(f) != 3 {
					return nil, fmt.Errorf("line %d: posting with %d fields: %q", i+1, len(f), pr)
				}
				if !amountRe.MatchString(f[1]) {
					return nil, fmt.Errorf("line %d: posting amount %q is not a plain decimal", i+1, f[1])
				}
				a, ok := new(big.Rat).SetString(f[1])
				if !ok {
					return nil, fmt.Errorf("line %d: posting amount %q", i+1, f[1])
				}
				e.Postings = append(e.Postings, Posting{Account: f[0], Amount: a, Text: f[1], Currency: f[2], Line: i + 1})
				i++
			}
			if len(e.Postings) == 0 {
				return nil, fmt.Errorf("line %d: transaction without postings", e.Line)
			}
			l.Entries = append(l.Entries, e)
		default:
			return nil, fmt.Errorf("line %d: unknown entry %q", i+1, line)
		}
	}
	return l, nil
}

// Option returns the values of all option entries with the given name.
func (l *Ledger) Option(name string) []string {
	var res []string
	for _, e := range l.Entries {
		if e.Kind == Option && e.Name == name {
			res = append(res, e.Value)
		}
	}
	return res
}
