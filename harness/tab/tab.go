// Package tab reads knut's report renderings: the text table (cell grid from
// the separator line's '+' positions, account tree from indentation) and the
// CSV rendering (exact amounts).
package tab

import (
	"encoding/csv"
	"fmt"
	"strings"
	"unicode/utf8"
)

// TextRow is one non-separator line of a text table, cut into cells.
type TextRow struct {
	Raw   string
	Cells []string // untrimmed cell contents (without the single padding blanks)
}

type TextTable struct {
	Lines []string
	Cols  []int     // rune positions of the column separators ('+' in the first line)
	Rows  []TextRow // non-separator rows, in order
	Seps  []int     // indices (in Lines) of separator lines
}

// ParseText cuts a text table into rows and cells. It fails if the table is
// not rectangular (that is C17's business; other callers treat it as an
// unreadable report).
func ParseText(out string) (*TextTable, error) {
	out = strings.TrimRight(out, "\n")
	if out == "" {
		return nil, fmt.Errorf("empty output")
	}
	lines := strings.Split(out, "\n")
	t := &TextTable{Lines: lines}
	first := []rune(lines[0])
	if len(first) == 0 || first[0] != '+' {
		return nil, fmt.Errorf("first line is not a separator: %q", lines[0])
	}
	for i, r := range first {
		if r == '+' {
			t.Cols = append(t.Cols, i)
		}
	}
	width := len(first)
	for li, line := range lines {
		rs := []rune(line)
		if len(rs) != width {
			return nil, fmt.Errorf("line %d has width %d, want %d: %q", li+1, len(rs), width, line)
		}
		if rs[0] == '+' {
			t.Seps = append(t.Seps, li)
			continue
		}
		if rs[0] != '|' {
			return nil, fmt.Errorf("line %d starts with %q", li+1, string(rs[0]))
		}
		row := TextRow{Raw: line}
		for c := 0; c+1 < len(t.Cols); c++ {
			a, b := t.Cols[c], t.Cols[c+1]
			if rs[b] != '|' && rs[b] != '+' {
				return nil, fmt.Errorf("line %d: no separator at column %d: %q", li+1, b, line)
			}
			cell := string(rs[a+1 : b])
			// one blank of padding on each side
			if len(cell) >= 2 {
				cell = cell[1 : len(cell)-1]
			}
			row.Cells = append(row.Cells, cell)
		}
		t.Rows = append(t.Rows, row)
	}
	return t, nil
}

func (r TextRow) Blank() bool {
	for _, c := range r.Cells {
		if strings.TrimSpace(c) != "" {
			return false
		}
	}
	return true
}

// Indent returns the number of leading blanks of the first cell.
func (r TextRow) Indent() int {
	n := 0
	for _, c := range r.Cells[0] {
		if c != ' ' {
			break
		}
		n++
	}
	return n
}

// ---------------------------------------------------------------- balance report

type Row struct {
	Section string   // AL | EIE | TotalAL | TotalEIE | Delta
	Path    []string // account path (nil for totals)
	Comm    string   // commodity column ("" if none)
	Cells   []string // exact CSV cells, one per date
	Text    []string // text cells (trimmed), one per date
}

func (r Row) Account() string { return strings.Join(r.Path, ":") }

type Balance struct {
	HasComm bool
	Dates   []string
	Rows    []Row
}

// ParseCSV reads the CSV rendering.
func ParseCSV(out string) ([][]string, error) {
	rd := csv.NewReader(strings.NewReader(out))
	rd.FieldsPerRecord = -1
	return rd.ReadAll()
}

// ParseBalance combines the text rendering (tree shape) with the CSV
// rendering (exact numbers) of the same report.
func ParseBalance(text, csvOut string) (*Balance, error) {
	tt, err := ParseText(text)
	if err != nil {
		return nil, fmt.Errorf("text: %w", err)
	}
	recs, err := ParseCSV(csvOut)
	if err != nil {
		return nil, fmt.Errorf("csv: %w", err)
	}
	var rows []TextRow
	for _, r := range tt.Rows {
		if !r.Blank() {
			rows = append(rows, r)
		}
	}
	if len(rows) != len(recs) {
		return nil, fmt.Errorf("text has %d non-blank rows, csv has %d records", len(rows), len(recs))
	}
	if len(rows) == 0 {
		return nil, fmt.Errorf("no rows")
	}
	hdr := recs[0]
	if len(hdr) < 1 || hdr[0] != "Account" {
		return nil, fmt.Errorf("unexpected header %v", hdr)
	}
	b := &Balance{}
	first := 1
	if len(hdr) > 1 && hdr[1] == "Comm" {
		b.HasComm = true
		first = 2
	}
	b.Dates = append(b.Dates, hdr[first:]...)
	section := "AL"
	var stack []string
	var cur *Row
	for i := 1; i < len(rows); i++ {
		tr, rec := rows[i], recs[i]
		if len(rec) != len(hdr) || len(tr.Cells) != len(hdr) {
			return nil, fmt.Errorf("row %d: %d csv fields, %d text cells, header has %d", i, len(rec), len(tr.Cells), len(hdr))
		}
		name := strings.TrimSpace(tr.Cells[0])
		if name != rec[0] {
			return nil, fmt.Errorf("row %d: text name %q, csv name %q", i, name, rec[0])
		}
		row := Row{Cells: rec[first:]}
		for _, c := range tr.Cells[first:] {
			row.Text = append(row.Text, strings.TrimSpace(c))
		}
		if b.HasComm {
			row.Comm = rec[1]
		}
		switch {
		case name == "":
			if cur == nil {
				return nil, fmt.Errorf("row %d: continuation row without a previous row", i)
			}
			row.Section, row.Path = cur.Section, cur.Path
		case tr.Indent() == 0 && name == "Total (A+L)":
			row.Section = "TotalAL"
			section = "EIE"
			stack = nil
		case tr.Indent() == 0 && name == "Total (E+I+E)":
			row.Section = "TotalEIE"
			section = "Delta"
		case tr.Indent() == 0 && name == "Delta":
			row.Section = "Delta"
		default:
			ind := tr.Indent()
			if ind%2 != 0 {
				return nil, fmt.Errorf("row %d: odd indentation %d", i, ind)
			}
			depth := ind / 2
			if depth > len(stack) {
				return nil, fmt.Errorf("row %d: indentation jumps from depth %d to %d", i, len(stack), depth)
			}
			stack = append(stack[:depth:depth], name)
			row.Section = section
			row.Path = append([]string{}, stack...)
		}
		b.Rows = append(b.Rows, row)
		cur = &b.Rows[len(b.Rows)-1]
	}
	return b, nil
}

// ParseBalanceText reads a balance report from the text rendering alone: the
// numeric cells are the text cells with thousands separators removed (exact
// when --digits is at least the number of decimals in play).
func ParseBalanceText(text string) (*Balance, error) {
	tt, err := ParseText(text)
	if err != nil {
		return nil, err
	}
	var w strings.Builder
	cw := csv.NewWriter(&w)
	for _, r := range tt.Rows {
		if r.Blank() {
			continue
		}
		rec := make([]string, len(r.Cells))
		for i, c := range r.Cells {
			rec[i] = strings.TrimSpace(c)
			if i > 0 {
				rec[i] = strings.ReplaceAll(rec[i], ",", "")
			}
		}
		cw.Write(rec)
	}
	cw.Flush()
	return ParseBalance(text, w.String())
}

// RuneWidth is the display width knut assumes (rune count).
func RuneWidth(s string) int { return utf8.RuneCountInString(s) }
