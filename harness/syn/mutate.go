package syn

import (
	"fmt"
	"math/rand"
	"regexp"
	"strings"
)

// Hostile are byte fragments inserted by the mutators: invalid UTF-8 of every
// kind, replacement character, NUL, BOM, control characters, exotic blanks and
// digits, and the grammar's own punctuation.
var Hostile = []string{
	"\xff", "\xfe", "\x80", "\xbf", "\xc0\xaf", "\xc1\xbf", "\xe0\x80\xaf", "\xf0\x80\x80\xaf", // lone / overlong
	"\xed\xa0\x80", "\xed\xbf\xbf", "\xf4\x90\x80\x80", "\xf8\x88\x80\x80\x80", "\xe2\x82", "\xf0\x9f\x98", // surrogates, > U+10FFFF, truncated sequences
	"\xef\xbf\xbd", "\x00", "\xef\xbb\xbf", "\r", "\f", "\v", "\x1b", "\x7f", " ", " ", " ", "\u0085", "　",
	"\"", "@", "\n", " ", "\t", "-", ":", "$", "(", ")", ",", "/", "//", "*", "#", ".", "\\",
	"٣", "９", "𝟗", "Ⅷ", "²", "é", "é", "😀", "i", "include", "@performance", "@accrue", "balance", "2020-01-01",
}

var tokenRe = regexp.MustCompile(`\S+`)

// Mutation is one named text mutator.
type Mutation struct {
	Name string
	F    func(r *rand.Rand, s string, other string, maxLong int) string
}

func lines(s string) []string { return strings.SplitAfter(s, "\n") }

func randPos(r *rand.Rand, s string) int { return r.Intn(len(s) + 1) }

func longToken(r *rand.Rand, max int) string {
	// sizes spread over the orders of magnitude up to max
	n := 16
	for n < max && r.Intn(3) != 0 {
		n *= 4
	}
	if n > max {
		n = max
	}
	n = n/2 + r.Intn(n/2+1)
	switch r.Intn(7) {
	case 0:
		return strings.Repeat("9", n)
	case 1:
		return "-" + strings.Repeat("1", n/2) + "." + strings.Repeat("0", n/2)
	case 2:
		return strings.Repeat("A", n)
	case 3:
		return strings.Repeat("Ab:", n/3) + "Z"
	case 4:
		return "\"" + strings.Repeat("d ", n/2) + "\""
	case 5:
		return strings.Repeat("現", n/3)
	default:
		return strings.Repeat(" ", n)
	}
}

// Mutations is the fixed list of mutators (truncation at every offset is a
// family of its own in the check).
var Mutations = []Mutation{
	{"truncate", func(r *rand.Rand, s, _ string, _ int) string { return s[:randPos(r, s)] }},
	{"delete-line", func(r *rand.Rand, s, _ string, _ int) string {
		ls := lines(s)
		i := r.Intn(len(ls))
		return strings.Join(append(ls[:i:i], ls[i+1:]...), "")
	}},
	{"duplicate-line", func(r *rand.Rand, s, _ string, _ int) string {
		ls := lines(s)
		i := r.Intn(len(ls))
		return strings.Join(ls[:i+1], "") + ls[i] + strings.Join(ls[i+1:], "")
	}},
	{"swap-lines", func(r *rand.Rand, s, _ string, _ int) string {
		ls := lines(s)
		i, j := r.Intn(len(ls)), r.Intn(len(ls))
		ls[i], ls[j] = ls[j], ls[i]
		return strings.Join(ls, "")
	}},
	{"delete-blank-lines", func(r *rand.Rand, s, _ string, _ int) string {
		var b strings.Builder
		for _, l := range lines(s) {
			if strings.TrimSpace(l) == "" && r.Intn(2) == 0 {
				continue
			}
			b.WriteString(l)
		}
		return b.String()
	}},
	{"indent-line", func(r *rand.Rand, s, _ string, _ int) string {
		ls := lines(s)
		i := r.Intn(len(ls))
		ls[i] = []string{" ", "\t", "  ", "\r"}[r.Intn(4)] + ls[i]
		return strings.Join(ls, "")
	}},
	{"insert-comment-line", func(r *rand.Rand, s, _ string, _ int) string {
		ls := lines(s)
		i := r.Intn(len(ls) + 1)
		c := []string{"# c\n", "// c\n", "* h\n", "/ x\n", "#\n", " # c\n", "; c\n", "#c", "//", "*"}[r.Intn(10)]
		return strings.Join(ls[:i], "") + c + strings.Join(ls[i:], "")
	}},
	{"delete-token", func(r *rand.Rand, s, _ string, _ int) string {
		ts := tokenRe.FindAllStringIndex(s, -1)
		if len(ts) == 0 {
			return s
		}
		t := ts[r.Intn(len(ts))]
		return s[:t[0]] + s[t[1]:]
	}},
	{"duplicate-token", func(r *rand.Rand, s, _ string, _ int) string {
		ts := tokenRe.FindAllStringIndex(s, -1)
		if len(ts) == 0 {
			return s
		}
		t := ts[r.Intn(len(ts))]
		return s[:t[1]] + " " + s[t[0]:t[1]] + s[t[1]:]
	}},
	{"swap-tokens", func(r *rand.Rand, s, _ string, _ int) string {
		ts := tokenRe.FindAllStringIndex(s, -1)
		if len(ts) < 2 {
			return s
		}
		a, b := r.Intn(len(ts)), r.Intn(len(ts))
		if a > b {
			a, b = b, a
		}
		if a == b {
			return s
		}
		x, y := ts[a], ts[b]
		return s[:x[0]] + s[y[0]:y[1]] + s[x[1]:y[0]] + s[x[0]:x[1]] + s[y[1]:]
	}},
	{"join-tokens", func(r *rand.Rand, s, _ string, _ int) string {
		// remove the blanks between two tokens
		ts := tokenRe.FindAllStringIndex(s, -1)
		if len(ts) < 2 {
			return s
		}
		a := r.Intn(len(ts) - 1)
		return s[:ts[a][1]] + s[ts[a+1][0]:]
	}},
	{"bit-flip", func(r *rand.Rand, s, _ string, _ int) string {
		if s == "" {
			return s
		}
		b := []byte(s)
		i := r.Intn(len(b))
		b[i] ^= 1 << uint(r.Intn(8))
		return string(b)
	}},
	{"insert-hostile", func(r *rand.Rand, s, _ string, _ int) string {
		i := randPos(r, s)
		return s[:i] + Hostile[r.Intn(len(Hostile))] + s[i:]
	}},
	{"replace-hostile", func(r *rand.Rand, s, _ string, _ int) string {
		if s == "" {
			return s
		}
		i := r.Intn(len(s))
		return s[:i] + Hostile[r.Intn(len(Hostile))] + s[i+1:]
	}},
	{"hostile-at-token-edge", func(r *rand.Rand, s, _ string, _ int) string {
		ts := tokenRe.FindAllStringIndex(s, -1)
		if len(ts) == 0 {
			return s
		}
		t := ts[r.Intn(len(ts))]
		i := t[r.Intn(2)]
		return s[:i] + Hostile[r.Intn(len(Hostile))] + s[i:]
	}},
	{"line-ends", func(r *rand.Rand, s, _ string, _ int) string {
		to := []string{"\r\n", "\r", "\n\r", "\r\r\n", "\n\n", " \n", "\f\n", " "}[r.Intn(8)]
		all := r.Intn(2) == 0
		var b strings.Builder
		for i := 0; i < len(s); i++ {
			if s[i] == '\n' && (all || r.Intn(3) == 0) {
				b.WriteString(to)
			} else {
				b.WriteByte(s[i])
			}
		}
		return b.String()
	}},
	{"strip-final-newline", func(r *rand.Rand, s, _ string, _ int) string { return strings.TrimRight(s, "\n") }},
	{"long-token", func(r *rand.Rand, s, _ string, max int) string {
		ts := tokenRe.FindAllStringIndex(s, -1)
		lt := longToken(r, max)
		if len(ts) == 0 || r.Intn(3) == 0 {
			i := randPos(r, s)
			return s[:i] + lt + s[i:]
		}
		t := ts[r.Intn(len(ts))]
		return s[:t[0]] + lt + s[t[1]:]
	}},
	{"unterminated-quote", func(r *rand.Rand, s, _ string, _ int) string {
		var qs []int
		for i := 0; i < len(s); i++ {
			if s[i] == '"' {
				qs = append(qs, i)
			}
		}
		if len(qs) == 0 || r.Intn(4) == 0 {
			return s + []string{"2020-01-01 \"abc", "\ninclude \"x", "\"", "2020-01-01 \"a\nA B 1 C\n\n2020-01-02 \""}[r.Intn(4)]
		}
		i := qs[r.Intn(len(qs))]
		return s[:i] + s[i+1:]
	}},
	{"addon-stack", func(r *rand.Rand, s, _ string, max int) string {
		depth := 1
		for depth < max/64 && r.Intn(3) != 0 {
			depth *= 4
		}
		var b strings.Builder
		for k := 0; k < depth; k++ {
			switch r.Intn(6) {
			case 0:
				b.WriteString("@performance()\n")
			case 1:
				b.WriteString("@performance(USD,CHF)\n")
			case 2:
				b.WriteString("@accrue monthly 2020-01-01 2020-12-31 Assets:A\n")
			case 3:
				b.WriteString("@\n")
			case 4:
				b.WriteString("@performance(" + strings.Repeat("X,", r.Intn(50)) + "Y)\n")
			default:
				b.WriteString("@accrue daily 2020-01-01 2020-12-31 $x\n")
			}
		}
		ls := lines(s)
		i := r.Intn(len(ls) + 1)
		return strings.Join(ls[:i], "") + b.String() + strings.Join(ls[i:], "")
	}},
	{"splice", func(r *rand.Rand, s, other string, _ int) string {
		return s[:randPos(r, s)] + other[randPos(r, other):]
	}},
	{"unicode-digits", func(r *rand.Rand, s, _ string, _ int) string {
		sets := [][]rune{[]rune("٠١٢٣٤٥٦٧٨٩"), []rune("０１２３４５６７８９"), []rune("𝟎𝟏𝟐𝟑𝟒𝟓𝟔𝟕𝟖𝟗")}
		set := sets[r.Intn(len(sets))]
		all := r.Intn(3) == 0
		var b strings.Builder
		for _, c := range s {
			if c >= '0' && c <= '9' && (all || r.Intn(10) == 0) {
				b.WriteRune(set[c-'0'])
			} else {
				b.WriteRune(c)
			}
		}
		return b.String()
	}},
	{"repeat-file", func(r *rand.Rand, s, _ string, max int) string {
		n := 2 + r.Intn(6)
		if len(s)*n > 4*max {
			n = 2
		}
		return strings.Repeat(s, n)
	}},
	{"cut-balance-subline", func(r *rand.Rand, s, _ string, _ int) string {
		// a multi-line balance assertion whose last line lost its commodity (or more)
		ms := multiBalanceRe.FindAllStringSubmatchIndex(s, -1)
		if len(ms) == 0 {
			return s
		}
		m := ms[r.Intn(len(ms))]
		block := s[m[2]:m[3]] // the sub-lines, each ending in a newline
		ls := strings.SplitAfter(strings.TrimSuffix(block, "\n"), "\n")
		last := ls[len(ls)-1]
		fs := tokenRe.FindAllStringIndex(last, -1)
		if len(fs) < 2 {
			return s
		}
		keep := len(fs) - 1 - r.Intn(2)
		if keep < 1 {
			keep = 1
		}
		cut := last[:fs[keep-1][1]]
		tail := "\n"
		if r.Intn(3) == 0 {
			tail = "" // ... at the very end of the block, followed by the blank line or the end of the text
		}
		return s[:m[2]] + strings.Join(ls[:len(ls)-1], "") + cut + tail + s[m[3]:]
	}},
}

var multiBalanceRe = regexp.MustCompile(`(?m)^\d{4}-\d\d-\d\d[ \t]+balance[ \t]*\r?\n((?:[^\n]*\S[^\n]*\n)+)`)

// Vocabulary for random token sequences: grammar tokens in orders the grammar
// mostly does not foresee.
var vocab = []string{
	"2020-01-01", "2021-12-31", "0000-00-00", "9999-99-99", "2020-1-1", "20200101",
	"open", "close", "balance", "price", "include", "@performance", "@accrue", "@performance(", "@performance()", "@performance(USD)", "@accrue monthly 2020-01-01 2020-12-31 A:B",
	"daily", "weekly", "monthly", "quarterly", "yearly",
	"Assets:Bank", "A", "A:B", "A:", ":B", "A::B", "$dividend", "$", "$1", "Ärzte:現金", "1A:2B",
	"1", "-1", "1.5", "-0.00", "1.", ".5", "--1", "1e5", "1,5", "+1",
	"CHF", "USD", "X1", "\"desc\"", "\"\"", "\"multi\nline\"", "\"", "(", ")", ",", "#", "# c", "//", "// c", "/", "*", "* h",
}

var seps = []string{" ", " ", " ", "\n", "\n", "\n\n", "\t", "  ", "\r\n", "", " \n", "\n "}

// TokenSoup draws a random sequence of grammar tokens.
func TokenSoup(r *rand.Rand) string {
	n := r.Intn(24)
	var b strings.Builder
	for i := 0; i < n; i++ {
		b.WriteString(vocab[r.Intn(len(vocab))])
		b.WriteString(seps[r.Intn(len(seps))])
	}
	return b.String()
}

// DirectiveSoup draws a sequence of mostly well-formed directive lines with
// random line glue, so that directive boundaries and gaps are stressed.
func DirectiveSoup(r *rand.Rand) string {
	forms := []string{
		"2020-01-01 open A:B", "2020-01-02 close A:B", "2020-01-03 price CHF 1.1 USD", "2020-01-04 balance A:B 1 CHF",
		"2020-01-05 balance\nA:B 1 CHF\nA:C 2 USD\n", "2020-01-06 \"d\"\nA:B A:C 1 CHF\n", "2020-01-07 \"d\"\nA:B A:C 1 CHF\nA:C A:B 2 USD\n",
		"@performance(USD)\n2020-01-08 \"d\"\nA:B A:C 1 CHF\n", "@accrue daily 2020-01-01 2020-01-09 A:D\n2020-01-09 \"d\"\nA:B A:C 1 CHF\n",
		"include \"x.knut\"", "# comment", "// comment", "* heading", "", " ", "\t", "@performance(USD)\n2020-01-10 open A:B", "@performance()\ninclude \"y\"",
	}
	glue := []string{"\n", "\n", "\n", "\n\n", "\r\n", " \n", "", " ", "\n \n", "\n\t\n", "\n#", "\n\n\n"}
	n := r.Intn(10)
	var b strings.Builder
	for i := 0; i < n; i++ {
		b.WriteString(forms[r.Intn(len(forms))])
		b.WriteString(glue[r.Intn(len(glue))])
	}
	return b.String()
}

// RandomBytes draws a byte string of length 0..64, uniformly or from the
// grammar's alphabet.
func RandomBytes(r *rand.Rand) string {
	n := r.Intn(65)
	b := make([]byte, n)
	const alpha = "0123456789-:. \n\t\r\"@#*/$(),abcdefgopnlrsyAZi\xc3\xa4\xff"
	uniform := r.Intn(2) == 0
	for i := range b {
		if uniform {
			b[i] = byte(r.Intn(256))
		} else {
			b[i] = alpha[r.Intn(len(alpha))]
		}
	}
	return string(b)
}

// Snippets are hand-written inputs in the style of the parser tests.
var Snippets = []string{
	"", "\n", " ", "\n\n\n", "#", "# comment", "// comment\n", "* heading\n", "/", "/ x", "asdf", "  include \"foo\"",
	"include \"foo.knut\"", "include\t\"foo.knut\"\n", "include \"\"", "include", "include ", "include \"foo", "includ \"x\"", "include\"x\"",
	"2021-01-01 open A", "2021-01-01 open A:B:C\n", "2021-01-01 open", "2021-01-01 open ", "2021-01-01 open A:", "2021-01-01 open A::B", "2021-01-01 open $x",
	"2021-01-01 close A:B", "2021-01-01 close A:B # trailing", "2021-01-01  close\tA:B  \r\n",
	"2021-01-01 price CHF 1.2 USD", "2021-01-01 price CHF -1.2 USD", "2021-01-01 price CHF 1. USD", "2021-01-01 price CHF USD", "2021-01-01 price CHF 1.2",
	"2021-01-01 balance A:B 100 CHF", "2021-01-01 balance A:B 100", "2021-01-01 balance\nA:B 100 CHF\nA:C -2.5 USD\n", "2021-01-01 balance\n", "2021-01-01 balance\n\n",
	"2021-01-01 balance\nA:B 100 CHF\n2021-01-02 open A", "2021-01-01 balance \t\r\nA:B 100 CHF",
	"2021-01-01 \"desc\"\nA B 1 CHF", "2021-01-01 \"desc\"\nA B 1 CHF\n", "2021-01-01 \"desc\"\nA B 1 CHF\n\n", "2021-01-01 \"desc\"\nA B 1 CHF\nC D 2 USD\n\n2021-01-02 open X\n",
	"2021-01-01 \"desc\"\nA B 1 CHF\n2021-01-02 open X\n", "2021-01-01 \"desc\"\nA B 1 CHF\n# comment\n", "2021-01-01 \"desc\"\n", "2021-01-01 \"desc\"", "2021-01-01 \"desc\" A B 1 CHF",
	"2021-01-01 \"multi\nline\n\ndesc\"\nA B 1 CHF\n", "2021-01-01 \"\"\nA B 1 CHF\n", "2021-01-01\"x\"\nA B 1 CHF\n", "2021-01-01 \"x\"\n A B 1 CHF\n", "2021-01-01 \"x\"\nA B 1 CHF \t \n \t \n",
	"2021-01-01 \"x\"\n$dividend B 1 CHF\n", "2021-01-01 \"x\"\nA $x 1 CHF\n", "2021-01-01 \"x\"\nA B 1CHF\n", "2021-01-01 \"x\"\nA B 1\n", "2021-01-01 \"x\"\nA B\n",
	"@performance(USD)\n2021-01-01 \"x\"\nA B 1 CHF\n", "@performance()\n2021-01-01 \"x\"\nA B 1 CHF\n", "@performance( USD , CHF )\n2021-01-01 \"x\"\nA B 1 CHF\n", "@performance(USD,)\n2021-01-01 \"x\"\nA B 1 CHF\n",
	"@performance (USD)\n2021-01-01 \"x\"\nA B 1 CHF\n", "@performance(USD)\n@performance(CHF)\n2021-01-01 \"x\"\nA B 1 CHF\n", "@performance(USD)\n\n2021-01-01 \"x\"\nA B 1 CHF\n", "@performance(USD)", "@performance(USD)\n", "@performance(", "@",
	"@accrue monthly 2021-01-01 2021-12-31 A:B\n2021-01-01 \"x\"\nA B 1 CHF\n", "@accrue yearly 2021-01-01 2021-12-31 A:B\n2021-01-01 \"x\"\nA B 1 CHF\n", "@accrue monthly 2021-01-01 2021-12-31\n2021-01-01 \"x\"\nA B 1 CHF\n",
	"@accrue monthly 2021-01-01 2021-12-31 A:B\n@performance(USD)\n2021-01-01 \"x\"\nA B 1 CHF\n", "@performance(USD)\n@accrue monthly 2021-01-01 2021-12-31 A:B\n2021-01-01 \"x\"\nA B 1 CHF\n",
	"@accrue monthly 2021-01-01 2021-12-31 A:B\n@accrue monthly 2021-01-01 2021-12-31 A:B\n2021-01-01 \"x\"\nA B 1 CHF\n", "@accrue", "@accrue ", "@accruemonthly",
	"@performance(USD)\n2021-01-01 open A:B\n", "@accrue monthly 2021-01-01 2021-12-31 A:B\ninclude \"x\"\n", "@performance(USD)\n2021-01-01 balance\nA 1 C\n",
	"\ufeff2021-01-01 open A", "2021-01-01 open A\x00", "2021-01-01 open A\xff", "\xff", "\x00", "2021-01-01 open Ärzte:現金\n", "2021-01-01 open A\f\n", "2021-01-01 open A\r", "2021-01-01 open A\rB",
	"٢٠٢١-٠١-٠١ open A", "2021-01-01 price CHF ١.٢ USD", "2021-13-45 open A", "2021-01-01 frobnicate A", "2021-01-01 openA", "2021-01-01\nopen A", "2021-01-01", "2021-01-0", "2021-",
	"# c1\n# c2\n\n* h\n2021-01-01 open A\n# c3\n2021-01-02 open B\n// c4", "#\xff", "//\xc0\xaf\n", "* \xed\xa0\x80",
}

// Describe names a stacked mutation for evidence.
func Describe(names []string) string { return fmt.Sprint(strings.Join(names, "+")) }
