package syn

import "testing"

// FuzzParse is the coverage-guided counterpart of the C07 input families (and,
// for accepted inputs, of the model-free part of the C08 oracle). Run with a
// count budget:
//
//	go test -run '^$' -fuzz '^FuzzParse$' -fuzztime 1000000x ./syn
func FuzzParse(f *testing.F) {
	for _, s := range Snippets {
		f.Add(s)
	}
	f.Fuzz(func(t *testing.T, text string) {
		out := Parse(text, "fuzz.knut")
		fd, st := Judge(text, out)
		if fd != nil {
			t.Fatalf("C07 %s: %s", fd.Key, fd.Why)
		}
		if !st.Accepted {
			return
		}
		if fd := JudgeFormat(text, out); fd != nil {
			t.Fatalf("C08 %s: %s", fd.Key, fd.Why)
		}
	})
}
