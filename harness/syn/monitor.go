// Package syn holds what the checks of the syntax layer (C07 parser totality
// and lossless cover, C08 format) share: a guarded driver of the real parser,
// the monitor that judges a returned tree or error against the text, readers
// that turn a returned tree into gap / semantic-tuple sequences, and a layout
// generator that renders abstract journals into concrete syntax in many
// layouts.
//
// The monitor is written from the statement of C07, not from the parser: it
// knows the input text and judges the ranges the parser hands back against it.
package syn

import (
	"fmt"
	"reflect"
	"regexp"
	"runtime/debug"
	"sort"
	"strings"
	"time"
	"unicode"
	"unicode/utf8"

	"github.com/sboehler/knut/lib/syntax/directives"
	"github.com/sboehler/knut/lib/syntax/parser"
)

// Finding is one observed deviation from the property.
type Finding struct {
	Key string // specific classifier key
	Why string
}

func finding(key, format string, args ...any) *Finding {
	return &Finding{Key: key, Why: fmt.Sprintf(format, args...)}
}

// Outcome is everything observed from one run of the parser on one text.
type Outcome struct {
	File  directives.File
	Err   error
	Panic string // non-empty: the parser (or a renderer) panicked; value + stack
	Stage string // where the panic happened
}

// Parse runs the exact call sequence of syntax.ParseFile on text, each call
// inside a recover wrapper.
func Parse(text, path string) (out Outcome) {
	var p *parser.Parser
	if out.guard("parser.New", func() { p = parser.New(text, path) }); out.Panic != "" {
		return
	}
	if out.guard("Parser.Advance", func() { out.Err = p.Advance() }); out.Panic != "" || out.Err != nil {
		return
	}
	out.guard("Parser.ParseFile", func() { out.File, out.Err = p.ParseFile() })
	return
}

func (o *Outcome) guard(stage string, f func()) {
	defer func() {
		if r := recover(); r != nil {
			o.Panic = fmt.Sprintf("%v\n%s", r, debug.Stack())
			o.Stage = stage
		}
	}()
	f()
}

// Watchdog runs f in its own goroutine and reports whether it returned within
// the timeout. A goroutine that does not return is abandoned.
func Watchdog(timeout time.Duration, f func()) bool {
	done := make(chan struct{})
	go func() {
		defer close(done)
		f()
	}()
	t := time.NewTimer(timeout)
	defer t.Stop()
	select {
	case <-done:
		return true
	case <-t.C:
		return false
	}
}

// Stats is what the monitor saw in one outcome (for evidence and for the
// non-triviality rules).
type Stats struct {
	Accepted      bool
	Directives    int
	Kinds         []string // type names of the top-level directives
	Ranges        int      // ranges judged in the tree
	ErrChain      []string // messages along the error chain, outermost first
	ErrDepth      int
	LocChecked    int
	ErrEnd        int  // End of the outermost error range
	NonASCIIDigit bool // a date / decimal leaf holds non-ASCII Unicode digits (observation only)
	Gaps          []string
}

// Judge applies the monitor of C07 to one outcome. It returns the first
// deviation (nil when the outcome conforms) and what it saw.
func Judge(text string, out Outcome) (*Finding, Stats) {
	var st Stats
	if out.Panic != "" {
		return finding("panic-"+panicSite(out.Panic), "%s panicked: %s", out.Stage, firstLine(out.Panic)), st
	}
	if out.Err != nil {
		f := judgeError(text, out.Err, &st)
		return f, st
	}
	st.Accepted = true
	f := judgeTree(text, out.File, &st)
	return f, st
}

// ---------------------------------------------------------------- errors

func judgeError(text string, err error, st *Stats) *Finding {
	outer, ok := err.(directives.Error)
	if !ok {
		return finding("error-not-positioned", "the parser failed with an error that carries no position (%T: %v)", err, err)
	}
	st.ErrEnd = outer.End
	var cur error = outer
	for depth := 0; cur != nil; depth++ {
		if depth > 10000 {
			return finding("error-chain-unbounded", "the Wrapped chain of the error is longer than 10000")
		}
		de, ok := cur.(directives.Error)
		if !ok {
			// the innermost cause may be a plain error (io.EOF, ...)
			st.ErrChain = append(st.ErrChain, "plain:"+fmt.Sprintf("%T", cur))
			break
		}
		st.ErrDepth++
		st.ErrChain = append(st.ErrChain, de.Message)
		if !(0 <= de.Start && de.Start <= de.End && de.End <= len(text)) {
			return finding("error-range-outside-text", "error %q at depth %d has range [%d,%d) outside the text of length %d",
				de.Message, depth, de.Start, de.End, len(text))
		}
		// the position must be renderable
		var rendered string
		if p := try(func() { rendered = de.Error() }); p != "" {
			return finding("error-render-panic-Error", "Error() of %q (range [%d,%d), depth %d) panicked: %s", de.Message, de.Start, de.End, depth, firstLine(p))
		}
		var loc directives.Location
		if p := try(func() { loc = de.Range.Location() }); p != "" {
			return finding("error-render-panic-Location", "Range.Location() of %q (range [%d,%d), depth %d) panicked: %s", de.Message, de.Start, de.End, depth, firstLine(p))
		}
		if p := try(func() { _ = de.Range.Context(1) }); p != "" {
			return finding("error-render-panic-Context", "Range.Context(1) of %q (range [%d,%d), depth %d) panicked: %s", de.Message, de.Start, de.End, depth, firstLine(p))
		}
		if loc.Line < 1 || loc.Col < 1 {
			return finding("error-location-not-positive", "Range.Location() of %q = %d:%d", de.Message, loc.Line, loc.Col)
		}
		// "position lies inside the input": the rendered line exists in the text, and when the
		// end offset falls on a character boundary, line and column are the ones of that offset
		// (own count: newlines before the offset, characters since the last newline)
		nl := strings.Count(text, "\n")
		if loc.Line > nl+1 {
			return finding("error-location-outside-text", "Range.Location() of %q = %d:%d, the text has %d lines", de.Message, loc.Line, loc.Col, nl+1)
		}
		onBoundary := de.End == len(text)
		for pos := range text {
			if pos == de.End {
				onBoundary = true
				break
			}
			if pos > de.End {
				break
			}
		}
		if onBoundary && de.End < len(text) {
			head := text[:de.End]
			wantLine := 1 + strings.Count(head, "\n")
			wantCol := 1 + utf8.RuneCountInString(head[strings.LastIndexByte(head, '\n')+1:])
			if loc.Line != wantLine || loc.Col != wantCol {
				return finding("error-location-wrong", "Range.Location() of %q (end offset %d) = %d:%d, the offset is at %d:%d", de.Message, de.End, loc.Line, loc.Col, wantLine, wantCol)
			}
			st.LocChecked++
		}
		if depth == 0 && rendered == "" {
			return finding("error-renders-empty", "Error() of the outermost error is empty")
		}
		if depth == 0 && !strings.Contains(rendered, loc.String()) {
			return finding("error-render-without-position", "Error() = %q does not contain the position %s", truncStr(rendered, 200), loc)
		}
		cur = de.Wrapped
	}
	return nil
}

func try(f func()) (p string) {
	defer func() {
		if r := recover(); r != nil {
			p = fmt.Sprintf("%v\n%s", r, debug.Stack())
		}
	}()
	f()
	return ""
}

// ---------------------------------------------------------------- trees

var rangeType = reflect.TypeOf(directives.Range{})

type walker struct {
	text string
	st   *Stats
	f    *Finding
}

func judgeTree(text string, file directives.File, st *Stats) *Finding {
	w := &walker{text: text, st: st}
	w.walk(reflect.ValueOf(file), nil, "File")
	if w.f != nil {
		return w.f
	}
	// top-level directives: strictly increasing, pairwise disjoint
	st.Directives = len(file.Directives)
	pos := 0
	var rebuilt strings.Builder
	for i, d := range file.Directives {
		if d.Start >= d.End {
			return finding("directive-empty", "top-level directive %d has the empty range [%d,%d)", i, d.Start, d.End)
		}
		if i > 0 {
			prev := file.Directives[i-1]
			if !(prev.Start < d.Start) {
				return finding("directives-not-increasing", "top-level directive %d starts at %d, its predecessor at %d", i, d.Start, prev.Start)
			}
			if prev.End > d.Start {
				return finding("directives-overlap", "top-level directives %d [%d,%d) and %d [%d,%d) overlap", i-1, prev.Start, prev.End, i, d.Start, d.End)
			}
		}
		if d.Directive == nil {
			return finding("directive-without-content", "top-level directive %d [%d,%d) carries no directive", i, d.Start, d.End)
		}
		st.Kinds = append(st.Kinds, reflect.TypeOf(d.Directive).Name())
		gap := text[pos:d.Start]
		if f := judgeGap(text, pos, d.Start, len(st.Gaps)); f != nil {
			return f
		}
		st.Gaps = append(st.Gaps, gap)
		rebuilt.WriteString(gap)
		rebuilt.WriteString(d.Extract()) // walk() has shown that this cannot panic
		pos = d.End
	}
	if f := judgeGap(text, pos, len(text), len(st.Gaps)); f != nil {
		return f
	}
	st.Gaps = append(st.Gaps, text[pos:])
	rebuilt.WriteString(text[pos:])
	if rebuilt.String() != text {
		return finding("cover-not-lossless", "gaps and directives do not re-concatenate to the input (%d bytes rebuilt, %d bytes input)", rebuilt.Len(), len(text))
	}
	return nil
}

// judgeGap: the text outside directives consists only of whitespace and
// comment lines. A piece that shares its line with a directive (the rest of
// the directive's last line, or what precedes a directive on its first line)
// is not a line of its own, so it can only be whitespace.
func judgeGap(text string, from, to, idx int) *Finding {
	gap := text[from:to]
	if gap == "" {
		return nil
	}
	startsLine := from == 0 || text[from-1] == '\n'
	endsLine := to == len(text) || text[to-1] == '\n'
	pieces := strings.Split(gap, "\n")
	last := len(pieces) - 1
	if gap[len(gap)-1] == '\n' {
		last-- // the empty piece after the final newline is not a line
	}
	for k := 0; k <= last; k++ {
		line := pieces[k]
		whole := (k > 0 || startsLine) && (k < len(pieces)-1 || endsLine)
		if isBlank(line) {
			continue
		}
		if whole && isCommentLine(line) {
			continue
		}
		off := from
		for _, p := range pieces[:k] {
			off += len(p) + 1
		}
		if !whole {
			return finding("gap-partial-line-not-blank", "gap %d [%d,%d): %q at offset %d shares its line with a directive and is not whitespace", idx, from, to, trunc(line, 60), off)
		}
		return finding("gap-line-not-blank-or-comment", "gap %d [%d,%d): line %q at offset %d is neither whitespace nor a comment line", idx, from, to, trunc(line, 60), off)
	}
	return nil
}

func isBlank(s string) bool {
	for _, r := range s {
		if !unicode.IsSpace(r) {
			return false
		}
	}
	return true
}

func isCommentLine(s string) bool {
	return strings.HasPrefix(s, "#") || strings.HasPrefix(s, "*") || strings.HasPrefix(s, "//")
}

// absentOK lists the element types that may be absent (all-zero) in a tree.
var absentOK = map[string]bool{"Addons": true, "Performance": true, "Accrual": true}

func (w *walker) walk(v reflect.Value, parent *directives.Range, where string) {
	if w.f != nil {
		return
	}
	switch v.Kind() {
	case reflect.Interface:
		if v.IsNil() {
			return // judged by the caller (directive-without-content)
		}
		w.walk(v.Elem(), parent, where)
	case reflect.Pointer:
		if !v.IsNil() {
			w.walk(v.Elem(), parent, where)
		}
	case reflect.Slice, reflect.Array:
		for i := 0; i < v.Len(); i++ {
			w.walk(v.Index(i), parent, fmt.Sprintf("%s[%d]", where, i))
		}
	case reflect.Struct:
		t := v.Type()
		if t == rangeType {
			r := v.Interface().(directives.Range)
			w.judgeRange(r, parent, where)
			return
		}
		if absentOK[t.Name()] && v.IsZero() {
			return
		}
		own := parent
		if f, ok := t.FieldByName("Range"); ok && f.Anonymous && f.Type == rangeType {
			r := v.FieldByName("Range").Interface().(directives.Range)
			w.judgeRange(r, parent, where)
			if w.f != nil {
				return
			}
			own = &r
			w.judgeClass(t.Name(), v, r, where)
			if w.f != nil {
				return
			}
		}
		for i := 0; i < t.NumField(); i++ {
			sf := t.Field(i)
			if sf.Anonymous && sf.Type == rangeType {
				continue
			}
			if !sf.IsExported() {
				continue
			}
			w.walk(v.Field(i), own, where+"."+sf.Name)
		}
		if w.f != nil {
			return
		}
		// the direct children of one element do not overlap one another
		type sib struct {
			r    directives.Range
			name string
		}
		var sibs []sib
		var collect func(x reflect.Value, name string)
		collect = func(x reflect.Value, name string) {
			switch x.Kind() {
			case reflect.Interface, reflect.Pointer:
				if !x.IsNil() {
					collect(x.Elem(), name)
				}
			case reflect.Slice, reflect.Array:
				for i := 0; i < x.Len(); i++ {
					collect(x.Index(i), fmt.Sprintf("%s[%d]", name, i))
				}
			case reflect.Struct:
				xt := x.Type()
				if absentOK[xt.Name()] && x.IsZero() {
					return
				}
				if f, ok := xt.FieldByName("Range"); ok && f.Anonymous && f.Type == rangeType {
					r := x.FieldByName("Range").Interface().(directives.Range)
					if r.End > r.Start {
						sibs = append(sibs, sib{r, name})
					}
				}
			}
		}
		for i := 0; i < t.NumField(); i++ {
			sf := t.Field(i)
			if (sf.Anonymous && sf.Type == rangeType) || !sf.IsExported() {
				continue
			}
			collect(v.Field(i), sf.Name)
		}
		sort.Slice(sibs, func(a, b int) bool { return sibs[a].r.Start < sibs[b].r.Start })
		for i := 1; i < len(sibs); i++ {
			if sibs[i].r.Start < sibs[i-1].r.End {
				w.f = finding("siblings-overlap", "%s: children %s [%d,%d) and %s [%d,%d) overlap", where, sibs[i-1].name, sibs[i-1].r.Start, sibs[i-1].r.End, sibs[i].name, sibs[i].r.Start, sibs[i].r.End)
				return
			}
		}
	}
}

func (w *walker) judgeRange(r directives.Range, parent *directives.Range, where string) {
	w.st.Ranges++
	n := len(w.text)
	if !(0 <= r.Start && r.Start <= r.End && r.End <= n) {
		w.f = finding("range-outside-text", "%s has range [%d,%d) outside the text of length %d", where, r.Start, r.End, n)
		return
	}
	if r.Text != w.text {
		w.f = finding("range-of-other-text", "%s [%d,%d) refers to a text of %d bytes that is not the input (%d bytes)", where, r.Start, r.End, len(r.Text), n)
		return
	}
	var got string
	if p := try(func() { got = r.Extract() }); p != "" {
		w.f = finding("extract-panic", "%s [%d,%d): Extract() panicked: %s", where, r.Start, r.End, firstLine(p))
		return
	}
	if got != w.text[r.Start:r.End] {
		w.f = finding("extract-not-the-slice", "%s [%d,%d): Extract() = %q, the slice is %q", where, r.Start, r.End, trunc(got, 60), trunc(w.text[r.Start:r.End], 60))
		return
	}
	if parent != nil && !(parent.Start <= r.Start && r.End <= parent.End) {
		w.f = finding("child-outside-parent", "%s [%d,%d) does not lie within its parent [%d,%d)", where, r.Start, r.End, parent.Start, parent.End)
	}
}

// judgeClass: typed leaves match their lexical class. Digits and letters are
// the Unicode classes (the statement does not restrict them to ASCII);
// non-ASCII digits in numbers are recorded as an observation.
func (w *walker) judgeClass(typ string, v reflect.Value, r directives.Range, where string) {
	s := w.text[r.Start:r.End]
	bad := func(class string) {
		w.f = finding("leaf-not-in-class-"+typ, "%s [%d,%d) = %q is not a %s", where, r.Start, r.End, trunc(s, 60), class)
	}
	switch typ {
	case "Date":
		rs := []rune(s)
		ok := len(rs) == 10
		for i := 0; ok && i < 10; i++ {
			if i == 4 || i == 7 {
				ok = rs[i] == '-'
			} else {
				ok = unicode.IsDigit(rs[i])
			}
		}
		if !ok {
			bad("date dddd-dd-dd")
			return
		}
		w.noteDigits(s)
	case "Decimal":
		if !isDecimal(s) {
			bad("decimal -?d+(.d+)?")
			return
		}
		w.noteDigits(s)
	case "Commodity":
		if !isAlnum(s) {
			bad("commodity (letters and digits)")
		}
	case "Account":
		macro := v.FieldByName("Macro").Bool()
		if macro {
			if !(strings.HasPrefix(s, "$") && len(s) > 1 && allRunes(s[1:], unicode.IsLetter)) {
				bad("macro account $letters")
			}
			return
		}
		for _, seg := range strings.Split(s, ":") {
			if !isAlnum(seg) {
				bad("account (segments of letters and digits joined by ':')")
				return
			}
		}
	case "Interval":
		switch s {
		case "daily", "weekly", "monthly", "quarterly":
		default:
			bad("interval")
		}
	case "QuotedString":
		c := v.FieldByName("Content").Interface().(directives.Range)
		if len(s) < 2 || s[0] != '"' || s[len(s)-1] != '"' {
			bad("string delimited by double quotes")
			return
		}
		if c.Start != r.Start+1 || c.End != r.End-1 {
			w.f = finding("quoted-content-not-inside", "%s [%d,%d): Content [%d,%d) is not exactly the text between the quotes", where, r.Start, r.End, c.Start, c.End)
			return
		}
		if strings.Contains(s[1:len(s)-1], "\"") {
			bad("string without an inner double quote")
		}
	}
}

func (w *walker) noteDigits(s string) {
	for _, c := range s {
		if c > unicode.MaxASCII && unicode.IsDigit(c) {
			w.st.NonASCIIDigit = true
		}
	}
}

func isDecimal(s string) bool {
	s = strings.TrimPrefix(s, "-")
	ip, fp, hasDot := strings.Cut(s, ".")
	if ip == "" || !allRunes(ip, unicode.IsDigit) {
		return false
	}
	if hasDot && (fp == "" || !allRunes(fp, unicode.IsDigit)) {
		return false
	}
	return true
}

func isAlnum(s string) bool {
	return s != "" && allRunes(s, func(r rune) bool { return unicode.IsLetter(r) || unicode.IsDigit(r) })
}

func allRunes(s string, pred func(rune) bool) bool {
	for i := 0; i < len(s); {
		r, n := utf8.DecodeRuneInString(s[i:])
		if r == utf8.RuneError && n <= 1 {
			return false
		}
		if !pred(r) {
			return false
		}
		i += n
	}
	return true
}

// ---------------------------------------------------------------- helpers

func firstLine(s string) string {
	if i := strings.IndexByte(s, '\n'); i >= 0 {
		return s[:i]
	}
	return s
}

func trunc(s string, n int) string {
	if len(s) <= n {
		return s
	}
	return s[:n] + "..."
}

// panicSite extracts "file.go:line" of the first frame below the runtime from a
// panic blob (value + debug.Stack()), so that different crash sites get
// different keys.
func panicSite(blob string) string {
	lines := strings.Split(blob, "\n")
	for _, l := range lines {
		l = strings.TrimSpace(l)
		if !strings.Contains(l, ".go:") {
			continue
		}
		if strings.Contains(l, "/runtime/") || strings.Contains(l, "harness/syn/") || strings.Contains(l, "kverif/") {
			continue
		}
		// "/repo/lib/syntax/scanner/scanner.go:96 +0x1d"
		if i := strings.IndexByte(l, ' '); i > 0 {
			l = l[:i]
		}
		if i := strings.LastIndexByte(l, '/'); i >= 0 {
			l = l[i+1:]
		}
		return l
	}
	return "unknown-site"
}

var charRe = regexp.MustCompile("(?s)character `.`")

// ErrorClass strips numbers and quoted fragments from a message.
func ErrorClass(msg string) string {
	msg = charRe.ReplaceAllString(msg, "character `_`")
	var b strings.Builder
	inTick := false
	inQuote := false
	for _, r := range msg {
		switch {
		case r == '`':
			inTick = !inTick
			if !inTick {
				b.WriteString("`_`")
			}
		case inTick:
		case r == '"':
			inQuote = !inQuote
			if !inQuote {
				b.WriteString("\"_\"")
			}
		case inQuote:
		case r >= '0' && r <= '9':
			if !strings.HasSuffix(b.String(), "N") {
				b.WriteByte('N')
			}
		default:
			b.WriteRune(r)
		}
	}
	if inTick || inQuote {
		b.WriteString("_")
	}
	return b.String()
}

func truncStr(s string, n int) string {
	if len(s) > n {
		return s[:n] + "..."
	}
	return s
}
