package syn

import (
	"fmt"
	"math/rand"
	"strings"

	"kverif/gen"
)

// Layout is one concrete rendering of a list of abstract directives.
type Layout struct {
	Text  string
	Items []Item
	// Gaps[i] is the whole-line material (blank lines, comments, headings) the
	// generator put before directive i; Gaps[len(Items)] follows the last one.
	Gaps     []string
	Features map[string]bool
}

type layouter struct {
	r       *rand.Rand
	eolMode int // 0 LF, 1 CRLF, 2 mixed
	pTab    int // percent
	pMulti  int
	pTrail  int
	feat    map[string]bool
}

type piece struct {
	text string
	gap  int // index of the gap the piece belongs to, -1 for directive text
}

// Render lays the items out in a random layout the grammar accepts:
// directives start in column 0; tokens are separated by blanks and tabs; lines
// end in LF or CRLF and may carry trailing blanks; a transaction or a
// multi-line assertion is followed by a whitespace-only line or the end of the
// file; comment lines (#, //, *) and whitespace-only lines may stand anywhere
// else between directives; the final newline may be missing.
func Render(r *rand.Rand, items []Item) *Layout {
	l := &layouter{r: r, feat: map[string]bool{}}
	switch r.Intn(6) {
	case 0, 1, 2:
		l.eolMode = 0
	case 3, 4:
		l.eolMode = 1
	default:
		l.eolMode = 2
	}
	l.pTab = []int{0, 0, 10, 40, 100}[r.Intn(5)]
	l.pMulti = []int{0, 10, 30, 60}[r.Intn(4)]
	l.pTrail = []int{0, 0, 10, 40}[r.Intn(4)]
	gapStyle := r.Intn(5) // 0 dense (few gaps) .. 4 rich

	var pieces []piece
	prevBlock := false
	for i, it := range items {
		// gap before directive i
		pieces = append(pieces, l.gap(i, gapStyle, prevBlock, i == 0, false)...)
		lines, block := l.directive(it)
		for _, ln := range lines {
			pieces = append(pieces, piece{ln + l.trail() + l.eol(), -1})
		}
		prevBlock = block
	}
	pieces = append(pieces, l.gap(len(items), gapStyle, prevBlock, len(items) == 0, true)...)
	// missing final newline
	if len(pieces) > 0 && r.Intn(4) == 0 {
		last := &pieces[len(pieces)-1]
		switch {
		case strings.HasSuffix(last.text, "\r\n"):
			if r.Intn(2) == 0 {
				last.text = strings.TrimSuffix(last.text, "\r\n")
			} else {
				last.text = strings.TrimSuffix(last.text, "\n")
			}
		default:
			last.text = strings.TrimSuffix(last.text, "\n")
		}
		l.feat["no_final_newline"] = true
		if last.gap < 0 {
			l.feat["no_final_newline_after_directive"] = true
			if prevBlock {
				l.feat["no_final_newline_after_block"] = true
			}
		}
	}
	lay := &Layout{Items: items, Gaps: make([]string, len(items)+1), Features: l.feat}
	var b strings.Builder
	for _, p := range pieces {
		b.WriteString(p.text)
		if p.gap >= 0 {
			lay.Gaps[p.gap] += p.text
		}
	}
	lay.Text = b.String()
	for _, it := range items {
		for _, a := range it.accounts() {
			if len([]rune(a)) != len(a) {
				l.feat["unicode_account_names"] = true
			}
		}
	}
	return lay
}

func (l *layouter) eol() string {
	switch l.eolMode {
	case 0:
		return "\n"
	case 1:
		l.feat["crlf"] = true
		return "\r\n"
	}
	if l.r.Intn(2) == 0 {
		return "\n"
	}
	l.feat["crlf"] = true
	l.feat["mixed_eol"] = true
	return "\r\n"
}

func (l *layouter) sep() string {
	r := l.r
	if r.Intn(100) < l.pTab {
		l.feat["tabs"] = true
		return []string{"\t", "\t\t", " \t", "\t ", " \t "}[r.Intn(5)]
	}
	if r.Intn(100) < l.pMulti {
		l.feat["multiple_blanks"] = true
		return strings.Repeat(" ", 2+r.Intn(12))
	}
	return " "
}

func (l *layouter) trail() string {
	r := l.r
	if r.Intn(100) >= l.pTrail {
		return ""
	}
	l.feat["trailing_blanks"] = true
	return []string{" ", "  ", "\t", " \t", "      "}[r.Intn(5)]
}

var commentWords = []string{"note", "TODO", "Zürich", "現金", "2020-01-01 open Assets:X", "\"quoted\"", "@performance(USD)", "x", "* not a heading", "// nested", "balance", "include \"y.knut\"", "✓", "tab\there", "20% of", "%s %d %v", "100%", "%!x(MISSING)", "\\n \\t", "{{.}}"}

func (l *layouter) commentLine() string {
	r := l.r
	words := func() string {
		n := 1 + r.Intn(3)
		var ws []string
		for i := 0; i < n; i++ {
			ws = append(ws, commentWords[r.Intn(len(commentWords))])
		}
		return strings.Join(ws, " ")
	}
	switch r.Intn(10) {
	case 0:
		l.feat["comment_hash"] = true
		return "#"
	case 1, 2, 3:
		l.feat["comment_hash"] = true
		return "# " + words()
	case 4:
		l.feat["comment_hash"] = true
		return "#" + words() + "  "
	case 5:
		l.feat["comment_slashes"] = true
		return "//"
	case 6:
		l.feat["comment_slashes"] = true
		return "// " + words()
	case 7:
		l.feat["org_heading"] = true
		return "*"
	case 8:
		l.feat["org_heading"] = true
		return "* " + words()
	default:
		l.feat["org_heading"] = true
		return "** " + words()
	}
}

func (l *layouter) blankLine() string {
	if l.r.Intn(4) == 0 {
		l.feat["whitespace_only_line"] = true
		return []string{" ", "\t", "   ", " \t "}[l.r.Intn(4)]
	}
	return ""
}

// gap draws the material before directive i (or after the last one).
func (l *layouter) gap(i, style int, prevBlock, first, last bool) []piece {
	r := l.r
	var lines []string
	n := 0
	switch style {
	case 0:
		n = r.Intn(2)
	case 1:
		n = 1
	case 2:
		n = r.Intn(3)
	case 3:
		n = 1 + r.Intn(3)
	default:
		n = r.Intn(6)
	}
	if last && r.Intn(2) == 0 {
		n = 0
	}
	needBlank := prevBlock && !last
	if needBlank && n == 0 {
		n = 1
	}
	blanks := 0
	for k := 0; k < n; k++ {
		var ln string
		isComment := false
		switch {
		case k == 0 && prevBlock:
			ln = l.blankLine() // a block directive ends at a whitespace-only line
		case style == 1:
			ln = l.blankLine()
		case r.Intn(2) == 0:
			ln = l.blankLine()
		default:
			ln = l.commentLine()
			isComment = true
		}
		if isComment {
			blanks = 0
			if k == 0 && !first && !prevBlock {
				l.feat["comment_directly_after_directive"] = true
			}
			if k == n-1 && !last {
				l.feat["comment_directly_before_directive"] = true
			}
		} else {
			blanks++
			if blanks >= 2 {
				l.feat["blank_run"] = true
			}
		}
		lines = append(lines, ln)
	}
	if n == 0 && !first && !last {
		l.feat["adjacent_directives"] = true
	}
	if first && n > 0 {
		l.feat["material_before_first_directive"] = true
	}
	if last && n > 0 {
		l.feat["material_after_last_directive"] = true
	}
	var ps []piece
	for _, ln := range lines {
		ps = append(ps, piece{ln + l.eol(), i})
	}
	return ps
}

// directive renders one item as lines (without line ends); block reports
// whether the directive must be followed by a whitespace-only line or EOF.
func (l *layouter) directive(it Item) (lines []string, block bool) {
	r := l.r
	if it.IsInclude {
		l.feat["include"] = true
		return []string{"include" + l.sep() + "\"" + it.Include + "\""}, false
	}
	d := it.Dir
	date := d.Date.String()
	switch d.Kind {
	case gen.KPrice:
		return []string{date + l.sep() + "price" + l.sep() + d.Com + l.sep() + d.Price + l.sep() + d.Tgt}, false
	case gen.KOpen:
		return []string{date + l.sep() + "open" + l.sep() + d.Acc}, false
	case gen.KClose:
		return []string{date + l.sep() + "close" + l.sep() + d.Acc}, false
	case gen.KAssert:
		if len(d.Bals) == 1 && !d.MultiLine {
			b := d.Bals[0]
			l.feat["assertion_single_line"] = true
			return []string{date + l.sep() + "balance" + l.sep() + b.Acc + l.sep() + b.Qty + l.sep() + b.Com}, false
		}
		if len(d.Bals) == 1 {
			l.feat["assertion_multi_line_1"] = true
		} else {
			l.feat["assertion_multi_line_n"] = true
		}
		lines = append(lines, date+l.sep()+"balance")
		for _, b := range d.Bals {
			lines = append(lines, b.Acc+l.sep()+b.Qty+l.sep()+b.Com)
		}
		return lines, true
	case gen.KTxn:
		var accrue, perf string
		if d.Accrual != nil {
			a := d.Accrual
			accrue = "@accrue" + l.sep() + a.Interval + l.sep() + a.Start.String() + l.sep() + a.End.String() + l.sep() + a.Account
			l.feat["accrual"] = true
		}
		if d.HasPerf {
			ws := func() string {
				if r.Intn(4) == 0 {
					l.feat["performance_inner_blanks"] = true
					return []string{" ", "  ", "\t"}[r.Intn(3)]
				}
				return ""
			}
			var b strings.Builder
			b.WriteString("@performance(" + ws())
			for k, t := range d.Perf {
				if k > 0 {
					b.WriteString("," + ws())
				}
				b.WriteString(t + ws())
			}
			b.WriteString(")")
			perf = b.String()
			l.feat[fmt.Sprintf("performance_%d_targets", len(d.Perf))] = true
		}
		switch {
		case accrue != "" && perf != "":
			if r.Intn(2) == 0 {
				lines = append(lines, perf, accrue)
				l.feat["performance_before_accrue"] = true
			} else {
				lines = append(lines, accrue, perf)
				l.feat["accrue_before_performance"] = true
			}
		case accrue != "":
			lines = append(lines, accrue)
		case perf != "":
			lines = append(lines, perf)
		}
		if strings.Contains(d.Desc, "\n") {
			l.feat["description_multi_line"] = true
		}
		if d.Desc == "" {
			l.feat["description_empty"] = true
		}
		lines = append(lines, date+l.sep()+"\""+d.Desc+"\"")
		for _, b := range d.Bookings {
			lines = append(lines, b.Credit+l.sep()+b.Debit+l.sep()+b.Qty+l.sep()+b.Com)
		}
		return lines, true
	}
	panic("unknown kind")
}

// ---------------------------------------------------------------- items

var exoticSegs = []string{"Ä", "現金現金現金", "𝔘𝔫𝔦", "ß", "a1", "2020", "Ω", "ÀÉÎÕÜ", "x", "Ж9", "éé", "Lang" + strings.Repeat("e", 40)}

var descExtras = []string{
	"line one\nline two", "\nleading newline", "trailing newline\n", "a\n\nb", "crlf inside\r\nsecond",
	"# not a comment", "// neither", "* nor a heading", "Assets:A Assets:B 1 CHF", "  padded  ", "tab\tinside",
	"", "it's 100% – ok ✓", "2020-01-01 open Assets:X", "@performance(USD)", "semi;colon, comma", "\\backslash\\n",
	"first\n# second line looks like a comment\nthird", strings.Repeat("long ", 60),
}

// Items turns a generated journal into layout items: includes added,
// descriptions enriched (multi-line, comment-like, empty), some account
// segments replaced by names of other rune/byte lengths, one-balance
// assertions rendered on several lines at random.
func Items(r *rand.Rand, j *gen.Journal) []Item {
	rename := map[string]string{}
	if r.Intn(2) == 0 {
		for k := 0; k < 1+r.Intn(3); k++ {
			rename[fmt.Sprint(k)] = exoticSegs[r.Intn(len(exoticSegs))]
		}
	}
	segNo := map[string]int{}
	ren := func(acc string) string {
		if len(rename) == 0 || acc == "" {
			return acc
		}
		segs := strings.Split(acc, ":")
		for i := 1; i < len(segs); i++ {
			n, ok := segNo[segs[i]]
			if !ok {
				n = len(segNo)
				segNo[segs[i]] = n
			}
			if to, ok := rename[fmt.Sprint(n%7)]; ok {
				// keep names distinct: the original segment's ordinal is appended
				segs[i] = fmt.Sprintf("%s%d", to, n)
			}
		}
		return strings.Join(segs, ":")
	}
	var items []Item
	for _, d := range j.Dirs {
		d.Acc = ren(d.Acc)
		if d.Kind == gen.KTxn {
			bks := make([]gen.Booking, len(d.Bookings))
			for i, b := range d.Bookings {
				b.Credit, b.Debit = ren(b.Credit), ren(b.Debit)
				bks[i] = b
			}
			d.Bookings = bks
			if d.Accrual != nil {
				a := *d.Accrual
				a.Account = ren(a.Account)
				d.Accrual = &a
			}
			switch r.Intn(5) {
			case 0:
				d.Desc = descExtras[r.Intn(len(descExtras))]
			case 1:
				d.Desc = d.Desc + "\n" + gen.Desc(r)
			}
		}
		if d.Kind == gen.KAssert {
			bals := make([]gen.Bal, len(d.Bals))
			for i, b := range d.Bals {
				b.Acc = ren(b.Acc)
				bals[i] = b
			}
			d.Bals = bals
			if len(bals) == 1 {
				d.MultiLine = r.Intn(3) == 0
			}
		}
		items = append(items, Item{Dir: d})
		if r.Intn(12) == 0 {
			incs := []string{"x.knut", "./sub/y.knut", "prices/USD.prices", "../up.knut", "with space.knut", "Zürich/現金.knut", "",
				"100%.knut", "%s/%d.knut", "a%20b.knut", "back\\slash.knut", "tab\there.knut", "#hash.knut", "// c.knut", "it's.knut", "*.knut", "$HOME/x.knut", "~/x.knut"}
			p := incs[r.Intn(len(incs))]
			items = append(items, Item{IsInclude: true, Include: p})
		}
	}
	return items
}

func (it Item) accounts() []string {
	res := []string{it.Acc}
	for _, b := range it.Bookings {
		res = append(res, b.Credit, b.Debit)
	}
	for _, b := range it.Bals {
		res = append(res, b.Acc)
	}
	if it.Accrual != nil {
		res = append(res, it.Accrual.Account)
	}
	return res
}
