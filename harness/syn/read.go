package syn

import (
	"bytes"
	"fmt"
	"strings"

	"github.com/sboehler/knut/lib/syntax"
	"github.com/sboehler/knut/lib/syntax/directives"

	"kverif/gen"
)

// Item is one abstract directive of a layout: a gen.Dir or an include.
type Item struct {
	gen.Dir
	Include   string // with IsInclude: the include path
	IsInclude bool
}

// Tuple is the semantic content of one directive as a canonical string: kind,
// date, accounts, decimal strings, commodities, description content, accrual
// fields, performance targets in order, include path. Layout is not part of it.
func (it Item) Tuple() string {
	if it.IsInclude {
		return fmt.Sprintf("include|%q", it.Include)
	}
	d := it.Dir
	switch d.Kind {
	case gen.KPrice:
		return fmt.Sprintf("price|%s|%s|%s|%s", d.Date, d.Com, d.Price, d.Tgt)
	case gen.KOpen:
		return fmt.Sprintf("open|%s|%s", d.Date, d.Acc)
	case gen.KClose:
		return fmt.Sprintf("close|%s|%s", d.Date, d.Acc)
	case gen.KAssert:
		var bs []string
		for _, b := range d.Bals {
			bs = append(bs, fmt.Sprintf("%s %s %s", b.Acc, b.Qty, b.Com))
		}
		return fmt.Sprintf("balance|%s|%s", d.Date, strings.Join(bs, ";"))
	case gen.KTxn:
		acc := "-"
		if d.Accrual != nil {
			acc = fmt.Sprintf("%s,%s,%s,%s", d.Accrual.Interval, d.Accrual.Start, d.Accrual.End, d.Accrual.Account)
		}
		perf := "-"
		if d.HasPerf {
			perf = "(" + strings.Join(d.Perf, ",") + ")"
		}
		var bs []string
		for _, b := range d.Bookings {
			bs = append(bs, fmt.Sprintf("%s %s %s %s", b.Credit, b.Debit, b.Qty, b.Com))
		}
		return fmt.Sprintf("txn|%s|%q|accrue=%s|perf=%s|%s", d.Date, d.Desc, acc, perf, strings.Join(bs, ";"))
	}
	return "?"
}

// TreeTuples reads the semantic tuples off a tree the parser returned.
func TreeTuples(f directives.File) []string {
	var res []string
	for _, d := range f.Directives {
		res = append(res, treeTuple(d))
	}
	return res
}

func present(r directives.Range) bool { return r.End > r.Start }

func treeTuple(dir directives.Directive) string {
	switch d := dir.Directive.(type) {
	case directives.Include:
		return fmt.Sprintf("include|%q", d.IncludePath.Content.Extract())
	case directives.Price:
		return fmt.Sprintf("price|%s|%s|%s|%s", d.Date.Extract(), d.Commodity.Extract(), d.Price.Extract(), d.Target.Extract())
	case directives.Open:
		return fmt.Sprintf("open|%s|%s", d.Date.Extract(), d.Account.Extract())
	case directives.Close:
		return fmt.Sprintf("close|%s|%s", d.Date.Extract(), d.Account.Extract())
	case directives.Assertion:
		var bs []string
		for _, b := range d.Balances {
			bs = append(bs, fmt.Sprintf("%s %s %s", b.Account.Extract(), b.Quantity.Extract(), b.Commodity.Extract()))
		}
		return fmt.Sprintf("balance|%s|%s", d.Date.Extract(), strings.Join(bs, ";"))
	case directives.Transaction:
		acc := "-"
		if a := d.Addons.Accrual; present(a.Range) {
			acc = fmt.Sprintf("%s,%s,%s,%s", a.Interval.Extract(), a.Start.Extract(), a.End.Extract(), a.Account.Extract())
		}
		perf := "-"
		if p := d.Addons.Performance; present(p.Range) {
			var ts []string
			for _, t := range p.Targets {
				ts = append(ts, t.Extract())
			}
			perf = "(" + strings.Join(ts, ",") + ")"
		}
		var bs []string
		for _, b := range d.Bookings {
			bs = append(bs, fmt.Sprintf("%s %s %s %s", b.Credit.Extract(), b.Debit.Extract(), b.Quantity.Extract(), b.Commodity.Extract()))
		}
		return fmt.Sprintf("txn|%s|%q|accrue=%s|perf=%s|%s", d.Date.Extract(), d.Description.Content.Extract(), acc, perf, strings.Join(bs, ";"))
	}
	return fmt.Sprintf("unknown:%T", dir.Directive)
}

// TreeGaps returns the text before the first, between and after the last
// top-level directive (len = directives + 1). The tree must have passed Judge.
func TreeGaps(text string, f directives.File) []string {
	var res []string
	pos := 0
	for _, d := range f.Directives {
		res = append(res, text[pos:d.Start])
		pos = d.End
	}
	return append(res, text[pos:])
}

// Format runs the library formatter on a parsed file inside a recover wrapper.
func Format(f directives.File) (out string, err error, panicked string) {
	var buf bytes.Buffer
	panicked = try(func() { err = syntax.FormatFile(&buf, f) })
	return buf.String(), err, panicked
}

// JudgeFormat is the model-free part of the C08 oracle for a text that
// parsed (and passed Judge): F = format(T) parses, means the same, keeps the
// gaps, and is a fixed point.
func JudgeFormat(text string, out Outcome) *Finding {
	F, err, pan := Format(out.File)
	if pan != "" {
		return finding("format-panic", "syntax.FormatFile panicked: %s", firstLine(pan))
	}
	if err != nil {
		return finding("format-error", "syntax.FormatFile failed on a parsed file: %v", err)
	}
	outF := Parse(F, "f.knut")
	if outF.Panic != "" || outF.Err != nil {
		return finding("formatted-text-does-not-parse", "the formatted text does not parse: %v %s", outF.Err, firstLine(outF.Panic))
	}
	if fd, _ := Judge(F, outF); fd != nil {
		return nil // C07's subject
	}
	a, b := TreeTuples(out.File), TreeTuples(outF.File)
	if len(a) != len(b) {
		return finding("format-changes-sequence", "%d directives before, %d after formatting", len(a), len(b))
	}
	for i := range a {
		if a[i] != b[i] {
			return finding("format-changes-directive", "directive %d: %s became %s", i, trunc(a[i], 200), trunc(b[i], 200))
		}
	}
	ga, gb := TreeGaps(text, out.File), TreeGaps(F, outF.File)
	for i := range ga {
		if ga[i] != gb[i] {
			return finding("format-changes-gap", "gap %d: %q became %q", i, trunc(ga[i], 100), trunc(gb[i], 100))
		}
	}
	F2, err, pan := Format(outF.File)
	if pan != "" || err != nil {
		return finding("format-fails-on-formatted-text", "%v %s", err, firstLine(pan))
	}
	if F2 != F {
		return finding("format-not-idempotent", "formatting the formatted text changes it again")
	}
	return nil
}
